#!/bin/bash
# One-time setup after a fresh restore (offline): build every monitoring configuration of the library and the
# executor from /repo's working tree.  Checks rebuild incrementally afterwards.
cd "$(dirname "$0")"
CONFIGS="$(/opt/veriftools/pyvenv/bin/python3 tools/mkmanifest.py --configs)"
rc=0
for c in $CONFIGS; do
  echo "[setup] building configuration $c"
  tools/build.sh "$c" || rc=2
done
mkdir -p evidence replays .work
exit $rc
