"""C46 - homogeneous linear Diophantine solver returns exactly the Hilbert basis.
Reference: brute-force enumeration of all non-negative integer vectors up to the Pottier bound, keeping the minimal ones."""
import itertools
import multiprocessing as mp_
import numpy as np
from vlib.core import Check, run_cases, run_one, check_process_reports, crash_key, NCPU

CAP = 3000000
CAPS = {'quick': 250000, 'thorough': 3000000}


def rank_of(rows):
    from fractions import Fraction
    m = [[Fraction(x) for x in r] for r in rows]
    rk = 0
    ncol = len(m[0])
    for c in range(ncol):
        piv = next((i for i in range(rk, len(m)) if m[i][c] != 0), None)
        if piv is None:
            continue
        m[rk], m[piv] = m[piv], m[rk]
        for i in range(len(m)):
            if i != rk and m[i][c] != 0:
                f = m[i][c] / m[rk][c]
                m[i] = [a - f * b for a, b in zip(m[i], m[rk])]
        rk += 1
        if rk == len(m):
            break
    return rk


def hilbert_basis(rows, cap=CAP):
    """Returns (sorted list of tuples) or None if the search box is above the cap."""
    q = len(rows[0])
    rk = rank_of(rows)
    if rk == 0:
        return sorted(tuple(1 if i == j else 0 for i in range(q)) for j in range(q))
    bound = (1 + max(sum(abs(x) for x in r) for r in rows)) ** rk     # Pottier: 1-norm of minimal solutions
    if (bound + 1) ** q > cap:
        return None
    ax = np.arange(bound + 1, dtype=np.int64)
    grids = np.meshgrid(*([ax] * q), indexing='ij')
    mask = np.ones(grids[0].shape, dtype=bool)
    tot = sum(grids)
    mask &= (tot <= bound) & (tot > 0)
    for r in rows:
        s = sum(int(c) * g for c, g in zip(r, grids))
        mask &= (s == 0)
    sols = np.argwhere(mask)
    sols = sols[np.argsort(sols.sum(axis=1), kind='stable')]
    basis = []
    for v in sols:
        if any(all(b[i] <= v[i] for i in range(q)) for b in basis):
            continue
        basis.append(tuple(int(x) for x in v))
    return sorted(basis)


def _judge(args):
    cid, rows, got, cap = args
    q = len(rows[0])
    probs = []
    vecs = []
    for v in got:
        try:
            vecs.append(tuple(int(x) for x in v))
        except (ValueError, TypeError):
            probs.append('non-integer entry in %r' % (v,))
    for v in vecs:
        if len(v) != q:
            probs.append('wrong length %r' % (v,))
        elif any(x < 0 for x in v):
            probs.append('negative entry %r' % (v,))
        elif all(x == 0 for x in v):
            probs.append('zero vector returned')
        elif any(sum(c * x for c, x in zip(r, v)) != 0 for r in rows):
            probs.append('not a solution %r' % (v,))
    if len(set(vecs)) != len(vecs):
        probs.append('duplicate vector')
    for a in set(vecs):
        for b in set(vecs):
            if a != b and len(a) == len(b) == q and all(x <= y for x, y in zip(a, b)):
                probs.append('non-minimal %r >= %r' % (b, a))
    ref = hilbert_basis(rows, cap)
    if ref is None:
        return cid, probs, 'skipped'
    if not probs and sorted(set(vecs)) != ref:
        missing = [v for v in ref if v not in set(vecs)]
        extra = [v for v in set(vecs) if v not in ref]
        probs.append('basis differs: missing %r extra %r' % (missing[:4], extra[:4]))
    return cid, probs, 'full'


def stmt(rows):
    p, q = len(rows), len(rows[0])
    return ('emit', ('homogeneous_lde', p, q, tuple(str(x) for r in rows for x in r)))


class C(Check):
    prop = 'C46'

    def run(self):
        rng = self.rng
        self.rule = ('all integer matrices of shapes 1x2, 1x3, 2x2, 2x3 with entries in [-2,2] and 1x4, 2x4, 3x3 with entries in [-1,1] '
                     '(thorough: complete; quick: stratified sample) plus random matrices up to 3x5 with entries in [-4,4]; result compared as a '
                     'set with the brute-force Hilbert basis inside the Pottier bound (cases above the enumeration cap get the structural '
                     'checks only: solution, non-negative, non-zero, no duplicates, pairwise incomparable); non-trivial = reference basis has '
                     '>= 2 elements and the matrix has a negative and a positive entry')
        mats = []
        for (p, q, lo, hi) in ((1, 2, -2, 2), (1, 3, -2, 2), (2, 2, -2, 2), (2, 3, -2, 2), (1, 4, -1, 1), (2, 4, -1, 1), (3, 3, -1, 1)):
            allm = list(itertools.product(range(lo, hi + 1), repeat=p * q))
            if self.tier == 'quick' and len(allm) > 500:
                allm = rng.sample(allm, 500)
            for ent in allm:
                mats.append([list(ent[i * q:(i + 1) * q]) for i in range(p)])
        self.exhaustive = self.tier == 'thorough'
        for _ in range(self.q(800, 60000)):
            p = rng.choice((1, 1, 2, 2, 3))
            q = rng.choice((2, 3, 3, 4, 4, 5))
            m = rng.choice((1, 2, 3, 4))
            mats.append([[rng.randint(-m, m) for _ in range(q)] for _ in range(p)])
        cases = [('m%d' % i, [stmt(rows)]) for i, rows in enumerate(mats)]
        res, reps = run_cases('asan', cases, tag='c46', timeout=30)
        check_process_reports(self, reps)
        tojudge = []
        bym = {}
        for (cid, _), rows in zip(cases, mats):
            bym[cid] = rows
            r = res.get(cid)
            if r is None:
                self.inconclusive += 1
                continue
            self.note_asserts(r)
            if r.status == 'crashed':
                self.violation(crash_key(r), dict(matrix=rows, program=[_render(rows)], crash=r.crash, config='asan'))
                continue
            if r.status == 'timeout':
                self.count('timeout')
                self.inconclusive += 1
                continue
            st = r.s(0)
            if st is None or st.st != 'ok':
                if st is not None and st.st == 'exc':
                    self.count('declined:' + str(st.ty))
                else:
                    self.inconclusive += 1
                continue
            tojudge.append((cid, rows, st.v, CAPS[self.tier]))
        ctx = mp_.get_context('fork')
        with ctx.Pool(NCPU) as pool:
            out = pool.map(_judge, tojudge, chunksize=16)
        got = {c: g for c, _, g, _ in tojudge}
        for cid, probs, mode in out:
            self.evaluations += 1
            self.count('judged:' + mode)
            rows = bym[cid]
            flat = [x for r in rows for x in r]
            if len(got[cid]) >= 2 and min(flat) < 0 < max(flat):
                self.nontriv(rows)
            if not probs:
                if len(self.samples) < 5 and len(got[cid]) >= 3:
                    self.sample(dict(A=rows, basis=got[cid]))
                continue
            # confirm in a fresh process
            r, _ = run_one('asan', 'c', [stmt(rows)], timeout=30)
            if r is None or r.status != 'ok' or r.s(0) is None or r.s(0).st != 'ok':
                self.inconclusive += 1
                continue
            _, probs2, _ = _judge((cid, rows, r.s(0).v, CAPS[self.tier]))
            if not probs2:
                self.inconclusive += 1
                continue
            self.violation(dict(clause=probs2[0].split(' ')[0] + ' ' + probs2[0].split(' ')[1] if ' ' in probs2[0] else probs2[0], shape='%dx%d' % (len(rows), len(rows[0]))),
                           dict(matrix=rows, returned=r.s(0).v, problems=probs2[:5], program=[_render(rows)], config='asan'))
        self.min_evals = 1000


def _render(rows):
    from vlib.core import render
    return render(stmt(rows))
