"""C11 - substitution preserves value and is cache independent.
Spec side: the recipe with the symbol leaves replaced syntactically (simultaneously) by the monitor; result side: the tree returned by
subs / xreplace / msubs / ssubs.  Sub-expression keys {k: t} (t fresh) use the sound clause: result[t := k] must equal e."""
from fractions import Fraction
from vlib import gen
from vlib.gen import I, FR, CX, F, S, K, X, Y, Z
from vlib.core import render
from ._vp import VPCheck, recipe_subst, tree_subst, tree_subst_map
from . import c07

UN = ['sin', 'cos', 'tan', 'exp', 'log', 'sinh', 'cosh', 'atan', 'asinh', 'sqrt', 'abs', 'erf', 'gamma', 'asin', 'acos', 'tanh', 'sign', 'conjugate']
APIS = ['subs', 'subs', 'subs', 'xreplace', 'msubs', 'ssubs']


def subtrees(r, acc):
    if isinstance(r, tuple) and r and isinstance(r[0], str) and r[0] not in ('int', 'rat', 'cpx', 'real', 'const'):
        acc.append(r)
        if r[0] != 'sym':
            for a in r[1:]:
                subtrees(a, acc)
    return acc


def value(rng):
    r = rng.random()
    if r < 0.35:
        return I(rng.choice((0, 1, -1, 2, -2, 3, 10)))
    if r < 0.55:
        return FR(rng.choice(gen.SMALL_RATS))
    if r < 0.65:
        a, b = rng.choice(gen.GAUSS)
        return CX(a, b)
    if r < 0.8:
        return CX(rng.choice((2, -3, Fraction(1, 2))), rng.choice((1, -2, Fraction(3, 2))))
    if r < 0.9:
        return rng.choice((K('pi'), K('E'), K('I')))
    return I(rng.choice((2 ** 64 + 1, -(10 ** 20))))


def _has_fractional_power_of(t, name):
    if isinstance(t, list):
        if t[0] == 'Pow' and t[1] == ['Symbol', name] and t[2][0] != 'Integer':
            return True
        if t[0] == 'T' and t[1] == ['Symbol', name] and t[2][0] not in ('Integer',):
            return True
        return any(_has_fractional_power_of(a, name) for a in t[1:])
    return False


def norm_recip(t):
    """Canonical JSON of a dump tree after rewriting (b**-1)**q -> b**(-q) and sorting dictionary terms: two trees with the same
    normal form differ only by that refolding (known family)."""
    import json
    from fractions import Fraction as Fr

    def negq(q):
        if q[0] == 'Integer':
            return ['Integer', str(-int(q[1]))]
        if q[0] == 'Rational':
            return ['Rational', str(-int(q[1])), q[2]]
        return None

    def be(base, ex):
        # returns (base, exp) with reciprocal bases folded
        if base[0] == 'Pow' and base[2] == ['Integer', '-1'] and negq(ex) is not None:
            return n(base[1]), negq(ex)
        return n(base), n(ex)

    def n(t):
        if not isinstance(t, list):
            return t
        if t[0] == 'Pow':
            b, e = be(t[1], t[2])
            return ['Pow', b, e]
        if t[0] in ('Mul', 'Add'):
            terms = []
            for term in t[2:]:
                if t[0] == 'Mul':
                    b, e = be(term[1], term[2])
                    if b[0] == 'Pow' and e == ['Integer', '1']:
                        b, e = b[1], b[2]
                    terms.append(['T', b, e])
                else:
                    terms.append(['T', n(term[1]), n(term[2])])
            terms.sort(key=lambda x: json.dumps(x, sort_keys=True))
            if t[0] == 'Mul' and len(terms) == 1 and t[1] == ['Integer', '1']:
                return ['Pow', terms[0][1], terms[0][2]] if terms[0][2] != ['Integer', '1'] else terms[0][1]
            return [t[0], n(t[1])] + terms
        return [t[0]] + [n(a) for a in t[1:]]
    return json.dumps(n(t), sort_keys=True)


def norm_full(t):
    """norm_recip plus flattening of sums nested in sums (a term whose key is itself a sum, with any numeric coefficient): two trees with
    the same normal form differ only by re-canonicalisation choices the library is known to make inconsistently."""
    import json
    from fractions import Fraction as Fr

    def num(x):
        if x[0] == 'Integer':
            return Fr(int(x[1]))
        if x[0] == 'Rational':
            return Fr(int(x[1]), int(x[2]))
        return None

    def mk(q):
        return ['Integer', str(q.numerator)] if q.denominator == 1 else ['Rational', str(q.numerator), str(q.denominator)]

    def flat(t):
        if not isinstance(t, list):
            return t
        t = [t[0]] + [flat(a) for a in t[1:]]
        if t[0] == 'Add':
            coef = num(t[1])
            if coef is None:
                return t
            terms = {}
            ok = True

            def addterm(key, c):
                k = json.dumps(key, sort_keys=True)
                terms[k] = (key, terms.get(k, (key, Fr(0)))[1] + c)
            for term in t[2:]:
                key, c = term[1], num(term[2])
                if c is None:
                    ok = False
                    break
                if key[0] == 'Add' and num(key[1]) is not None and all(num(x[2]) is not None for x in key[2:]):
                    coef += c * num(key[1])
                    for x in key[2:]:
                        addterm(x[1], c * num(x[2]))
                elif key[0] == 'Mul' and num(key[1]) is not None and len(key) == 3 and key[2][2] == ['Integer', '1'] and key[2][1][0] == 'Add' \
                        and num(key[2][1][1]) is not None and all(num(x[2]) is not None for x in key[2][1][2:]):
                    inner = key[2][1]
                    cc = c * num(key[1])
                    coef += cc * num(inner[1])
                    for x in inner[2:]:
                        addterm(x[1], cc * num(x[2]))
                else:
                    addterm(key, c)
            if not ok:
                return t
            out = [['T', k, mk(c)] for k, c in terms.values() if c != 0]
            out.sort(key=lambda x: json.dumps(x, sort_keys=True))
            if not out:
                return mk(coef)
            return ['Add', mk(coef)] + out
        return t
    return norm_recip(flat(t))


class C(VPCheck):
    prop = 'C11'

    def run(self):
        rng = self.rng
        self.rule = ('expressions (random arithmetic with 18 unary functions, depth 2-3, and the rewrite templates of C07) x substitution maps of 1-3 keys: '
                     'symbol->number (exact, float, values creating 0**-1), symbol swaps and chains (simultaneity), symbol->expression, '
                     'sub-expression keys -> fresh symbol (sound clause), absent symbols and identity maps (must return an equal expression); through '
                     'subs, xreplace, msubs, ssubs, each with cache on and off (results must be eq); judged by mpmath at 3 generic complex points; '
                     'non-trivial = a key occurs in the expression')
        items = []
        for k in range(self.q(7000, 200000)):
            items.append(self.make_random(rng, 'e%d' % k))
        self.vp_execute([it for it in items if it], 'c11')
        self.min_evals = 2000

    def make_random(self, rng, cid):
        if rng.random() < 0.25:
            e = c07.template(rng)
        else:
            e = gen.rand_arith(rng, rng.choice((2, 3, 3)), unary=UN, p_unary=0.3, floats=False)
        realpts = False
        if rng.random() < 0.2:
            # multi-argument nodes (rebuilt argument by argument): Max/Min (real points), LeviCivita-free two-argument functions, f(x, y, z)
            args = [gen.rand_arith(rng, 1, unary=('sin', 'exp'), p_unary=0.2, complex_=False, consts=False) for _ in range(rng.choice((2, 3, 4)))]
            args[rng.randrange(len(args))] = rng.choice((X, Y, Z))
            k = rng.random()
            if k < 0.45:
                e = (rng.choice(('max', 'min')),) + tuple(args)
                realpts = True
            elif k < 0.7:
                e = ('func', rng.choice(('f', 'g', 'h'))) + tuple(args)
            elif k < 0.85:
                # small orders only: incomplete gamma of a large integer order expands recursively into that many nested terms
                e = (rng.choice(('beta', 'lowergamma', 'uppergamma')), rng.choice((I(2), I(3), FR(Fraction(3, 2)), X, Y)), args[1])
            else:
                e = ('atan2', args[0], args[1])
                realpts = True
            if rng.random() < 0.4:
                e = (rng.choice(('add', 'mul')), e, rng.choice((X, Y, I(2))))
        api = rng.choice(APIS)
        mode = rng.random()
        if realpts:
            mode = rng.choice((0.1, 0.4, 0.5, 0.9, 0.97))      # number values must stay real for max/min: use symbol/expression maps mostly
        pairs = []
        post_t = None
        noop = False
        if mode < 0.3:
            for s in rng.sample(['x', 'y', 'z'], rng.choice((1, 1, 2))):
                pairs.append((S(s), value(rng)))
        elif mode < 0.45:
            perm = rng.choice(([('x', 'y'), ('y', 'x')], [('x', 'y'), ('y', 'z'), ('z', 'x')], [('x', 'y')], [('x', 'z'), ('z', 'x')]))
            pairs = [(S(a), S(b)) for a, b in perm]
        elif mode < 0.65:
            for s in rng.sample(['x', 'y', 'z'], rng.choice((1, 2))):
                pairs.append((S(s), gen.rand_arith(rng, 1, unary=('sin', 'exp'), p_unary=0.2)))
        elif mode < 0.85:
            st = [t for t in subtrees(e, []) if t[0] != 'sym']
            if not st:
                return None
            kx = rng.choice(st)
            pairs = [(kx, S('t0'))]
            post_t = kx
        elif mode < 0.93:
            pairs = [(S('w'), value(rng))]
            noop = True
        else:
            pairs = [(S(s), S(s)) for s in rng.sample(['x', 'y', 'z'], rng.choice((1, 2, 3)))]
            noop = True
        it = self.make(e, api, pairs, post_t, noop, cid)
        if realpts:
            if any(v[0] == 'cpx' or v == K('I') for _, v in pairs):
                return None
            it['kind'] = 'real'
        return it

    def make(self, e, api, pairs, post_t, noop, cid):
        from ._workload import tame, HEAVY
        if any(("'%s'" % h) in repr(e) for h in HEAVY if h != 'pow'):
            # an astronomically large value substituted into the order of a gamma-family function makes it recurse once per unit (resource)
            pairs = [(k, tame(v, True)) for k, v in pairs]
        plist = tuple((k, v) for k, v in pairs)
        stmts = [('let', 'e', e), ('let', 'r', (api, '$e', True) + plist), ('emit', '$r'),
                 ('emit', ('eq', '$r', (api, '$e', False) + plist)), ('emit', (api, '$e', False) + plist), ('emit', '$e')]
        if noop:
            stmts.append(('emit', ('eq', '$r', '$e')))
        if post_t is not None:
            stmts.append(('emit', post_t))       # the key as the library itself constructs it (index 6): what t0 stands for
            spec = e
            post = True
        else:
            m = {k[1]: v for k, v in pairs if k[0] == 'sym'}
            spec = recipe_subst(e, m)
            post = None
        occurs = any(gen.recipe_str(k) in gen.recipe_str(e) for k, _ in pairs)
        it = dict(cid=cid, stmts=stmts, at=2, spec=spec, recipe=e, post=post, label=api, nontrivial=occurs and not noop, kind='complex',
                  noop=noop, symmap={k[1]: v for k, v in pairs if k[0] == 'sym'}, keyrecipe=post_t, mapdesc=[(gen.recipe_str(k), gen.recipe_str(v)) for k, v in pairs])
        if post_t is None:
            it['rebuild'] = lambda r2: self.make(r2, api, pairs, None, noop, 'k')
        return it

    def result_tree(self, it, st):
        # the specification is the library's own input expression (as constructed) with the keys replaced by the monitor
        r = it.get('_res')
        te = r.s(5).v['t'] if r is not None and r.s(5) is not None and r.s(5).st == 'ok' else None
        if te is None:
            return None
        if it.get('post') is None:
            it['spec'] = tree_subst_map(te, it['symmap'])
        else:
            it['spec'] = te
            sk = r.s(6)
            if sk is None or sk.st != 'ok':
                return None
            return tree_subst(st.v['t'], 't0', sk.v['t'])
        return VPCheck.result_tree(self, it, st)

    def _rebuild_family(self, ta, tb):
        """Two results that should be eq but are not: classify as the recorded family when they differ only by re-canonicalisation, i.e.
        (cheap test) by refolding (b**-1)**q, or (general test) they have the same value at generic points."""
        if ta is None or tb is None:
            return None
        if norm_recip(ta) == norm_recip(tb):
            return 'rebuild-recanonicalises'
        from . import _value
        v = _value.bounded(lambda: _value.judge_items([('k', ta, tb, None)], self.seed + 3)[0][1], seconds=30, default='inconclusive')
        return 'rebuild-recanonicalises' if v == 'ok' else None

    def extra_checks(self, it, r):
        prog = [render(s) for s in it['stmts']]
        st = r.s(3)
        t2 = r.s(4).v['t'] if r.s(4) is not None and r.s(4).st == 'ok' else None
        te = r.s(5).v['t'] if r.s(5) is not None and r.s(5).st == 'ok' else None
        if st is not None and st.st == 'ok' and st.v is False:
            fam = self._rebuild_family(it['_rawtree'], t2)
            self.violation(dict(clause='cache-dependence', api=it['label'], family=fam),
                           dict(program=prog, result=it['_str'], result_nocache=r.s(4).v.get('s') if t2 is not None else None, config='asan'))
        if st is not None and st.st == 'exc':
            self.violation(dict(clause='cache-dependence-exception', api=it['label'], ty=st.ty), dict(program=prog, msg=st.msg, config='asan'))
        if it.get('noop'):
            st = r.s(6)
            if st is not None and st.st == 'ok' and st.v is False:
                fam = self._rebuild_family(it['_rawtree'], te)
                self.violation(dict(clause='noop-not-equal', api=it['label'], family=fam), dict(program=prog, result=it['_str'], config='asan'))

    def key_of(self, it, detail):
        k = VPCheck.key_of(self, it, detail)
        k['api'] = it['label']
        k['map'] = 'subexpr' if it.get('post') else ('sym')
        if '(atan2' in gen.recipe_str(it['recipe']):
            k['family'] = 'inherits-atan2-quadrant'
            k.pop('shape', None)
            return k
        kr = it.get('keyrecipe')
        if kr is not None and _has_fractional_power_of(it.get('_rawtree'), 't0'):     # the key was (or evaluated to) a power b**p
            k['family'] = 'power-key-noninteger-ratio'
            k.pop('shape', None)
        return k
