"""C17 - the parser implements conventional mathematical syntax.
The generator owns an abstract syntax tree; it renders it to a string (random whitespace, redundant parentheses, ^ or **, chains,
unary signs, decimal literals with leading zeros / exponents, implicit multiplication, function aliases) and also builds the same
tree directly through add/sub/mul/div/pow/neg and the named functions.  parse(string) must be equal in value (oracle E; exact for
pure numbers) to the direct build."""
from fractions import Fraction
from vlib import gen, oracle_e
from vlib.gen import I, FR, S, K
from vlib.core import render, Q
from ._vp import VPCheck

FUNCS1 = {'sin': 'sin', 'cos': 'cos', 'tan': 'tan', 'asin': 'asin', 'arcsin': 'asin', 'acos': 'acos', 'arccos': 'acos', 'atan': 'atan', 'arctan': 'atan',
          'sinh': 'sinh', 'cosh': 'cosh', 'tanh': 'tanh', 'asinh': 'asinh', 'arcsinh': 'asinh', 'exp': 'exp', 'log': 'log', 'ln': 'log', 'sqrt': 'sqrt',
          'abs': 'abs', 'erf': 'erf', 'sec': 'sec', 'csc': 'csc', 'cot': 'cot', 'acot': 'acot', 'arccot': 'acot', 'atanh': 'atanh',
          'arctanh': 'atanh', 'acosh': 'acosh', 'arccosh': 'acosh', 'sign': 'sign', 'floor': 'floor', 'ceiling': 'ceiling', 'erfc': 'erfc',
          'asec': 'asec', 'arcsec': 'asec', 'acsc': 'acsc', 'arccsc': 'acsc', 'coth': 'coth', 'sech': 'sech', 'csch': 'csch'}
FUNCS2 = {'pow': 'pow', 'atan2': 'atan2', 'log': 'log', 'max': 'max', 'min': 'min'}   # (gamma/beta of a large integer is a resource question)
CONSTS = {'pi': K('pi'), 'E': K('E'), 'e': K('E'), 'I': K('I'), 'EulerGamma': K('EulerGamma'), 'Catalan': K('Catalan'), 'GoldenRatio': K('GoldenRatio')}
SYMS = ['x', 'y', 'z', 'a1', '_b', 'theta', 'x_1', 'Z9']


# AST: ('num', text, recipe) ('name', text, recipe) ('un', '-'|'+', a) ('bin', op, a, b) ('call', name, [args]) ('imul', numtext, recipe, name, recipe)
def literal(rng):
    r = rng.random()
    if r < 0.3:
        n = rng.choice((0, 1, 2, 3, 7, 10, 12, 100, 64, 1000))
        return ('num', str(n), I(n))
    if r < 0.45:
        n = rng.choice((8, 10, 7, 0, 9, 77, 123))
        z = rng.choice(('0', '00', '000'))
        return ('num', z + str(n), I(n))                      # leading zeros: still decimal
    if r < 0.75:
        t = rng.choice(('0.5', '.5', '5.', '1e3', '1E-3', '1.e2', '0.1e+2', '2.5', '0.25', '1e-5', '12.75', '1e20', '0.125', '00.5', '3.0'))
        return ('num', t, ('real', float(t)))
    n = rng.choice((2, 3, 10, 15))
    return ('num', str(n), I(n))


def atom(rng):
    r = rng.random()
    if r < 0.45:
        s = rng.choice(SYMS)
        return ('name', s, S(s))
    if r < 0.55:
        c = rng.choice(list(CONSTS))
        return ('name', c, CONSTS[c])
    if r < 0.65:
        num = rng.choice(('2', '3', '10', '2.5', '0.5', '1e3', '12'))
        s = rng.choice(('x', 'y', 'theta', 'pi'))
        nrec = I(int(num)) if num.isdigit() else ('real', float(num))
        srec = CONSTS.get(s, S(s))
        return ('imul', num, nrec, s, srec)
    return literal(rng)


def ast(rng, depth):
    if depth <= 0 or rng.random() < 0.18:
        return atom(rng)
    r = rng.random()
    if r < 0.62:
        op = rng.choice(('+', '-', '*', '/', '**', '+', '-', '*'))
        if op == '**':
            # exponents stay small: huge integer powers are a resource question, not a syntax one
            ex = rng.choice((('num', '2', I(2)), ('num', '3', I(3)), ('name', 'x', S('x')), ('num', '0.5', ('real', 0.5)), ('un', '-', ('num', '1', I(1))),
                             ('bin', '/', ('num', '1', I(1)), ('num', '2', I(2))), ('name', 'y', S('y')), ('bin', '**', ('name', 'y', S('y')), ('num', '2', I(2))),
                             ('un', '-', ('name', 'x', S('x'))), ('num', '10', I(10))))
            return ('bin', op, ast(rng, depth - 1), ex)
        return ('bin', op, ast(rng, depth - 1), ast(rng, depth - 1))
    if r < 0.75:
        return ('un', rng.choice(('-', '-', '+')), ast(rng, depth - 1))
    if r < 0.93:
        name = rng.choice(list(FUNCS1))
        return ('call', name, [ast(rng, depth - 1)])
    name = rng.choice(list(FUNCS2))
    return ('call', name, [ast(rng, depth - 1), ast(rng, depth - 1)])


PREC = {'+': 1, '-': 1, '*': 2, '/': 2, 'un': 3, '**': 4}


def to_recipe(t):
    k = t[0]
    if k in ('num', 'name'):
        return t[2]
    if k == 'imul':
        return ('mul', t[2], t[4])
    if k == 'un':
        return ('neg', to_recipe(t[2])) if t[1] == '-' else to_recipe(t[2])
    if k == 'bin':
        a, b = to_recipe(t[2]), to_recipe(t[3])
        return ({'+': 'add', '-': 'sub', '*': 'mul', '/': 'div', '**': 'pow'}[t[1]], a, b)
    if k == 'call':
        name = t[1]
        args = [to_recipe(a) for a in t[2]]
        if len(args) == 1:
            return (FUNCS1[name], args[0])
        if name == 'log':
            return ('log', args[0], args[1])
        return (FUNCS2[name],) + tuple(args)
    raise ValueError(k)


def render_ast(t, rng, parent=0, side=None, parent_op=None):
    """Conventional rendering: minimal parentheses by precedence/associativity, plus random redundant ones, whitespace, ^ for **."""
    sp = lambda: rng.choice(('', '', ' ', '  ', '\t', ' \n '))
    k = t[0]
    if k in ('num', 'name'):
        s = t[1]
        my = 9
    elif k == 'imul':
        s = t[1] + t[3]        # 2x, 2.5theta, 1e3x
        my = 2                 # behaves like a product
    elif k == 'un':
        s = t[1] + sp() + render_ast(t[2], rng, PREC['un'], 'r', 'un')
        my = PREC['un']
    elif k == 'bin':
        op = t[1]
        my = PREC[op]
        ls = render_ast(t[2], rng, my, 'l', op)
        rs = render_ast(t[3], rng, my, 'r', op)
        tok = rng.choice(('**', '^')) if op == '**' else op
        s = ls + sp() + tok + sp() + rs
    else:
        s = t[1] + sp() + '(' + sp() + (sp() + ',' + sp()).join(render_ast(a, rng) for a in t[2]) + sp() + ')'
        my = 9
    need = False
    if my < parent:
        need = True
    elif my == parent and parent_op is not None:
        if parent_op in ('-', '/') and side == 'r':
            need = True          # a - (b - c), a / (b * c)
        if parent_op == '**' and side == 'l':
            need = True          # (a ** b) ** c   (** is right associative)
        if parent_op in ('*', '/') and side == 'r' and k == 'imul':
            need = True
    if k == 'un' and parent_op == '**' and side == 'l':
        need = True              # (-a) ** b
    if k == 'un' and parent_op in ('+', '-', '*', '/', 'un') and side == 'r':
        need = need or rng.random() < 0.5     # a * -b and a - -b are accepted: sometimes bare, sometimes parenthesised
    if k == 'imul' and parent_op == '**':
        need = True              # (2x) ** 2 : the bare form 2x**2 is a different (documented) reading and is not generated here
    if need or rng.random() < 0.12:
        s = '(' + sp() + s + sp() + ')'
    return s


class C(VPCheck):
    prop = 'C17'

    def run(self):
        rng = self.rng
        self.rule = ('abstract syntax trees (depth 1-4) over + - * / ** unary signs, 41 one-argument and 6 two-argument function names incl. aliases '
                     '(arcsin/asin, ln/log, two-argument log, pow), constants (pi, E, e, I, EulerGamma, ...), identifiers with digits/underscores, decimal '
                     'integer literals with leading zeros and beyond 2**64, decimals (.5, 5., 1e3, 1E-3, 1.e2), implicit multiplication (2x, 2.5theta, 1e3x); '
                     'rendered with minimal parentheses by the conventional precedence and associativity (** right associative and binding tighter than '
                     'unary minus), random redundant parentheses, whitespace incl. tabs/newlines and ^ for **; parse(string) judged by value against the '
                     'tree built directly through the API; non-trivial = at least two operators of different precedence or a special literal')
        items = []
        for k in range(self.q(12000, 400000)):
            t = ast(rng, rng.choice((1, 2, 2, 3, 3, 4)))
            if rng.random() < 0.05:
                # literals beyond long / unsigned long only in additive or multiplicative position (gamma(2**63) is a resource question)
                n = rng.choice((2 ** 31, 2 ** 63, 2 ** 64 + 1, 10 ** 25, 2 ** 63 - 1, 2 ** 32))
                t = ('bin', rng.choice(('+', '-', '*')), ('num', str(n), I(n)), atom(rng))
                if rng.random() < 0.5:
                    t = ('un', '-', t)
            s = render_ast(t, rng)
            items.append(self.make(t, s, 'e%d' % k))
        self.vp_execute(items, 'c17')
        self.min_evals = 3000

    def make(self, t, s, cid):
        rcp = to_recipe(t)
        stmts = [('let', 'd', rcp), ('emit', '$d'), ('emit', ('parse', Q(s))), ('emit', ('eq', ('parse', Q(s)), '$d'))]
        ops = {c for c in ('+', '-', '*', '/', '^', '**') if c in s}
        nt = len(ops) >= 2 or any(x in s for x in ('e', 'E', '.')) or s.lstrip('( ').startswith('0')
        return dict(cid=cid, stmts=stmts, at=2, spec=None, label='parse', text=s, nontrivial=nt, kind='complex', astree=t)

    def result_tree(self, it, st):
        r = it['_res']
        sd = r.s(1)
        if sd is None or sd.st != 'ok':
            return None          # the direct build itself raised (e.g. division by zero): nothing to compare with
        it['spec'] = sd.v['t']
        se = r.s(3)
        if se is not None and se.st == 'ok' and se.v is True:
            self.count('structurally-equal')
        return st.v['t']

    def on_exception(self, it, st):
        # the string is in the grammar: a parse error (or any exception) while the direct build succeeds is a violation
        r = it.get('_res')
        self.count('parse-raised')
        self.pending_exc.append((it, st))

    def vp_execute(self, items, tag):
        self.pending_exc = []
        # need _res in on_exception: stash results before the generic driver runs its loop
        VPCheck.vp_execute(self, items, tag)
        # exceptions: confirm that the direct build succeeded in the same case
        from vlib.core import run_one
        seen = set()
        for it, st in self.pending_exc[:200]:
            r, _ = run_one('asan', 'x', it['stmts'])
            if r is None or r.status != 'ok':
                continue
            sd, sp = r.s(1), r.s(2)
            if sd is None or sd.st != 'ok' or sp is None or sp.st != 'exc':
                continue
            if not str(sp.ty).endswith('ParseError'):
                continue      # a value-level exception (division by zero met in another association order): not a syntax rejection
            self.evaluations += 1
            key = dict(clause='rejected-valid-syntax', ty=str(sp.ty).split('::')[-1], feature=_feature(it['text']))
            ks = str(sorted(key.items()))
            if ks in seen:
                continue
            seen.add(ks)
            self.violation(key, dict(text=it['text'], program=[render(s) for s in it['stmts']], msg=sp.msg, config='asan'))

    def key_of(self, it, detail):
        return dict(clause='value', feature=_feature(it['text']))


def _feature(s):
    """coarse description of the syntax features in a string (for known-finding keys)"""
    import re
    f = []
    if re.search(r'(^|[^\w.])0\d', s):
        f.append('leading-zero')
    if re.search(r'\d[A-Za-z_]', s) and not re.search(r'\d[eE][-+]?\d', s):
        f.append('implicit-mul')
    elif re.search(r'\d[eE][-+]?\d+[A-Za-z_]', s) or re.search(r'\d[a-df-zA-DF-Z_]', s):
        f.append('implicit-mul')
    if '^' in s or '**' in s:
        f.append('power')
    if re.search(r'[-+*/^]\s*[-+]', s):
        f.append('sign-after-operator')
    if re.search(r'[eE][-+]?\d', s) or '.' in s:
        f.append('decimal')
    return ','.join(f) or 'plain'
