"""Mixed API workloads shared by C40 (memory safety, leaks, object conservation) and C03 (canonical-form assertions):
programs of 4-9 statements that build expressions with the generators of the other monitors and push them through arithmetic, functions,
substitution, differentiation, expansion, simplification, printing, parsing, serialisation, polynomials, matrices, sets, logic, solving and series."""
from fractions import Fraction
from vlib import gen
from vlib.gen import I, FR, F, S, K, X, Y, Z
from vlib.core import Q
from . import c19, c27, c28, c26, c31, c30, c13

R = Fraction


def small_expr(rng, depth=2):
    return gen.rand_arith(rng, depth, unary=gen.UNARY_ALL, p_unary=0.3, floats=rng.random() < 0.2)


HEAVY = ('primorial', 'gamma', 'loggamma', 'primepi', 'lowergamma', 'uppergamma', 'polygamma', 'beta', 'zeta', 'dirichlet_eta', 'digamma', 'trigamma', 'pow')


def tame(r, under=False):
    """the same recipe with astronomically large literals under size-sensitive functions replaced by small ones
    (their cost or result size grows with the argument: a resource question, not a memory-safety one)"""
    if not isinstance(r, tuple) or not r:
        return r
    h = r[0]
    if under and h == 'int' and abs(int(r[1])) > 200:
        return ('int', str(int(r[1]) % 97 - 40))
    if under and h == 'real' and isinstance(r[1], float) and (r[1] != r[1] or abs(r[1]) > 200):
        return ('real', 12.5)
    if under and h == 'rat' and (abs(int(r[1])) > 10 ** 6 or abs(int(r[2])) > 10 ** 6):
        return ('rat', '7', '3')
    u = under or h in HEAVY
    return tuple(tame(a, u) if isinstance(a, tuple) else a for a in r)


def program(rng):
    return [tame(s) for s in _program(rng)]


def _program(rng):
    """-> list of statements; registers e, f hold expressions"""
    st = [('let', 'e', c19.expr(rng, rng.choice((1, 2, 2, 3))) if rng.random() < 0.5 else small_expr(rng, rng.choice((1, 2, 3)))),
          ('let', 'f', small_expr(rng, rng.choice((1, 2))))]
    n = rng.choice((3, 4, 5, 6, 7))
    for _ in range(n):
        k = rng.random()
        v = rng.choice((X, Y, Z))
        if k < 0.10:
            st.append(('emit', (rng.choice(('add', 'mul', 'sub', 'div')), '$e', '$f')))
        elif k < 0.16:
            st.append(('emit', ('pow', '$e', rng.choice((I(2), I(-1), FR(R(1, 2)), '$f', I(0), FR(R(-2, 3)))))))
        elif k < 0.24:
            st.append(('emit', ('expand', ('mul', '$e', ('add', '$f', I(1))))))
        elif k < 0.32:
            st.append(('emit', ('diff', '$e', v)))
        elif k < 0.40:
            st.append(('emit', ('subs', '$e', (v, rng.choice(('$f', I(0), I(1), K('oo'), F(0.5), K('zoo'), K('nan'), ('mul', I(2), v)))))))
        elif k < 0.44:
            st.append(('emit', ('xreplace', '$e', (v, '$f'))))
        elif k < 0.48:
            st.append(('emit', ('simplify', '$e')))
        elif k < 0.52:
            st.append(('emit', (rng.choice(('rewrite_as_exp', 'rewrite_as_sin', 'rewrite_as_cos', 'expand_as_exp', 'as_numer_denom', 'as_real_imag')), '$e')))
        elif k < 0.57:
            st.append(('emit', (rng.choice(('latex', 'mathml', 'unicode', 'julia_str', 'ccode', 'jscode', 'str')), '$e')))
        elif k < 0.62:
            st.append(('emit', ('parse', ('str', '$f'))))
        elif k < 0.66:
            st.append(('emit', ('eq', ('roundtrip', '$e'), '$e')))
        elif k < 0.70:
            st.append(('emit', (rng.choice(('eval_double', 'eval_complex_double')), '$f')))
        elif k < 0.74:
            st.append(('emit', ('series_coeffs', c31.gen_any(rng, 2), X, rng.choice((3, 5, 8)))))
        elif k < 0.78:
            st.append(('emit', ('solve', ('sub', ('pow', X, I(rng.choice((1, 2, 3, 4)))), rng.choice(('$f', I(2), FR(R(1, 2))))), X)))
        elif k < 0.83:
            se = c27.to_recipe(c27.expr(rng, rng.choice((1, 2))))
            st.append(('emit', rng.choice((('contains', '$f', se), ('sup', se), ('boundary', se), se))))
        elif k < 0.87:
            base = [c28.atom(rng) for _ in range(3)]
            st.append(('emit', c28.f_recipe(c28.formula(rng, 2, base))))
        elif k < 0.91:
            e, _ = c26.expr(rng, rng.choice((1, 2)), rng.choice((1, 2)), 2, False)
            st.append(('emit', rng.choice((e, ('mx_is_symmetric', e), ('mx_transpose', e)))))
        elif k < 0.94:
            st.append(('emit', ('uexpr_as_symbolic', ('uexpr_mul', ('uexprpoly', X, (0, '$f'), (2, I(3))), ('uexprpoly', X, (1, I(1)), (3, Y))))))
        elif k < 0.955:
            # sparse / dense matrices
            r_, c_ = rng.randint(1, 5), rng.randint(1, 5)
            ntr = rng.randint(0, 6)
            rows = tuple(str(rng.randrange(r_)) for _ in range(ntr))
            cols = tuple(str(rng.randrange(c_)) for _ in range(ntr))
            vals = tuple(rng.choice((I(0), I(1), I(-2), FR(R(1, 2)), X)) for _ in range(ntr))
            st.append(('let', 'A', ('csr_from_coo', r_, c_, rows, cols, vals) if rng.random() < 0.7 else ('csr_empty', r_, c_)))
            for _ in range(rng.choice((1, 2, 4))):
                st.append(('let', 'A', ('csr_set', '$A', rng.randrange(r_), rng.randrange(c_), rng.choice((I(0), I(0), I(3), FR(R(-1, 3)), Y)))))
            st.append(('emit', rng.choice((('csr_to_dense', '$A'), ('csr_transpose', '$A'), ('csr_is_canonical', '$A'), ('csr_get', '$A', rng.randrange(r_), rng.randrange(c_))))))
        elif k < 0.97:
            st.append(('emit', ('free_symbols', '$e')))
            st.append(('emit', ('coeff', ('expand', '$e'), v, I(1))))
        else:
            outs = [c13.smooth(rng, [X, Y], 2), c13.smooth(rng, [X, Y], 1)]
            st.append(('emit', ('lambda_seq', 'real', ('init', ('vec', X, Y), ('vec',) + tuple(outs), rng.random() < 0.5), ('call', 0.5, 1.5))))
    return st
