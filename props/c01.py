"""C01 - equal expressions have equal hashes (and hash-keyed containers never hold two equal entries)."""
import numpy as np
from vlib.core import Check, run_cases, run_one, check_process_reports, crash_key
from vlib import gen
from . import _order


class C(Check):
    prop = 'C01'

    def run(self):
        rng = self.rng
        self.rule = ('universes of expressions of every kind with planted equal-by-construction members (different operand order, '
                     'different arithmetic route, signed zeros, NaN doubles, polynomials over different variable sets, '
                     'loads(dumps(e))); all ordered pairs judged on the executor\'s eq/hash matrix; non-trivial = pair of distinct '
                     'objects reported equal by eq()')
        nu = self.q(250, 5000)
        cases, meta = _order.make_cases(rng, nu, self.q(45, 70))
        res, reps = run_cases('asan', cases, tag='c01')
        check_process_reports(self, reps)
        for cid, u in meta.items():
            r = res.get(cid)
            if r is None:
                continue
            self.note_asserts(r)
            if r.status == 'crashed':
                self.violation(crash_key(r), dict(program=[gen.recipe_str(s) for s in dict(cases)[cid]], crash=r.crash))
                continue
            st = r.s(len(u))
            if r.status != 'ok' or st is None or st.st != 'ok':
                self.inconclusive += 1
                continue
            v, dropped = _order.drop_asserting(st.v)
            if dropped:
                self.count('members-dropped-for-assertion-hook', dropped)
                self.inconclusive += dropped
            n, M, E, L, H = _order.matrices(v)
            idx = v['idx']
            self.evaluations += n * n
            self.count('universes')
            self.count('members-built', n)
            self.count('members-declined', len(u) - n)
            # eq symmetric
            asym = np.argwhere(E != E.T)
            for i, j in asym[:5]:
                if i < j:
                    self._report('eq-asymmetric', u, idx, i, j, dict(eq_ij=bool(E[i, j]), eq_ji=bool(E[j, i])))
            # eq => hash equal
            pairs = np.argwhere(E | E.T)
            for i, j in pairs:
                if i >= j:
                    continue
                self.nontriv((gen.recipe_str(u[idx[i]]), gen.recipe_str(u[idx[j]])))
                if len(self.samples) < 6:
                    self.sample(dict(a=gen.recipe_str(u[idx[i]]), b=gen.recipe_str(u[idx[j]]), hash_a=H[i], hash_b=H[j]))
                if H[i] != H[j]:
                    self._report('eq-but-hash-differs', u, idx, i, j, dict(hash_i=H[i], hash_j=H[j]))
            # hash-keyed container holds exactly one entry per eq-class
            classes = self._classes(E | E.T, n)
            if v['uset_size'] is not None and v['uset_size'] > classes:
                # find a pair responsible: eq pair with different hashes was already reported; otherwise report container
                self.violation(dict(clause='unordered-container-size', detail='uset=%d classes=%d' % (v['uset_size'], classes)),
                               dict(program=[gen.recipe_str(s) for s in dict(cases)[cid]], config='asan'))
            # finiteset of the first members: number of elements must equal number of eq-classes among them
            st2 = r.s(len(u) + 1)
            if st2 is not None and st2.st == 'ok':
                t = st2.v['t']
                first = [k for k, i in enumerate(idx) if i < 12]
                if len(first) == min(len(u), 12) and t[0] in ('FiniteSet', 'EmptySet'):
                    sub = (E | E.T)[np.ix_(first, first)]
                    want = self._classes(sub, len(first))
                    got = len(t) - 1
                    self.count('finiteset-probes')
                    if got > want:
                        self.violation(dict(clause='finiteset-holds-equal-elements', detail='elements=%d classes=%d' % (got, want)),
                                       dict(members=[gen.recipe_str(u[idx[k]]) for k in first], finiteset=st2.v['s'], config='asan',
                                            program=[gen.recipe_str(s) for s in dict(cases)[cid]]))
        self.min_evals = 1000

    @staticmethod
    def _classes(Eq, n):
        seen = [-1] * n
        c = 0
        for i in range(n):
            if seen[i] >= 0:
                continue
            seen[i] = c
            for j in range(i + 1, n):
                if Eq[i, j] and seen[j] < 0:
                    seen[j] = c
            c += 1
        return c

    def _report(self, clause, u, idx, i, j, extra):
        ra, rb = u[idx[i]], u[idx[j]]
        prog = _order.minimal_program(u, [idx[i], idx[j]])
        # confirm in a fresh process on the two members alone
        r, _ = run_one('asan', 'confirm', prog)
        confirmed = False
        if r is not None and r.status == 'ok' and r.s(2) is not None and r.s(2).st == 'ok':
            n, M, E, L, H = _order.matrices(r.s(2).v)
            if n == 2:
                if clause == 'eq-but-hash-differs':
                    confirmed = bool(E[0, 1] or E[1, 0]) and H[0] != H[1]
                else:
                    confirmed = bool(E[0, 1]) != bool(E[1, 0])
        if not confirmed:
            self.inconclusive += 1
            return
        kinds = sorted([_order.kind_of_recipe(ra), _order.kind_of_recipe(rb)])
        self.violation(dict(clause=clause, kinds=kinds),
                       dict(a=gen.recipe_str(ra), b=gen.recipe_str(rb), program=[gen.recipe_str(s) for s in prog], config='asan', **extra))
