"""C40 - API workloads are memory-safe and leak-free.
Mixed programs (see _workload.py) run in the ASan+UBSan build with leak detection at process exit.  Every program is executed twice in the
same process; for the second pass the executor reports the balance of the library's live-object counters (hook H2: Basic constructed minus
destroyed), which must be zero once the program's registers are dropped - objects created once per process (lazy singletons, caches) are
already there after the first pass.  Oracles: sanitizer report, signal, abort, hang (re-run alone before it counts), LeakSanitizer report,
non-zero live balance."""
from vlib.core import Check, run_cases, run_one, check_process_reports, crash_key, render
from . import _workload


class C(Check):
    prop = 'C40'

    def run(self):
        rng = self.rng
        self.rule = ('programs of 5-9 API calls over expressions from the generators of C19 (every node class), C27 (sets), C28 (logic), C26 (matrix expressions), C31 '
                     '(series), C13 (lambda evaluators) plus arithmetic, powers, expand, diff, subs (incl. oo / zoo / nan / floats), xreplace, simplify, rewrites, '
                     'as_numer_denom, as_real_imag, seven printers, parse(str(e)), serialisation round trip, numeric evaluation, solve, polynomial arithmetic, '
                     'structural queries; each program run twice in one process under ASan+UBSan+LSan; violation = sanitizer / signal / abort / confirmed hang / '
                     'leak report / non-zero live-object balance after the second pass; non-trivial = program whose calls all returned or threw library exceptions')
        cases, meta = [], {}
        for k in range(self.q(6000, 200000)):
            st = _workload.program(rng)
            cid = 'w%d~2' % k
            cases.append((cid, st))
            meta[cid] = st
        res, reps = run_cases('asan', cases, tag='c40', timeout=30)
        # process-level reports: LeakSanitizer at exit etc.
        for rp in reps:
            if str(rp.get('kind', '')).startswith('harness:'):
                raise RuntimeError('executor made no progress: %s' % rp.get('report', '')[-300:])
            self.san_reports.append(rp)
            self.violation(dict(clause='process-report', kind=rp['kind'], frames=rp['frames'][:3]), dict(report=rp['report'][-3000:], config='asan'))
        seen = set()

        def viol(key, wit):
            ks = str(sorted(key.items(), key=str))
            if ks not in seen:
                seen.add(ks)
                self.violation(key, wit)
        for cid, st in meta.items():
            r = res.get(cid)
            if r is None:
                self.inconclusive += 1
                continue
            self.note_asserts(r)
            prog = [render(s) for s in st]
            if r.status == 'timeout' and self.cov.get('timeouts-re-run-alone', 0) >= 8:
                # the sequential re-runs are capped (each may take two minutes); further time-outs of this run stay undecided
                self.count('timed-out (not re-run, inconclusive)')
                self.inconclusive += 1
                continue
            if r.status == 'timeout':
                self.count('timeouts-re-run-alone')
                r2, _ = run_one('asan', cid, st, timeout=120)
                if r2 is None or r2.status == 'ok':
                    self.count('slow-under-load (finished when re-run alone)')
                    r = r2 if r2 is not None else r
                    if r2 is None:
                        self.inconclusive += 1
                        continue
                else:
                    r = r2
            self.evaluations += 1
            if r.status == 'crashed':
                at = min(len(r.stmts), len(st) - 1)
                ck = crash_key(r)
                fr = ck.get('frames', [])[:3]
                rep = str(r.crash.get('report', '')) if isinstance(r.crash, dict) else ''
                import re as _re
                if ck.get('kind') == 'asan:stack-overflow' and len(_re.findall(r'set_(union|intersection|complement)', rep)) >= 5:
                    viol(dict(clause='crash', kind='asan:stack-overflow', family='set-algebra-recursion'), dict(program=prog[:2] + ([prog[at]] if at >= 2 else []), crash=r.crash, config='asan'))
                    continue
                viol(dict(clause='crash', kind=ck.get('kind'), frames=ck.get('frames', [])[:2]), dict(program=prog[:2] + ([prog[at]] if at >= 2 else []), crash=r.crash, config='asan'))
                continue
            if r.status == 'timeout' and (any(('(%s ' % h) in p_ for p_ in prog for h in _workload.HEAVY if h != 'pow') or any('(pow $' in p_ for p_ in prog)):
                # (the time-out may have hit the first, silent pass of the program, so the statement is not known: the whole program is scanned)
                # zeta / gamma-family functions of a large computed argument (Bernoulli numbers, factorials) or a power with a computed, possibly
                # astronomically large exponent ((2*u)**(64**5)): cost grows with the argument - resource, not memory safety
                self.count('too-expensive (size-sensitive function of a large argument)')
                self.inconclusive += 1
                continue
            if r.status == 'timeout':
                at = min(len(r.stmts), len(st) - 1)
                viol(dict(clause='hang', op=prog[at].split(' ')[1].strip('(') if ' ' in prog[at] else prog[at]), dict(program=prog[:2] + ([prog[at]] if at >= 2 else []), config='asan'))
                continue
            if r.status != 'ok':
                self.inconclusive += 1
                continue
            self.nontriv(prog[0][:80] + str(len(prog)))
            if r.live not in (0, None):
                viol(dict(clause='live-object-balance', sign='positive' if r.live > 0 else 'negative', ops=','.join(sorted({p.split(' ')[1].strip('()') for p in prog[2:] if ' ' in p}))[:200]),
                     dict(program=prog, live_balance=r.live, config='asan'))
            elif len(self.samples) < 4:
                self.sample(dict(program=prog[:4], statements=len(prog), live_balance_after_second_pass=r.live))
        self.min_evals = 3000
