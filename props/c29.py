"""C29 - number comparisons agree with numeric order.  Exhaustive ordered-pair table over real
representatives of every kind + substitution into symbolic relationals.  Oracle X (exact Fractions, extended reals)."""
from fractions import Fraction
from vlib.core import Check, run_cases, check_process_reports, crash_key
from vlib import gen

INF = 'inf'
NINF = '-inf'


def _reps():
    R = []

    def add(name, recipe, val, kind):
        R.append((name, recipe, val, kind))
    for n in (0, 1, -1, 2, 3, -7, 2 ** 53, 2 ** 53 + 1, -(2 ** 53) - 1, 10 ** 30 + 7, -(10 ** 30), 10 ** 300, 10 ** 300 + 1):
        add('int:%d' % n if abs(n) < 10 ** 20 else 'int:big%d' % (hash(n) % 1000), gen.I(n), Fraction(n), 'int')
    for q in (Fraction(1, 2), Fraction(-1, 2), Fraction(1, 3), Fraction(5, 2), Fraction(-5, 2), Fraction(1, 10), Fraction(1, 10 ** 300),
              Fraction(3602879701896397, 36028797018963968), Fraction(2 ** 54 + 1, 2)):
        add('rat:%s' % (q if q.denominator < 10 ** 6 else 'tiny' if q < 1 else 'big'), gen.FR(q), q, 'rat')
    for x in (0.0, -0.0, 1.0, -1.0, 0.5, -0.5, 0.3333333333333333, 2.5, -2.5, 0.1, 9007199254740992.0, 1e300, 1e-300, 5e-324, 2.0, 3.0, -7.0, 1e30):
        add('real:%r' % x, gen.F(x), Fraction(x), 'real')
    add('real:inf', ('real', 'inf'), INF, 'real')
    add('real:-inf', ('real', '-inf'), NINF, 'real')
    add('oo', gen.K('oo'), INF, 'inf')
    add('-oo', gen.K('-oo'), NINF, 'inf')
    return R


REPS = _reps()
RELS = ['Lt', 'Le', 'Gt', 'Ge', 'Eq', 'Ne']


def xcmp(a, b):
    """exact three-way comparison of extended reals"""
    def key(v):
        if v == INF:
            return (1, 0)
        if v == NINF:
            return (-1, 0)
        return (0, v)
    ka, kb = key(a), key(b)
    return (ka > kb) - (ka < kb)


def truth_of(rel, a, b):
    c = xcmp(a, b)
    return {'Lt': c < 0, 'Le': c <= 0, 'Gt': c > 0, 'Ge': c >= 0}[rel]


def atom(st):
    if st is None or st.st != 'ok':
        return None
    t = st.v['t']
    if t[0] == 'BooleanAtom':
        return t[1] == 'true'
    return 'unevaluated'


class C(Check):
    prop = 'C29'

    def run(self):
        rng = self.rng
        self.rule = ('every ordered pair of %d real representatives (integer, rational, double, float infinities, oo/-oo; equal values of '
                     'different kinds) x {Lt,Le,Gt,Ge,Eq,Ne}; plus symbolic relationals decided after subs; non-trivial = pair of '
                     'different kinds or equal values' % len(REPS))
        cases = []
        for i, A in enumerate(REPS):
            for j, B in enumerate(REPS):
                stmts = [('let', 'a', A[1]), ('let', 'b', B[1])]
                for rel in RELS:
                    stmts.append(('emit', (rel, '$a', '$b')))
                # symbolic then substituted
                stmts.append(('let', 'x', gen.X))
                stmts.append(('let', 'y', gen.Y))
                for rel in RELS[:4]:
                    stmts.append(('emit', ('subs', (rel, '$x', '$y'), ('$x', '$a'), ('$y', '$b'))))
                cases.append(('%d_%d' % (i, j), stmts))
        # random symbolic relationals with exact substitution (thorough: many)
        nsym = self.q(1500, 40000)
        symmeta = {}
        exact = [r for r in REPS if r[3] in ('int', 'rat') and abs(r[2]) < 10 ** 40]
        for k in range(nsym):
            A, B = rng.choice(exact), rng.choice(exact)
            c1, c2 = Fraction(rng.randint(-3, 3), rng.choice((1, 2, 3))), Fraction(rng.randint(-3, 3) or 1)
            rel = rng.choice(RELS[:4])
            # rel(c2*x + c1, y) with x->a, y->b
            lhs = ('add', ('mul', gen.FR(c2), gen.X), gen.FR(c1))
            stmts = [('emit', ('subs', (rel, lhs, gen.Y), (gen.X, A[1]), (gen.Y, B[1])))]
            cid = 's%d' % k
            cases.append((cid, stmts))
            symmeta[cid] = (rel, c2 * A[2] + c1, B[2], A[0], B[0], str(c2), str(c1))
        res, reps = run_cases('asan', cases, tag='c29')
        check_process_reports(self, reps)
        self.exhaustive = True
        tab = {}
        for i, A in enumerate(REPS):
            for j, B in enumerate(REPS):
                r = res.get('%d_%d' % (i, j))
                if r is None or r.status != 'ok':
                    if r is not None and r.status == 'crashed':
                        self.violation(dict(crash_key(r)), dict(a=A[0], b=B[0], crash=r.crash))
                    else:
                        self.inconclusive += 1
                    continue
                self.note_asserts(r)
                for k, rel in enumerate(RELS):
                    tab[(i, j, rel)] = r.s(2 + k)
                for k, rel in enumerate(RELS[:4]):
                    tab[(i, j, 'subs' + rel)] = r.s(10 + k)
        for (i, j, rel), st in sorted(tab.items()):
            A, B = REPS[i], REPS[j]
            self.evaluations += 1
            if A[3] != B[3] or xcmp(A[2], B[2]) == 0:
                self.nontriv((A[0], B[0], rel))
            got = atom(st)
            if got is None:
                if st is not None and st.st == 'exc':
                    self.count('declined:' + str(st.ty))
                else:
                    self.inconclusive += 1
                continue
            if got == 'unevaluated':
                self.count('unevaluated:' + rel)
                continue
            base = rel[4:] if rel.startswith('subs') else rel
            wit = dict(rel=rel, a=A[0], b=B[0], got=got, config='asan',
                       program=['(emit (%s %s %s))' % (base, gen.recipe_str(A[1]), gen.recipe_str(B[1]))])
            if (i * 31 + j) % 211 == 0:
                self.sample(dict(rel=rel, a=A[0], b=B[0], got=got))
            same_inf = A[2] in (INF, NINF) and A[2] == B[2] and A[3] != B[3]
            if base in ('Lt', 'Le', 'Gt', 'Ge') and same_inf:
                # a floating-point infinity against the symbolic infinity of the same sign: the property does not
                # say whether an overflowed double equals oo; only the consistency laws are judged for these pairs
                self.count('order-not-judged:float-inf-vs-oo')
            elif base in ('Lt', 'Le', 'Gt', 'Ge'):
                want = truth_of(base, A[2], B[2])
                self.count('order-judged')
                if got != want:
                    fam = None
                    kinds = {A[3], B[3]}
                    if 'real' in kinds and kinds & {'int', 'rat'} and A[2] not in (INF, NINF) and B[2] not in (INF, NINF):
                        ex, fl = (A[2], B[2]) if B[3] == 'real' else (B[2], A[2])
                        try:
                            if Fraction(float(ex)) == fl and ex != fl:
                                # the exact operand rounds to exactly the double operand: difference below one ulp
                                tie_answer = truth_of(base, Fraction(0), Fraction(0))
                                if got == tie_answer:
                                    fam = 'exact-vs-double-within-rounding'
                        except OverflowError:
                            pass
                    self.violation(dict(clause='order', rel=rel, kinds=[A[3], B[3]], cmp=xcmp(A[2], B[2]), family=fam), dict(wit, expected=want))
            # laws
            if rel == 'Le':
                o = atom(tab.get((j, i, 'Lt')))
                if isinstance(o, bool):
                    self.count('law-judged')
                    if got != (not o):
                        self.violation(dict(clause='law:Le=notLt', kinds=[A[3], B[3]], cmp=xcmp(A[2], B[2])), dict(wit, Lt_ba=o))
            if rel == 'Ge':
                o = atom(tab.get((j, i, 'Le')))
                if isinstance(o, bool):
                    self.count('law-judged')
                    if got != o:
                        self.violation(dict(clause='law:Ge=Le-swapped', kinds=[A[3], B[3]], cmp=xcmp(A[2], B[2])), dict(wit, Le_ba=o))
            if rel == 'Eq':
                o = atom(tab.get((j, i, 'Eq')))
                if isinstance(o, bool):
                    self.count('law-judged')
                    if got != o:
                        self.violation(dict(clause='law:Eq-symmetric', kinds=[A[3], B[3]]), dict(wit, Eq_ba=o))
                o = atom(tab.get((i, j, 'Ne')))
                if isinstance(o, bool):
                    self.count('law-judged')
                    if got == o:
                        self.violation(dict(clause='law:Ne=notEq', kinds=[A[3], B[3]]), dict(wit, Ne_ab=o))
        for cid, (rel, lv, rv, an, bn, c2, c1) in symmeta.items():
            r = res.get(cid)
            if r is None or r.status != 'ok':
                self.inconclusive += 1
                continue
            got = atom(r.s(0))
            self.evaluations += 1
            if got is None or got == 'unevaluated':
                self.count('symbolic-unevaluated')
                continue
            self.nontriv((cid, rel, an, bn, c2, c1))
            want = truth_of(rel, lv, rv)
            if got != want:
                self.violation(dict(clause='subs-order', rel=rel), dict(rel=rel, lhs='%s*x+%s' % (c2, c1), x=an, y=bn, got=got, expected=want))
