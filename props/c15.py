"""C15 - generated C code computes the expression's value.
Phase 1 (executor, ASan build): ccode / c89code / c99code (double and float precision) of generated expressions, together with the tree of the
expression the printer was given.  Phase 2: every emitted string becomes the body of a C function double f(double x, double y, double z); the
functions are compiled with gcc (-std=gnu89 for c89code, -std=gnu99 otherwise, -O0, -lm) in batches, a batch that does not compile is split until
the offending function is isolated; the binaries evaluate every function at three input vectors.  Phase 3: the results are compared with the
monitor's mpmath evaluation of the tree (tolerance from measured conditioning, as in C13; 1e-5 relative for float precision)."""
import os
import json
import struct
import subprocess
import tempfile
import shutil
from concurrent.futures import ThreadPoolExecutor
import mpmath
from mpmath import mp, mpf
from vlib import gen
from vlib.gen import I, FR, F, K, X, Y, Z
from vlib.core import Check, run_cases, check_process_reports, crash_key, render, BUILD
from . import c13, _value

NAMES = ['x', 'y', 'z']
PRINTERS = (('ccode', None), ('c89code', None), ('c99code', None), ('c99code', 'float'), ('c89code', 'float'))


def gen_expr(rng):
    r = rng.random()
    syms = [X, Y, Z]
    if r < 0.55:
        return c13.smooth(rng, syms, rng.choice((1, 2, 3)))
    if r < 0.7:
        nb = rng.choice((2, 3))
        return ('piecewise',) + tuple((c13.smooth(rng, syms, 1), (rng.choice(('Lt', 'Le', 'Gt', 'Ge', 'Eq', 'Ne')), c13.lin(rng, syms), rng.choice((F(rng.choice(c13.VALS)), c13.lin(rng, syms))))) for _ in range(nb - 1)) + ((c13.smooth(rng, syms, 1), K('true')),)
    if r < 0.8:
        return (rng.choice(('max', 'min')),) + tuple(c13.smooth(rng, syms, 1) for _ in range(rng.choice((2, 3))))
    if r < 0.9:
        return ('pow', ('add', ('pow', c13.smooth(rng, syms, 1), I(2)), I(1)), rng.choice((FR(c13.R(1, 2)), FR(c13.R(1, 3)), FR(c13.R(-1, 2)), FR(c13.R(3, 2)), FR(c13.R(-2, 3)), I(-1), I(2), I(3), F(2.5))))
    return ('mul', rng.choice((K('pi'), K('E'), K('EulerGamma'), K('Catalan'), K('GoldenRatio'), FR(c13.R(22, 7)), I(12345678901))), c13.smooth(rng, syms, 1))


import re


def reason_of(pr, code, tree_json):
    """classifies a failure by what the printed code contains (known-finding families are keyed on this)"""
    if re.search(r'\b(EulerGamma|Catalan|GoldenRatio)\b', code):
        return 'named-constant-not-c'
    if pr == 'c89code' and re.search(r'\b(log)?gammaf?\(', code):
        return 'c89-gamma-by-name'
    if re.search(r'(?<![\w.])(inf|nan)[fl]?(?![\w(])', code):
        return 'nonfinite-literal'
    if re.search(r'/\s*1(\.0)?[fl]?\s*/', code) or re.search(r'pow[fl]?\(1(\.0)?[fl]?/', code):
        return 'reciprocal-function-rewritten-without-parentheses'
    if '"Complex' in tree_json or re.search(r'(?<![\w.])I(?![\w(])', code):
        return 'complex-value (outside the fragment)'
    return 'other'


def c_source(funcs, std):
    out = ['#include <math.h>', '#include <stdio.h>', '#include <string.h>', '#include <stdint.h>']
    if std == 'gnu89':
        out.append('/* c89 */')
    for name, body in funcs:
        out.append('static double %s(double x, double y, double z) { return (double)(%s); }' % (name, body))
    out.append('static void pr(double v) { uint64_t u; memcpy(&u, &v, 8); printf(" %016llx", (unsigned long long)u); }')
    out.append('int main(int argc, char **argv) { double in[3][3]; int i; for (i = 0; i < 9; i++) { sscanf(argv[1 + i], "%lf", &in[i / 3][i % 3]); }')
    for name, _ in funcs:
        out.append('  printf("%s"); for (i = 0; i < 3; i++) pr(%s(in[i][0], in[i][1], in[i][2])); printf("\\n");' % (name, name))
    out.append('  return 0; }')
    return '\n'.join(out) + '\n'


def compile_run(workdir, tag, funcs, std, vecs):
    """-> (dict name -> [3 doubles], list of names that do not compile, list of (name, compiler message))"""
    if not funcs:
        return {}, []
    src = os.path.join(workdir, tag + '.c')
    exe = os.path.join(workdir, tag)
    with open(src, 'w') as f:
        f.write(c_source(funcs, std))
    p = subprocess.run(['gcc', '-std=' + std, '-O0', '-w', '-o', exe, src, '-lm'], capture_output=True, text=True)
    if p.returncode != 0:
        if len(funcs) == 1:
            return {}, [(funcs[0][0], p.stderr[-400:])]
        h = len(funcs) // 2
        a, ba = compile_run(workdir, tag + 'a', funcs[:h], std, vecs)
        b, bb = compile_run(workdir, tag + 'b', funcs[h:], std, vecs)
        a.update(b)
        return a, ba + bb
    args = [repr(v) for vec in vecs for v in vec]
    try:
        q = subprocess.run([exe] + args, capture_output=True, text=True, timeout=60)
    except subprocess.TimeoutExpired:
        return {}, [(n, 'binary timed out') for n, _ in funcs]
    out = {}
    for ln in q.stdout.splitlines():
        parts = ln.split()
        if len(parts) == 4:
            out[parts[0]] = [struct.unpack('<d', struct.pack('<Q', int(x, 16)))[0] for x in parts[1:]]
    return out, []


class C(Check):
    prop = 'C15'

    def run(self):
        rng = self.rng
        self.rule = ('expressions over arithmetic, integer / rational / float powers, 33 elementary functions, atan2, the five constants, big integer and rational '
                     'literals, Piecewise with relational conditions, max/min, printed by ccode, c89code, c99code (double) and c89code / c99code (float), compiled '
                     'by gcc as C89 / C99 and evaluated at 3 input vectors; value vs the monitor\'s mpmath evaluation of the printed expression\'s tree (1e-10 '
                     'relative + measured conditioning; 1e-5 for float precision); a printed expression that gcc rejects is a violation; non-trivial = '
                     'expression with a function call or a Piecewise')
        cases, meta = [], {}
        vecs = [[rng.choice(c13.VALS) for _ in range(3)] for _ in range(3)]
        for k in range(self.q(2000, 60000)):
            e = gen_expr(rng)
            pr, prec = rng.choice(PRINTERS)
            call = (pr, '$e') if prec is None else (pr, '$e', prec)
            st = [('let', 'e', e), ('emit', '$e'), ('emit', call)]
            cid = 'c%d' % k
            cases.append((cid, st))
            meta[cid] = (pr, prec, st)
        res, reps = run_cases('asan', cases, tag='c15', timeout=60)
        check_process_reports(self, reps)
        self.seen = set()
        groups = {}
        info = {}
        for cid, (pr, prec, st) in meta.items():
            r = res.get(cid)
            if r is None:
                self.inconclusive += 1
                continue
            self.note_asserts(r)
            prog = [render(s) for s in st]
            if r.status == 'crashed':
                at = len(r.stmts)
                if at >= 2:
                    self.viol(dict(crash_key(r), clause='crash', printer=pr), dict(program=prog, crash=r.crash, config='asan'))
                else:
                    self.count('crash-while-constructing-the-input (judged by C40)')
                continue
            se, sc = r.s(1), r.s(2)
            if r.status != 'ok' or se is None or se.st != 'ok':
                self.count('declined-construction')
                continue
            if sc is None or sc.st != 'ok':
                self.count('printer-declines:' + str(getattr(sc, 'ty', '')).split('::')[-1])
                continue
            std = 'gnu89' if pr == 'c89code' else 'gnu99'
            groups.setdefault(std, []).append((cid, sc.v))
            info[cid] = (pr, prec, prog, se.v['t'], se.v['s'], sc.v)
        work = tempfile.mkdtemp(prefix='c15_', dir=BUILD)
        try:
            jobs = []
            for std, fs in groups.items():
                for i in range(0, len(fs), 60):
                    jobs.append((std, 'u%s_%d' % (std, i), fs[i:i + 60]))
            with ThreadPoolExecutor(max_workers=16) as ex:
                outs = list(ex.map(lambda j: compile_run(work, j[1], j[2], j[0], vecs), jobs))
        finally:
            shutil.rmtree(work, ignore_errors=True)
        values, bad = {}, []
        for o, b in outs:
            values.update(o)
            bad += b
        for cid, msg in bad:
            pr, prec, prog, tree, es, code = info[cid]
            self.evaluations += 1
            why = reason_of(pr, code, json.dumps(tree))
            if why.startswith('complex'):
                self.count('outside-fragment:complex')
                continue
            self.viol(dict(clause='does-not-compile', printer=pr, reason=why), dict(program=prog, expr=es[:200], c_code=code[:400], compiler=msg, config='asan'))
        helper = c13.C('quick', 0)
        helper._names = NAMES
        for cid, got in values.items():
            pr, prec, prog, tree, es, code = info[cid]
            if '(' in es:
                self.nontriv(prog[0][:80])
            for vi, v in enumerate(vecs):
                ref = _value.bounded(lambda: helper.reference(tree, v), 10, None)
                if ref is None:
                    self.count('reference-undefined-or-unsupported')
                    continue
                val, slack = ref
                g = got[vi]
                self.evaluations += 1
                rel = mpf(10) ** (-5 if prec == 'float' else -10)
                if g != g or g in (float('inf'), float('-inf')):
                    if abs(val) < 1e30 if prec == 'float' else abs(val) < 1e300:
                        self.viol(dict(clause='value', kind='non-finite', printer=pr, precision=prec or 'double', reason=reason_of(pr, code, json.dumps(tree))), dict(program=prog, expr=es[:200], c_code=code[:400], inputs=v, compiled=repr(g), reference=mpmath.nstr(val, 17), config='asan'))
                    continue
                if abs(mpf(g) - val) > rel * max(1, abs(val)) + slack:
                    self.viol(dict(clause='value', kind='finite', printer=pr, precision=prec or 'double', reason=reason_of(pr, code, json.dumps(tree))), dict(program=prog, expr=es[:200], c_code=code[:400], inputs=v, compiled=repr(g), reference=mpmath.nstr(val, 17), config='asan'))
            if len(self.samples) < 4 and 'Piecewise' in es:
                self.sample(dict(expr=es[:120], c_code=code[:160], printer=pr, values=[repr(x) for x in got]))
        self.min_evals = 3000

    def viol(self, key, wit):
        ks = str(sorted(key.items(), key=str))
        if ks in self.seen:
            return
        self.seen.add(ks)
        self.violation(key, wit)
