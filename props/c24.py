"""C24 - dense matrix algebra over exact numbers.
Reference X: Gaussian-rational matrices in the monitor with a 40-line Gaussian elimination.  Determinants, inverses, RREF, characteristic
polynomials and structural operations are compared exactly; factorisations are judged by their defining relations; solvers by A*x == b.
Totality rule: a documented non-pivoting algorithm may decline visibly (exception or nan/zoo entries); a finite answer that violates the
defining relation is a violation; det, inv, rref and the pivoted variants must be right on every input."""
import itertools
from fractions import Fraction
from mpmath import mp, mpf, mpc
from vlib import gen, oracle_e
from vlib.gen import I, FR, CX
from vlib.core import Check, run_cases, run_one, check_process_reports, crash_key, render

R = Fraction


class G:
    """Gaussian rational"""
    __slots__ = ('a', 'b')

    def __init__(self, a=0, b=0):
        self.a, self.b = R(a), R(b)

    def __add__(self, o): return G(self.a + o.a, self.b + o.b)
    def __sub__(self, o): return G(self.a - o.a, self.b - o.b)
    def __neg__(self): return G(-self.a, -self.b)
    def __mul__(self, o): return G(self.a * o.a - self.b * o.b, self.a * o.b + self.b * o.a)

    def __truediv__(self, o):
        d = o.a * o.a + o.b * o.b
        return G((self.a * o.a + self.b * o.b) / d, (self.b * o.a - self.a * o.b) / d)

    def __eq__(self, o): return self.a == o.a and self.b == o.b
    def __hash__(self): return hash((self.a, self.b))
    def iszero(self): return self.a == 0 and self.b == 0
    def conj(self): return G(self.a, -self.b)
    def __repr__(self): return '%s%s' % (self.a, ('%+s*I' % self.b) if self.b else '')

    def recipe(self):
        return FR(self.a) if self.b == 0 else CX(self.a, self.b)


ZERO, ONE = G(0), G(1)


def mmul(A, B):
    return [[sum((A[i][k] * B[k][j] for k in range(len(B))), ZERO) for j in range(len(B[0]))] for i in range(len(A))]


def madd(A, B):
    return [[A[i][j] + B[i][j] for j in range(len(A[0]))] for i in range(len(A))]


def transpose(A):
    return [[A[i][j] for i in range(len(A))] for j in range(len(A[0]))] if A else []


def eye(n):
    return [[ONE if i == j else ZERO for j in range(n)] for i in range(n)]


def rref(A):
    A = [row[:] for row in A]
    piv = []
    r = 0
    for c in range(len(A[0]) if A else 0):
        p = next((i for i in range(r, len(A)) if not A[i][c].iszero()), None)
        if p is None:
            continue
        A[r], A[p] = A[p], A[r]
        inv = A[r][c]
        A[r] = [x / inv for x in A[r]]
        for i in range(len(A)):
            if i != r and not A[i][c].iszero():
                f = A[i][c]
                A[i] = [x - f * y for x, y in zip(A[i], A[r])]
        piv.append(c)
        r += 1
        if r == len(A):
            break
    return A, piv


def det(A):
    n = len(A)
    A = [row[:] for row in A]
    d = ONE
    for c in range(n):
        p = next((i for i in range(c, n) if not A[i][c].iszero()), None)
        if p is None:
            return ZERO
        if p != c:
            A[c], A[p] = A[p], A[c]
            d = -d
        d = d * A[c][c]
        for i in range(c + 1, n):
            f = A[i][c] / A[c][c]
            A[i] = [x - f * y for x, y in zip(A[i], A[c])]
    return d


def inverse(A):
    n = len(A)
    M = [A[i][:] + eye(n)[i] for i in range(n)]
    Rm, piv = rref(M)
    if piv[:n] != list(range(n)):
        return None
    return [row[n:] for row in Rm]


def charpoly(A):
    """coefficients of det(x*I - A), highest degree first (Faddeev-LeVerrier)"""
    n = len(A)
    c = [ONE]
    M = [[ZERO] * n for _ in range(n)]
    for k in range(1, n + 1):
        AM = mmul(A, M) if k > 1 else [[ZERO] * n for _ in range(n)]
        M = [[AM[i][j] + (c[-1] if i == j else ZERO) for j in range(n)] for i in range(n)]
        AMk = mmul(A, M)
        tr = sum((AMk[i][i] for i in range(n)), ZERO)
        c.append(-tr / G(k))
    return c


def decode(v):
    """dense JSON -> (rows, cols, matrix of G | None for non-exact entries, has_nonfinite)"""
    r, c = v['r'], v['c']
    out = []
    nonfinite = False
    exact = True
    for t in v['e']:
        if t is None:
            out.append(None)
            exact = False
            continue
        x = gen.exact_value(t)
        if x is None:
            if t[0] in ('NaN', 'Infty'):
                nonfinite = True
            exact = False
            out.append(None)
        else:
            out.append(G(x[1], x[2] if x[0] == 'c' else 0))
    M = [out[i * c:(i + 1) * c] for i in range(r)]
    return r, c, M, exact, nonfinite


def numeric(v):
    r, c = v['r'], v['c']
    vals = [oracle_e.evaluate(t, {}, 50) for t in v['e']]
    return [vals[i * c:(i + 1) * c] for i in range(r)]


def gnum(M):
    return [[mpc(mpf(x.a.numerator) / x.a.denominator, mpf(x.b.numerator) / x.b.denominator) for x in row] for row in M]


def nmul(A, B):
    return [[sum(A[i][k] * B[k][j] for k in range(len(B))) for j in range(len(B[0]))] for i in range(len(A))]


def nclose(A, B, tol=mpf(10) ** -35):
    with mp.workdps(50):
        return len(A) == len(B) and all(len(a) == len(b) and all(abs(x - y) <= tol * max(1, abs(x), abs(y)) for x, y in zip(a, b)) for a, b in zip(A, B))


def rand_entry(rng, kind):
    if kind == 'int':
        return G(rng.randint(-4, 4))
    if kind == 'rat':
        return G(R(rng.randint(-6, 6), rng.choice((1, 2, 3, 5))))
    return G(R(rng.randint(-3, 3), rng.choice((1, 2))), R(rng.randint(-2, 2), rng.choice((1, 3))))


def rand_matrix(rng, n, m, kind, family):
    A = [[rand_entry(rng, kind) for _ in range(m)] for _ in range(n)]
    if family == 'singular' and n >= 2:
        A[-1] = [x + y for x, y in zip(A[0], A[1 % n])] if n > 2 else [x * G(2) for x in A[0]]
    elif family == 'pivot' and n >= 2:
        A[0][0] = ZERO
        if n >= 3 and m >= 3:
            A[1][1] = A[1][0] * A[0][1] / (A[0][0] if not A[0][0].iszero() else ONE) if False else A[1][1]
    elif family == 'perm':
        p = list(range(n))
        rng.shuffle(p)
        A = [[(G(rng.choice((1, 2, -1))) if (j < n and p[i] == j) else ZERO) for j in range(m)] for i in range(n)]
    elif family == 'spd' and n == m:
        B = [[rand_entry(rng, 'int') for _ in range(n)] for _ in range(n)]
        A = madd(mmul(transpose(B), B), [[(G(1) if i == j else ZERO) for j in range(n)] for i in range(n)])
    elif family == 'sym' and n == m:
        A = [[A[min(i, j)][max(i, j)] for j in range(m)] for i in range(n)]
    elif family == 'tri':
        A = [[(A[i][j] if j >= i else ZERO) for j in range(m)] for i in range(n)]
    elif family == 'zerorow' and n >= 2:
        A[rng.randrange(n)] = [ZERO] * m
    return A


def mk(A):
    return ('dense', len(A), len(A[0]) if A else 0, tuple(x.recipe() for row in A for x in row))


SQ_OPS = ['d_det', 'd_det_bareis', 'd_det_berkowitz', 'd_inv', 'd_inv_gj', 'd_inv_plu', 'd_inv_lu', 'd_inv_fflu', 'd_LU', 'd_pivoted_LU', 'd_FFLDU', 'd_char_poly',
          'd_trace', 'd_mul_self', 'd_add_self']
MUST = {'d_inv', 'd_inv_gj', 'd_inv_plu', 'd_solve_plu', 'd_solve_ffgj'}     # pivoting: must succeed whenever A is non-singular
SOLVERS = ['d_solve_fflu', 'd_solve_ffgj', 'd_solve_ffgj_nopivot', 'd_solve_lu', 'd_solve_plu', 'd_solve_ffge', 'd_solve_method_lu', 'd_solve_ldl']


class C(Check):
    prop = 'C24'

    def run(self):
        rng = self.rng
        self.rule = ('matrices 1x1..6x6 (and rectangular up to 5x7) with small integer, rational and Gaussian-rational entries in families: random full rank, '
                     'singular with a dependent row, zero leading entry (pivot-requiring), permutation-like, symmetric, symmetric positive definite, '
                     'triangular, zero row; operations: 3 determinants, 5 inverses, 8 solvers (A*x == b), LU / pivoted LU / fraction-free LDU / LDL / Cholesky / QR '
                     '(defining relations), RREF with both normalize_last settings, char_poly (Faddeev-LeVerrier), transpose, products, sums, scalar ops, '
                     'submatrix, row/col insert/delete/join/exchange, self-aliasing mul/add; compared with exact Gaussian-rational linear algebra; '
                     'non-trivial = size >= 3 and not diagonal')
        cases = []
        meta = {}
        for k in range(self.q(2500, 80000)):
            kind = rng.choice(('int', 'int', 'rat', 'gauss'))
            fam = rng.choice(('random', 'random', 'singular', 'pivot', 'perm', 'sym', 'spd', 'tri', 'zerorow'))
            n = rng.choice((1, 2, 2, 3, 3, 4, 5, 6)) if kind != 'gauss' else rng.choice((1, 2, 3, 3, 4))
            A = rand_matrix(rng, n, n, kind, fam)
            bc = rng.choice((1, 1, 2))
            b = [[rand_entry(rng, 'int') for _ in range(bc)] for _ in range(n)]
            stmts = [('let', 'A', mk(A)), ('let', 'b', mk(b))]
            ops = SQ_OPS + SOLVERS + ['d_rref0', 'd_rref1', 'd_transpose']
            if fam in ('sym', 'spd'):
                ops += ['d_LDL']
            if fam == 'spd' and kind != 'gauss':
                ops += ['d_cholesky']
            if kind == 'int' and n <= 4 and fam in ('random', 'spd', 'tri'):
                ops += ['d_QR']
            for op in ops:
                if op in SOLVERS:
                    stmts.append(('emit', (op, '$A', '$b')))
                elif op == 'd_rref0':
                    stmts.append(('emit', ('d_rref', '$A', False)))
                elif op == 'd_rref1':
                    stmts.append(('emit', ('d_rref', '$A', True)))
                else:
                    stmts.append(('emit', (op, '$A')))
            cid = 's%d' % k
            cases.append((cid, stmts))
            meta[cid] = ('square', A, b, ops, stmts, fam, kind)
        for k in range(self.q(1200, 40000)):
            kind = rng.choice(('int', 'rat', 'gauss'))
            n, m, p = rng.randint(1, 5), rng.randint(1, 7), rng.randint(1, 4)
            A = rand_matrix(rng, n, m, kind, rng.choice(('random', 'zerorow', 'tri')))
            B = rand_matrix(rng, m, p, kind, 'random')
            C2 = rand_matrix(rng, n, m, kind, 'random')
            s = rand_entry(rng, kind)
            r0, c0 = rng.randrange(n), rng.randrange(m)
            r1, c1 = rng.randrange(r0, n), rng.randrange(c0, m)
            rowB = rand_matrix(rng, rng.randint(1, 2), m, kind, 'random')
            colB = rand_matrix(rng, n, rng.randint(1, 2), kind, 'random')
            pos_r, pos_c = rng.randint(0, n), rng.randint(0, m)
            i1, i2 = rng.randrange(n), rng.randrange(n)
            j1, j2 = rng.randrange(m), rng.randrange(m)
            spec = [('d_mul', ('d_mul', '$A', '$B'), mmul(A, B)), ('d_add', ('d_add', '$A', '$C'), madd(A, C2)), ('d_transpose', ('d_transpose', '$A'), transpose(A)),
                    ('d_conjugate_transpose', ('d_conjugate_transpose', '$A'), [[x.conj() for x in row] for row in transpose(A)]),
                    ('d_mul_scalar', ('d_mul_scalar', '$A', s.recipe()), [[x * s for x in row] for row in A]),
                    ('d_add_scalar', ('d_add_scalar', '$A', s.recipe()), [[x + s for x in row] for row in A]),
                    ('d_elementwise_mul', ('d_elementwise_mul', '$A', '$C'), [[x * y for x, y in zip(ra, rc)] for ra, rc in zip(A, C2)]),
                    ('d_submatrix', ('d_submatrix', '$A', r0, c0, r1, c1), [row[c0:c1 + 1] for row in A[r0:r1 + 1]]),
                    ('d_row_insert', ('d_row_insert', '$A', mk(rowB), pos_r), A[:pos_r] + rowB + A[pos_r:]),
                    ('d_col_insert', ('d_col_insert', '$A', mk(colB), pos_c), [ra[:pos_c] + rb + ra[pos_c:] for ra, rb in zip(A, colB)]),
                    ('d_row_join', ('d_row_join', '$A', mk(colB)), [ra + rb for ra, rb in zip(A, colB)]),
                    ('d_col_join', ('d_col_join', '$A', mk(rowB)), A + rowB),
                    ('d_row_join_self', ('d_row_join_self', '$A'), [ra + ra for ra in A]),
                    ('d_col_join_self', ('d_col_join_self', '$A'), A + A),
                    ('d_row_exchange', ('d_row_exchange', '$A', i1, i2), _swap_rows(A, i1, i2)),
                    ('d_column_exchange', ('d_column_exchange', '$A', j1, j2), [_swap(row, j1, j2) for row in A]),
                    ('d_rref0', ('d_rref', '$A', False), None), ('d_rref1', ('d_rref', '$A', True), None),
                    ('d_dumps_loads', ('d_dumps_loads', '$A'), A)]
            # the result object is one of the operands
            SqL, SqR = rand_matrix(rng, n, n, kind, 'random'), rand_matrix(rng, m, m, kind, 'random')
            spec += [('d_mul_into_right', ('d_mul_into_right', mk(SqL), '$A'), mmul(SqL, A)),
                     ('d_mul_dense_into_right', ('d_mul_dense_into_right', mk(SqL), '$A'), mmul(SqL, A)),
                     ('d_mul_into_left', ('d_mul_into_left', '$A', mk(SqR)), mmul(A, SqR)),
                     ('d_add_into_right', ('d_add_into_right', '$A', '$C'), madd(A, C2)), ('d_add_into_left', ('d_add_into_left', '$A', '$C'), madd(A, C2)),
                     ('d_elementwise_mul_into_right', ('d_elementwise_mul_into_right', '$A', '$C'), [[x * y for x, y in zip(ra, rc)] for ra, rc in zip(A, C2)]),
                     ('d_elementwise_mul_into_left', ('d_elementwise_mul_into_left', '$A', '$C'), [[x * y for x, y in zip(ra, rc)] for ra, rc in zip(A, C2)]),
                     ('d_mul_scalar_self', ('d_mul_scalar_self', '$A', s.recipe()), [[x * s for x in row] for row in A]),
                     ('d_add_scalar_self', ('d_add_scalar_self', '$A', s.recipe()), [[x + s for x in row] for row in A])]
            if n >= 2:
                dr = rng.randrange(n)
                spec.append(('d_row_del', ('d_row_del', '$A', dr), A[:dr] + A[dr + 1:]))
            if m >= 2:
                dc = rng.randrange(m)
                spec.append(('d_col_del', ('d_col_del', '$A', dc), [row[:dc] + row[dc + 1:] for row in A]))
            stmts = [('let', 'A', mk(A)), ('let', 'B', mk(B)), ('let', 'C', mk(C2))] + [('emit', ex) for _, ex, _ in spec]
            cid = 'r%d' % k
            cases.append((cid, stmts))
            meta[cid] = ('rect', A, spec, None, stmts, 'rect', kind)
        # assertions are recorded but do not throw: the property is about the values a release build returns (H1 'continue' mode)
        res, reps = run_cases('asan', cases, tag='c24', timeout=60, env_extra={'SYMENGINE_VERIF_ASSERT': 'continue'})
        check_process_reports(self, reps)
        self.seen = set()
        for cid, m in meta.items():
            r = res.get(cid)
            if r is None:
                self.inconclusive += 1
                continue
            self.note_asserts(r)
            prog = [render(s) for s in m[4]]
            if r.status == 'crashed':
                # attribute the crash to the statement that was running
                idx = len(r.stmts)
                op = render(m[4][idx])[:40] if idx < len(m[4]) else '?'
                self.report(dict(crash_key(r), op=op.split(' ')[1] if ' ' in op else op), dict(program=prog[:3] + [render(m[4][idx])] if idx < len(m[4]) else prog, crash=r.crash, config='asan'))
                continue
            if r.status != 'ok':
                self.inconclusive += 1
                continue
            if m[0] == 'square':
                self.judge_square(r, m, prog)
            else:
                self.judge_rect(r, m, prog)
        self.min_evals = 10000

    def report(self, key, wit):
        ks = str(sorted((k, str(v)) for k, v in key.items()))
        if ks in self.seen:
            return
        self.seen.add(ks)
        self.violation(key, wit)

    # ---------------------------------------------------------------------------------------------------------
    def judge_rect(self, r, m, prog):
        _, A, spec, _, stmts, fam, kind = m
        if len(A) >= 3 and len(A[0]) >= 3:
            self.nontriv(prog[0])
        for j, (name, ex, want) in enumerate(spec):
            st = r.s(3 + j)
            if st is None:
                continue
            self.evaluations += 1
            self.count('op:' + name)
            if st.st == 'exc':
                self.report(dict(clause='raised', op=name, ty=str(st.ty)), dict(program=prog[:3] + [render(('emit', ex))], msg=st.msg, config='asan'))
                continue
            if st.st != 'ok':
                self.inconclusive += 1
                continue
            if name.startswith('d_rref'):
                self.check_rref(st.v, A, name, prog[:1] + [render(('emit', ex))], kind)
                continue
            rr, cc, M, exact, nonfin = decode(st.v)
            if not exact or M != want or rr != len(want) or cc != (len(want[0]) if want else cc):
                self.report(dict(clause='value', op=name, kind=kind), dict(program=prog[:3] + [render(('emit', ex))], got=str(M)[:300], expected=str(want)[:300], config='asan'))

    def check_rref(self, v, A, name, prog, kind):
        rr, cc, M, exact, nonfin = decode(v[0])
        want, piv = rref(A)
        if not exact or M != want or list(v[1]) != piv:
            self.report(dict(clause='value', op=name, kind=kind, pivots_ok=list(v[1]) == piv),
                        dict(program=prog, got=str(M)[:300], got_pivots=v[1], expected=str(want)[:300], expected_pivots=piv, config='asan'))

    def judge_square(self, r, m, prog):
        _, A, b, ops, stmts, fam, kind = m
        n = len(A)
        if n >= 3 and fam not in ('perm',):
            self.nontriv(prog[0])
        d = det(A)
        singular = d.iszero()
        inv = None if singular else inverse(A)
        for j, op in enumerate(ops):
            st = r.s(2 + j)
            if st is None:
                continue
            self.evaluations += 1
            self.count('op:' + op)
            p2 = prog[:2] + [render(stmts[2 + j])]

            def bad(clause, **kw):
                self.report(dict(clause=clause, op=op, family=fam, kind=kind, singular=singular), dict(program=p2, config='asan', **kw))
            if st.st == 'exc':
                self.count('declined:' + op)
                if op in ('d_det', 'd_det_bareis', 'd_det_berkowitz', 'd_transpose', 'd_trace', 'd_char_poly', 'd_rref0', 'd_rref1', 'd_mul_self', 'd_add_self'):
                    bad('raised', ty=str(st.ty), msg=st.msg)
                elif op in MUST and not singular:
                    bad('raised-on-nonsingular', ty=str(st.ty), msg=st.msg)
                continue
            if st.st != 'ok':
                self.inconclusive += 1
                continue
            v = st.v
            if op in ('d_det', 'd_det_bareis', 'd_det_berkowitz', 'd_trace'):
                x = gen.exact_value(v['t'])
                want = d if op != 'd_trace' else sum((A[i][i] for i in range(n)), ZERO)
                if x is None or G(x[1], x[2] if x[0] == 'c' else 0) != want:
                    bad('value', got=v['s'], expected=repr(want))
            elif op.startswith('d_inv'):
                rr, cc, M, exact, nonfin = decode(v)
                if singular:
                    if exact:
                        bad('finite-inverse-of-singular', got=str(M)[:300])
                    continue
                if not exact:
                    self.count('declined-nonfinite:' + op)
                    if op in MUST:
                        bad('non-finite-on-nonsingular', got=str([e for e in v['e']])[:300])
                    continue
                if M != inv:
                    bad('value', got=str(M)[:300], expected=str(inv)[:300])
            elif op in SOLVERS:
                rr, cc, X, exact, nonfin = decode(v)
                if singular:
                    if exact and mmul(A, X) != b:
                        bad('finite-wrong-solution-singular', got=str(X)[:200])
                    continue
                if op == 'd_solve_ldl' and fam not in ('sym', 'spd'):
                    continue
                if not exact:
                    self.count('declined-nonfinite:' + op)
                    if op in MUST:
                        bad('non-finite-on-nonsingular', got=str(v['e'])[:300])
                    continue
                if mmul(A, X) != b:
                    bad('A*x != b', got=str(X)[:200])
            elif op == 'd_LU':
                L, U = decode(v[0]), decode(v[1])
                if not (L[3] and U[3]):
                    self.count('declined-nonfinite:' + op)
                    continue
                if mmul(L[2], U[2]) != A or not _unit_lower(L[2]) or not _upper(U[2]):
                    bad('L*U != A or shape', L=str(L[2])[:200], U=str(U[2])[:200])
            elif op == 'd_pivoted_LU':
                L, U = decode(v[0]), decode(v[1])
                if not (L[3] and U[3]):
                    if not singular:
                        bad('non-finite-on-nonsingular')
                    continue
                PA = [row[:] for row in A]
                for (i1, i2) in v[2]:
                    PA[i1], PA[i2] = PA[i2], PA[i1]
                if mmul(L[2], U[2]) != PA or not _unit_lower(L[2]) or not _upper(U[2]):
                    bad('L*U != P*A or shape', L=str(L[2])[:200], U=str(U[2])[:200], perm=v[2])
            elif op == 'd_FFLDU':
                L, D, U = decode(v[0]), decode(v[1]), decode(v[2])
                if not (L[3] and D[3] and U[3]):
                    self.count('declined-nonfinite:' + op)
                    continue
                Dm = D[2]
                if any(Dm[i][i].iszero() for i in range(n)):
                    self.count('declined-zero-diagonal:' + op)
                    continue
                Dinv = [[(ONE / Dm[i][i] if i == j else ZERO) for j in range(n)] for i in range(n)]
                if mmul(mmul(L[2], Dinv), U[2]) != A:
                    bad('L*D^-1*U != A', L=str(L[2])[:150], D=str(Dm)[:150], U=str(U[2])[:150])
            elif op == 'd_LDL':
                L, D = decode(v[0]), decode(v[1])
                if not (L[3] and D[3]):
                    self.count('declined-nonfinite:' + op)
                    continue
                if mmul(mmul(L[2], D[2]), transpose(L[2])) != A:
                    bad('L*D*L^T != A', L=str(L[2])[:200], D=str(D[2])[:200])
            elif op in ('d_cholesky', 'd_QR'):
                parts = [v] if op == 'd_cholesky' else [v[0], v[1]]
                if any(decode(p_)[4] for p_ in parts):
                    self.count('declined-nonfinite:' + op)      # e.g. Gram-Schmidt on dependent columns: visible failure
                    continue
                try:
                    with mp.workdps(50):
                        if op == 'd_cholesky':
                            Ln = numeric(v)
                            ok = nclose(nmul(Ln, [list(x) for x in zip(*Ln)]), gnum(A))
                        else:
                            Q, Rn = numeric(v[0]), numeric(v[1])
                            QtQ = nmul([list(x) for x in zip(*Q)], Q)
                            ok = nclose(nmul(Q, Rn), gnum(A)) and nclose(QtQ, gnum(eye(n))) and all(abs(Rn[i][j]) < mpf(10) ** -35 for i in range(n) for j in range(i))
                    if not ok:
                        bad('defining relation fails numerically')
                except Exception:
                    self.count('declined-numeric:' + op)
            elif op in ('d_rref0', 'd_rref1'):
                self.check_rref(v, A, op, p2, kind)
            elif op == 'd_char_poly':
                rr, cc, M, exact, nonfin = decode(v)
                want = charpoly(A)
                got = [row[0] for row in M] if exact else None
                if got != want:
                    bad('value', got=str(got)[:200], expected=str(want)[:200])
            elif op == 'd_transpose':
                rr, cc, M, exact, nonfin = decode(v)
                if M != transpose(A):
                    bad('value')
            elif op == 'd_mul_self':
                rr, cc, M, exact, nonfin = decode(v)
                if M != mmul(A, A):
                    bad('self-aliased product differs from A*A', got=str(M)[:200], expected=str(mmul(A, A))[:200])
            elif op == 'd_add_self':
                rr, cc, M, exact, nonfin = decode(v)
                if M != madd(A, A):
                    bad('self-aliased sum differs from A+A')
        if len(self.samples) < 4 and n >= 3 and not singular:
            self.sample(dict(A=str(A)[:200], det=repr(d), family=fam))


def _swap(row, i, j):
    row = row[:]
    row[i], row[j] = row[j], row[i]
    return row


def _swap_rows(A, i, j):
    A = [r[:] for r in A]
    A[i], A[j] = A[j], A[i]
    return A


def _unit_lower(L):
    n = len(L)
    return all(L[i][i] == ONE for i in range(n)) and all(L[i][j].iszero() for i in range(n) for j in range(i + 1, n))


def _upper(U):
    n = len(U)
    return all(U[i][j].iszero() for i in range(n) for j in range(i))
