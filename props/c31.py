"""C31 - series expansion coefficients equal Taylor coefficients.
Reference A (exact): truncated power-series arithmetic over Fractions in the monitor; every function is applied by *composition* of its
Maclaurin coefficients (closed forms) with an inner series of zero constant term - nothing in common with the library's Newton / ODE recurrences.
Reference B (numeric): for expansions around a non-zero inner constant (sin(1+x), log(2+x), ...) the coefficients are compared with
mpmath.taylor of the independently evaluated expression at 60 digits.
Consistency: get_coeff(i), as_dict() and as_basic() of the same series object must agree."""
from fractions import Fraction
from math import factorial, comb
from vlib import gen, oracle_e
from vlib.gen import I, FR, K, X
from vlib.core import Check, run_cases, run_one, check_process_reports, crash_key, render
from . import _value

R = Fraction


# ------------------------------------------------------------------ exact truncated power series
def s_add(a, b):
    return [x + y for x, y in zip(a, b)]


def s_scale(a, c):
    return [x * c for x in a]


def s_mul(a, b):
    n = len(a)
    out = [R(0)] * n
    for i, x in enumerate(a):
        if x:
            for j in range(n - i):
                if b[j]:
                    out[i + j] += x * b[j]
    return out


def s_const(c, n):
    return [R(c)] + [R(0)] * (n - 1)


def s_inv(a):
    n = len(a)
    if a[0] == 0:
        raise ZeroDivisionError
    out = [R(0)] * n
    out[0] = 1 / a[0]
    for k in range(1, n):
        out[k] = -sum(a[j] * out[k - j] for j in range(1, k + 1)) / a[0]
    return out


def s_compose(coef, u):
    """sum coef(k) * u**k with u[0] == 0"""
    n = len(u)
    assert u[0] == 0
    out = [R(0)] * n
    p = s_const(1, n)
    for k in range(n):
        c = coef(k)
        if c:
            out = s_add(out, s_scale(p, c))
        p = s_mul(p, u)
    return out


def binom_gen(a, k):
    r = R(1)
    for i in range(k):
        r = r * (a - i) / (i + 1)
    return r


def _tan_coefs(n, hyper):
    t = [R(0)] * n
    t[1:2] = [R(1)] if n > 1 else []
    sn = s_compose(lambda k: (R(1 if hyper else (-1) ** ((k - 1) // 2), factorial(k)) if k % 2 == 1 else R(0)), t)
    cs = s_compose(lambda k: (R(1 if hyper else (-1) ** (k // 2), factorial(k)) if k % 2 == 0 else R(0)), t)
    return s_mul(sn, s_inv(cs))


MAC = {
    'sin': lambda k: R((-1) ** ((k - 1) // 2), factorial(k)) if k % 2 == 1 else R(0),
    'cos': lambda k: R((-1) ** (k // 2), factorial(k)) if k % 2 == 0 else R(0),
    'exp': lambda k: R(1, factorial(k)),
    'sinh': lambda k: R(1, factorial(k)) if k % 2 == 1 else R(0),
    'cosh': lambda k: R(1, factorial(k)) if k % 2 == 0 else R(0),
    'atan': lambda k: R((-1) ** ((k - 1) // 2), k) if k % 2 == 1 else R(0),
    'atanh': lambda k: R(1, k) if k % 2 == 1 else R(0),
    'asin': lambda k: R(comb(k - 1, (k - 1) // 2), 4 ** ((k - 1) // 2) * k) if k % 2 == 1 else R(0),
    'asinh': lambda k: R((-1) ** ((k - 1) // 2) * comb(k - 1, (k - 1) // 2), 4 ** ((k - 1) // 2) * k) if k % 2 == 1 else R(0),
    'log1p': lambda k: R((-1) ** (k + 1), k) if k >= 1 else R(0),
    'lambertw': lambda k: R((-k) ** (k - 1), factorial(k)) if k >= 1 else R(0),
}
ZERO_AT_ZERO = ('sin', 'sinh', 'atan', 'atanh', 'asin', 'asinh', 'lambertw', 'tan', 'tanh')


class NotExact(Exception):
    pass


def iroot(c, q):
    """exact q-th root of a positive rational or None"""
    def ir(m):
        r = round(m ** (1.0 / q))
        for t in (r - 1, r, r + 1):
            if t >= 0 and t ** q == m:
                return t
        return None
    a, b = ir(c.numerator), ir(c.denominator)
    return None if a is None or b is None else R(a, b)


def ser(r, n):
    """exact series of recipe r to n terms"""
    h = r[0]
    if h == 'sym':
        return ([R(0), R(1)] + [R(0)] * n)[:n]
    if h == 'int':
        return s_const(int(r[1]), n)
    if h == 'rat':
        return s_const(R(int(r[1]), int(r[2])), n)
    if h == 'add':
        out = s_const(0, n)
        for a in r[1:]:
            out = s_add(out, ser(a, n))
        return out
    if h == 'sub':
        return s_add(ser(r[1], n), s_scale(ser(r[2], n), -1))
    if h == 'neg':
        return s_scale(ser(r[1], n), -1)
    if h == 'mul':
        out = s_const(1, n)
        for a in r[1:]:
            out = s_mul(out, ser(a, n))
        return out
    if h == 'div':
        return s_mul(ser(r[1], n), s_inv(ser(r[2], n)))
    if h == 'pow':
        base = ser(r[1], n)
        e = r[2]
        if e[0] == 'int':
            k = int(e[1])
            if k < 0:
                base, k = s_inv(base), -k
            out = s_const(1, n)
            for _ in range(k):
                out = s_mul(out, base)
            return out
        if e[0] == 'rat':
            a = R(int(e[1]), int(e[2]))
            c0 = base[0]
            if c0 <= 0:
                raise NotExact('non-positive constant term')
            root = iroot(c0, a.denominator)
            if root is None:
                raise NotExact('irrational constant')
            v = s_scale(base, 1 / c0)
            v[0] = R(0)
            lead = root ** a.numerator if a.numerator >= 0 else 1 / root ** (-a.numerator)
            return s_scale(s_compose(lambda k: binom_gen(a, k), v), lead)
        raise NotExact('exponent')
    if h == 'log':
        u = ser(r[1], n)
        if u[0] != 1:
            raise NotExact('log of constant term != 1')
        u = list(u)
        u[0] = R(0)
        return s_compose(MAC['log1p'], u)
    if h in MAC or h in ('tan', 'tanh'):
        u = ser(r[1], n)
        if u[0] != 0:
            raise NotExact('inner constant term')
        if h in ('tan', 'tanh'):
            tc = _tan_coefs(n, h == 'tanh')
            return s_compose(lambda k: tc[k], u)
        return s_compose(MAC[h], u)
    raise NotExact(h)


# ------------------------------------------------------------------ generators
def coef(rng):
    return rng.choice((I(1), I(2), I(-1), I(3), FR(R(1, 2)), FR(R(-2, 3)), I(-2), FR(R(3, 4))))


def gen_z(rng, d):
    """expression with zero constant term"""
    if d <= 0 or rng.random() < 0.2:
        return rng.choice((X, ('mul', coef(rng), X), ('pow', X, I(rng.choice((2, 3)))), ('add', X, ('pow', X, I(2)))))
    r = rng.random()
    if r < 0.45:
        return (rng.choice(ZERO_AT_ZERO), gen_z(rng, d - 1))
    if r < 0.55:
        return ('log', ('add', I(1), gen_z(rng, d - 1)))
    if r < 0.7:
        return ('mul', gen_z(rng, d - 1), gen_any(rng, d - 1))
    if r < 0.85:
        return ('add', gen_z(rng, d - 1), gen_z(rng, d - 1))
    if r < 0.93:
        return ('sub', (rng.choice(('exp', 'cos', 'cosh')), gen_z(rng, d - 1)), I(1))
    return ('div', gen_z(rng, d - 1), ('add', coef(rng), gen_z(rng, d - 1)))


def gen_any(rng, d):
    if d <= 0 or rng.random() < 0.15:
        return rng.choice((('add', coef(rng), X), coef(rng), X, ('sub', I(1), X)))
    r = rng.random()
    if r < 0.3:
        return (rng.choice(('exp', 'cos', 'cosh')), gen_z(rng, d - 1))
    if r < 0.45:
        return ('add', coef(rng), gen_z(rng, d - 1))
    if r < 0.6:
        return ('div', gen_any(rng, d - 1), ('add', rng.choice((I(1), I(2), I(-1), FR(R(1, 2)))), gen_z(rng, d - 1)))
    if r < 0.72:
        c0, a = rng.choice(((1, R(1, 2)), (1, R(-1, 2)), (1, R(3, 2)), (4, R(1, 2)), (R(1, 4), R(-1, 2)), (1, R(1, 3)), (8, R(1, 3)), (1, R(-2, 3)), (9, R(3, 2))))
        return ('pow', ('add', FR(R(c0)), gen_z(rng, d - 1)), FR(a))
    if r < 0.84:
        return ('mul', gen_any(rng, d - 1), gen_any(rng, d - 1))
    if r < 0.92:
        return ('pow', gen_any(rng, d - 1), I(rng.choice((2, 3, -1, -2))))
    return gen_z(rng, d - 1)


def gen_shifted(rng):
    """expansion around a non-zero inner constant: judged numerically"""
    c = rng.choice((I(1), FR(R(1, 2)), I(2), FR(R(-1, 3)), FR(R(1, 4))))
    inner = ('add', c, rng.choice((X, ('mul', I(2), X), ('sin', X), ('add', X, ('pow', X, I(2))))))
    f = rng.choice(('sin', 'cos', 'exp', 'tan', 'atan', 'sinh', 'cosh', 'tanh', 'asinh', 'log', 'sqrt', 'asin', 'atanh'))
    if f in ('asin', 'atanh') and c in (I(1), I(2)):
        f = 'atan'
    if f == 'log' and c == FR(R(-1, 3)):
        f = 'exp'
    if f == 'sqrt':
        e = ('pow', inner if c != FR(R(-1, 3)) else ('add', I(2), X), FR(R(1, 2)))
    else:
        e = (f, inner)
    k = rng.random()
    if k < 0.3:
        e = ('mul', e, rng.choice((('exp', X), ('cos', X), ('add', I(1), X))))
    elif k < 0.4:
        e = ('div', e, ('sub', I(2), X))
    return e


def _num(t):
    if t[0] == 'Integer':
        return R(int(t[1]))
    if t[0] == 'Rational':
        return R(int(t[1]), int(t[2]))
    return None


class C(Check):
    prop = 'C31'

    def run(self):
        rng = self.rng
        self.rule = ('compositions (depth <= 3) of sin cos tan exp log(1+.) atan asin sinh cosh tanh asinh atanh lambertw, rational powers (1+z)^(p/q) and '
                     '(c+z)^(p/q) with c a perfect power, quotients by series with non-zero constant term, products, sums and integer powers with rational '
                     'coefficients, expanded to n in {1..14} terms: every coefficient compared exactly with the monitor\'s own truncated power-series '
                     'arithmetic over Fractions (functions applied by composition of closed-form Maclaurin coefficients); expansions around a non-zero inner '
                     'constant (sin(1+x), log(2+x), ...) compared numerically with mpmath.taylor at 60 digits; get_coeff / as_dict / as_basic of the same '
                     'series compared with each other; non-trivial = composition of at least two functions')
        cases, meta = [], {}
        for k in range(self.q(2500, 80000)):
            e = gen_any(rng, rng.choice((1, 2, 2, 3))) if rng.random() < 0.6 else gen_z(rng, rng.choice((1, 2, 3)))
            n = rng.choice((1, 2, 3, 4, 5, 6, 8, 10, 12, 14)) if self.tier == 'thorough' else rng.choice((1, 2, 3, 4, 5, 6, 8, 10))
            try:
                ref = ser(e, n)
            except NotExact:
                self.count('generator-not-exact')
                continue
            except ZeroDivisionError:
                self.count('generator-pole')
                continue
            stmts = [('emit', ('series_coeffs', e, X, n)), ('emit', ('useries_coeffs', e, X, n)), ('emit', ('series_as_basic', e, X, n))]
            cid = 'a%d' % k
            cases.append((cid, stmts))
            meta[cid] = ('exact', e, n, ref, stmts)
        for k in range(self.q(500, 12000)):
            e = gen_shifted(rng)
            n = rng.choice((2, 3, 4, 5, 6))
            stmts = [('emit', ('series_coeffs', e, X, n))]
            cid = 'b%d' % k
            cases.append((cid, stmts))
            meta[cid] = ('numeric', e, n, None, stmts)
        res, reps = run_cases('asan', cases, tag='c31', timeout=120)
        check_process_reports(self, reps)
        self.seen = set()
        numeric = []
        for cid, (mode, e, n, ref, stmts) in meta.items():
            r = res.get(cid)
            if r is None:
                self.inconclusive += 1
                continue
            self.note_asserts(r)
            prog = [render(s) for s in stmts]
            if r.status == 'crashed':
                self.viol(dict(crash_key(r), clause='crash'), dict(program=prog, crash=r.crash, config='asan'))
                continue
            if r.status == 'timeout':
                self.viol(dict(clause='hang', fn=_outer(e)), dict(program=prog, config='asan'))
                continue
            st = r.s(0)
            if r.status != 'ok' or st is None:
                self.inconclusive += 1
                continue
            if st.st != 'ok':
                self.count('declined:' + str(getattr(st, 'ty', '')).split('::')[-1])
                continue
            got = [x['t'] for x in st.v['e']]
            if mode == 'numeric':
                numeric.append((cid, e, n, got, prog))
                continue
            self.evaluations += 1
            if _depth_funcs(e) >= 2:
                self.nontriv(prog[0])
            vals = [_num(t) for t in got]
            bad = None
            for i, (g, w) in enumerate(zip(vals, ref)):
                if g is None:
                    # unsimplified exact constant (e.g. a root of a perfect power): compare by value
                    try:
                        gv = oracle_e.evaluate(got[i], {}, dps=40)
                        if abs(gv - (oracle_e.mpf(w.numerator) / w.denominator)) > oracle_e.mpf(10) ** -30:
                            bad = (i, st.v['e'][i]['s'], w)
                            break
                    except Exception:
                        self.count('coefficient-not-evaluable')
                    continue
                if g != w:
                    bad = (i, str(g), w)
                    break
            if bad:
                self.viol(dict(clause='coefficient', outer=_outer(e), funcs=','.join(sorted(_funcs(e)))),
                          dict(program=prog[:1], order=bad[0], library=bad[1], taylor=str(bad[2]), terms=n, config='asan'))
            elif len(self.samples) < 4 and _depth_funcs(e) >= 2 and n >= 6:
                self.sample(dict(expr=prog[0][:200], terms=n, coefficients=[str(v) for v in ref][:8]))
            # the three views of the same series object
            s1 = r.s(1)
            if s1 is not None and s1.st == 'ok':
                d = [_num(x['t']) for x in s1.v['e']]
                if all(v is not None for v in vals) and all(v is not None for v in d) and d != vals:
                    self.viol(dict(clause='as_dict-vs-get_coeff'), dict(program=prog[:2], get_coeff=[str(v) for v in vals], as_dict=[str(v) for v in d], config='asan'))
        self.judge_numeric(numeric)
        self.min_evals = 1500

    def viol(self, key, wit):
        ks = str(sorted(key.items(), key=str))
        if ks in self.seen:
            return
        self.seen.add(ks)
        self.violation(key, wit)

    def judge_numeric(self, items):
        import mpmath
        from mpmath import mp
        for cid, e, n, got, prog in items:
            def work():
                with mp.workdps(60):
                    f = lambda t: oracle_e.Evaluator({'x': t}).ev(e)
                    ref = mpmath.taylor(f, 0, n - 1)
                    out = []
                    for i in range(n):
                        gv = oracle_e.Evaluator({}).ev(got[i])
                        out.append((gv, ref[i]))
                    return out
            try:
                pairs = _value.bounded(work, 20, None)
            except Exception as ex:
                self.count('numeric-oracle-error:' + type(ex).__name__)
                self.inconclusive += 1
                continue
            if pairs is None:
                self.inconclusive += 1
                continue
            self.evaluations += 1
            self.nontriv(prog[0])
            with mp.workdps(60):
                for i, (gv, rv) in enumerate(pairs):
                    scale = max(abs(rv), mpmath.mpf(1))
                    if abs(gv - rv) > scale * mpmath.mpf(10) ** -12:
                        self.viol(dict(clause='coefficient-numeric', outer=_outer(e)),
                                  dict(program=prog, order=i, library=mpmath.nstr(gv, 20), taylor=mpmath.nstr(rv, 20), terms=n, config='asan'))
                        break


def _funcs(e):
    out = set()
    if isinstance(e, tuple):
        if e[0] in MAC or e[0] in ('tan', 'tanh', 'log'):
            out.add(e[0])
        if e[0] == 'pow' and isinstance(e[2], tuple) and e[2][0] == 'rat':
            out.add('rpow')
        for a in e[1:]:
            out |= _funcs(a)
    return out


def _depth_funcs(e):
    if not isinstance(e, tuple):
        return 0
    d = max([_depth_funcs(a) for a in e[1:]] + [0])
    return d + (1 if (e[0] in MAC or e[0] in ('tan', 'tanh', 'log')) else 0)


def _outer(e):
    return e[0] if isinstance(e, tuple) else '?'
