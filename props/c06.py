"""C06 - mixed-kind number arithmetic: commutativity and the extended-number (oo/nan) rules.
Exhaustive ordered-pair table over representatives of every number kind."""
from fractions import Fraction
from vlib.core import Check, run_cases, check_process_reports, crash_key, bits_to_float
from vlib import gen
import math

# representative: (name, recipe, meta) ; meta: kind, finite, exact, zero, sign (for finite reals / real infinities), nan
def _reps():
    R = []

    def add(name, recipe, **m):
        m.setdefault('finite', True)
        m.setdefault('exact', False)
        m.setdefault('zero', False)
        m.setdefault('sign', None)
        m.setdefault('nan', False)
        m.setdefault('float', False)
        m.setdefault('real', False)
        R.append((name, recipe, m))
    for n in (0, 1, -1, 2, -3):
        add('int%d' % n, gen.I(n), kind='int', exact=True, zero=(n == 0), sign=(n > 0) - (n < 0), real=True)
    for q in (Fraction(1, 2), Fraction(-2, 3), Fraction(7, 3)):
        add('rat%s' % q, gen.FR(q), kind='rat', exact=True, sign=1 if q > 0 else -1, real=True)
    for a, b in ((0, 1), (0, -1), (1, 2), (Fraction(-1, 2), Fraction(1, 3))):
        add('cpx%s,%s' % (a, b), gen.CX(a, b), kind='cpx', exact=True)
    for x in (0.0, -0.0, 1.0, -1.0, 2.5, -0.5, 1e300, 5e-324):
        add('real%r' % x, gen.F(x), kind='real', zero=(x == 0), sign=(x > 0) - (x < 0), float=True, real=True)
    add('real_inf', ('real', 'inf'), kind='real', finite=False, sign=1, float=True, real=True)
    add('real_-inf', ('real', '-inf'), kind='real', finite=False, sign=-1, float=True, real=True)
    add('real_nan', ('real', 'nan'), kind='real', finite=False, float=True, nan='float')
    for re, im in ((1.0, 2.0), (0.0, 1.0), (0.0, 0.0), (-1.5, -0.0)):
        add('cdbl%r,%r' % (re, im), ('cdbl', re, im), kind='cdbl', zero=(re == 0 and im == 0), float=True)
    add('cdbl_nan', ('cdbl', 'nan', 0.0), kind='cdbl', finite=False, float=True, nan='float')
    add('cdbl_inf', ('cdbl', 'inf', 1.0), kind='cdbl', finite=False, float=True)
    add('oo', gen.K('oo'), kind='inf', finite=False, sign=1, exact=True, real=True)
    add('-oo', gen.K('-oo'), kind='inf', finite=False, sign=-1, exact=True, real=True)
    add('zoo', gen.K('zoo'), kind='inf', finite=False, exact=True)
    add('nan', gen.K('nan'), kind='nan', finite=False, nan='sym', exact=True)
    return R


REPS = _reps()
FREE = ['add', 'sub', 'mul', 'div', 'pow']
METH = ['nadd', 'nsub', 'nmul', 'ndiv', 'npow']


def norm_tree(t):
    """Normalise doubles: NaN payloads identified; returns nested tuple."""
    if isinstance(t, list):
        if t and t[0] == 'RealDouble':
            f = bits_to_float(t[1])
            return ('RealDouble', 'nan' if f != f else t[1])
        if t and t[0] == 'ComplexDouble':
            out = ['ComplexDouble']
            for h in t[1:3]:
                f = bits_to_float(h)
                out.append('nan' if f != f else h)
            return tuple(out)
        return tuple(norm_tree(x) for x in t)
    return t


def ulp_close(t1, t2):
    n1, n2 = norm_tree(t1), norm_tree(t2)
    if n1 == n2:
        return True

    def walk(a, b):
        if isinstance(a, tuple) and isinstance(b, tuple):
            if len(a) != len(b) or (a and b and a[0] != b[0] and not isinstance(a[0], tuple)):
                return False
            if a and a[0] in ('RealDouble', 'ComplexDouble'):
                for x, y in zip(a[1:], b[1:]):
                    if x == y:
                        continue
                    if x == 'nan' or y == 'nan':
                        return False
                    fx, fy = bits_to_float(x), bits_to_float(y)
                    if fx == fy:
                        continue  # +0.0 vs -0.0 tolerated as equal values
                    if math.isinf(fx) or math.isinf(fy):
                        return False
                    if abs(fx - fy) > 2 * abs(math.ulp(fx)):
                        return False
                return True
            return all(walk(x, y) for x, y in zip(a, b))
        return a == b
    return walk(n1, n2)


def expected_class(op, A, B):
    """Reference of the extended-number rules the property states.  Returns an expected class
    ('nan' | 'zoo' | ('oo', sign)) or None when the property states nothing."""
    a, b = A[2], B[2]
    base = op.lstrip('n') if op in METH else op
    if a['nan'] == 'sym' or b['nan'] == 'sym':
        if base in ('add', 'sub', 'mul', 'div'):
            return 'nan'
        return None
    an, bn = A[0], B[0]
    if base == 'add':
        if {an, bn} == {'oo', '-oo'}:
            return 'nan'
    if base == 'sub':
        if an == bn and an in ('oo', '-oo'):
            return 'nan'
    if base == 'mul':
        for p, q in ((a, b), (b, a)):
            pn = an if p is a else bn
            qn = bn if p is a else an
            if p['kind'] == 'int' and p['zero'] and q['kind'] == 'inf':
                return 'nan'
            if q['kind'] == 'inf' and p['finite'] and not p['zero'] and p['real'] and p['sign'] in (1, -1):
                if qn == 'zoo':
                    return 'zoo'
                return ('oo', p['sign'] * q['sign'])
    if base == 'div':
        if b['kind'] == 'int' and b['zero'] and a['exact'] and a['finite']:
            return 'nan' if a['zero'] else 'zoo'
    return None


def result_class(t):
    n = gen.tree_number(t)
    if n is None:
        return ('other', t[0])
    if n[0] in ('int', 'rat', 'cpx'):
        return 'exact'
    if n[0] == 'nan':
        return 'nan'
    if n[0] == 'zoo':
        return 'zoo'
    if n[0] == 'oo':
        return ('oo', n[1])
    return 'float'


class C(Check):
    prop = 'C06'

    def run(self):
        self.rule = ('every ordered pair of %d representatives (all number kinds) x {add,sub,mul,div,pow} through the free functions '
                     'and Number:: double dispatch; non-trivial = pair of two different kinds or involving a non-finite value' % len(REPS))
        cases = []
        for i, A in enumerate(REPS):
            for j, B in enumerate(REPS):
                stmts = [('let', 'a', A[1]), ('let', 'b', B[1])]
                for op in FREE + METH:
                    stmts.append(('emit', (op, '$a', '$b')))
                cases.append(('%d_%d' % (i, j), stmts))
        res, reps = run_cases('asan', cases, tag='c06')
        check_process_reports(self, reps)
        self.exhaustive = True
        ops = FREE + METH
        table = {}
        for i, A in enumerate(REPS):
            for j, B in enumerate(REPS):
                r = res.get('%d_%d' % (i, j))
                if r is None or r.status != 'ok':
                    if r is not None and r.status == 'crashed':
                        self.violation(dict(crash_key(r), a=A[0], b=B[0]), dict(a=A[0], b=B[0], crash=r.crash))
                    else:
                        self.inconclusive += 1
                    continue
                self.note_asserts(r)
                for k, op in enumerate(ops):
                    st = r.s(2 + k)
                    table[(i, j, op)] = st
        for (i, j, op), st in sorted(table.items()):
            A, B = REPS[i], REPS[j]
            self.evaluations += 1
            if A[2]['kind'] != B[2]['kind'] or not A[2]['finite'] or not B[2]['finite']:
                self.nontriv((A[0], B[0], op))
            if st is None:
                self.inconclusive += 1
                continue
            if st.st == 'exc':
                self.count('declined:%s' % st.ty)
                continue
            if st.st != 'ok':
                self.inconclusive += 1
                continue
            t = st.v['t']
            rc = result_class(t)
            wit = dict(op=op, a=A[0], b=B[0], result=st.v['s'], program=['(emit (%s %s %s))' % (op, gen.recipe_str(A[1]), gen.recipe_str(B[1]))], config='asan')
            if len(self.samples) < 6 and i != j and (i * 7 + j) % 97 == 0:
                self.sample(dict(op=op, a=A[0], b=B[0], result=st.v['s']))
            # (1) commutativity
            if op in ('add', 'mul', 'nadd', 'nmul') and i < j:
                st2 = table.get((j, i, op))
                if st2 is not None and st2.st == 'ok':
                    self.count('commutativity-pairs')
                    if not ulp_close(t, st2.v['t']):
                        self.violation(dict(clause='commutativity', op=op, a=A[0], b=B[0]),
                                       dict(wit, reverse=st2.v['s']))
                elif st2 is not None and st2.st == 'exc':
                    self.count('commutativity-one-side-declined')
            # (2..5) extended-number rules
            want = expected_class(op, A, B)
            if want is not None:
                self.count('rule-checked')
                if rc != want:
                    self.violation(dict(clause='extended-rule', op=op, a=A[0], b=B[0], want=str(want)), dict(wit, expected=str(want)))
            # (6) finite float o finite number never exact
            base = op.lstrip('n') if op in METH else op
            if base in ('add', 'sub', 'mul', 'div') and A[2]['finite'] and B[2]['finite'] and (A[2]['float'] or B[2]['float']):
                self.count('float-clause-checked')
                if rc == 'exact':
                    fam = None
                    if base == 'mul' and ((A[0] == 'int0' and B[2]['float']) or (B[0] == 'int0' and A[2]['float'])) and st.v['s'] == '0':
                        fam = 'exact-zero-times-float'
                    if base == 'div' and A[0] == 'int0' and B[2]['float'] and not B[2]['zero'] and st.v['s'] == '0':
                        fam = 'exact-zero-times-float'
                    self.violation(dict(clause='float-returns-exact', op=op, a=A[0], b=B[0], family=fam), wit)
