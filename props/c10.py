"""C10 - differentiation.
(a) value: diff(e, x) evaluated by mpmath must equal the high-precision numerical derivative of the library's own input tree;
(b) exact zero when x does not occur; (c) cache on/off results eq; (d) unevaluated Derivative/Subs/FunctionSymbol are interpreted
by fixed concrete analytic functions, so the chain rule is checked as a number; second derivatives and mixed partials by value."""
import multiprocessing as mp_
import random
from fractions import Fraction
import mpmath
from mpmath import mp, mpf, mpc
from vlib.core import Check, run_cases, run_one, check_process_reports, crash_key, resource_crash, render, NCPU
from vlib import gen, oracle_e, shrink
from vlib.gen import I, FR, CX, S, K, X, Y, Z
from . import _value
from .c07 import _shape

ANALYTIC = ['sin', 'cos', 'tan', 'cot', 'sec', 'csc', 'asin', 'acos', 'atan', 'acot', 'asec', 'acsc', 'sinh', 'cosh', 'tanh', 'coth', 'sech', 'csch',
            'asinh', 'acosh', 'atanh', 'acoth', 'asech', 'acsch', 'exp', 'log', 'sqrt', 'cbrt', 'erf', 'erfc', 'gamma', 'loggamma', 'lambertw',
            'digamma', 'trigamma']
REALONLY = ['abs', 'sign', 'conjugate', 'floor', 'ceiling']
SAFE = ['sin', 'cos', 'exp', 'sinh', 'cosh', 'tanh', 'atan', 'asinh', 'erf', 'erfc', 'sech', 'acot']   # analytic on the whole real line
TWO = ['atan2', 'lowergamma', 'uppergamma', 'beta', 'polygamma', 'zeta', 'log', 'max', 'min']


def rand_expr(rng, depth, real):
    un = (SAFE + REALONLY) if real else ANALYTIC
    if depth <= 0 or rng.random() < 0.12:
        return gen.rand_leaf(rng, complex_=not real, floats=False)
    r = rng.random()
    sub = lambda: rand_expr(rng, depth - 1, real)
    if r < 0.32:
        return (rng.choice(un), sub())
    if r < 0.40:
        f = rng.choice(['atan2', 'max', 'min'] if real else ['lowergamma', 'uppergamma', 'beta', 'log', 'polygamma', 'zeta'])
        if f == 'polygamma':
            return (f, I(rng.choice((0, 1, 2))), sub())
        if f in ('lowergamma', 'uppergamma'):
            return (f, rng.choice((I(2), FR(Fraction(3, 2)), S('y'), I(3))), sub())
        if f == 'zeta':
            return (f, rng.choice((I(2), I(3), FR(Fraction(5, 2)))), sub())
        return (f, sub(), sub())
    if r < 0.47:
        fn = rng.choice(('f', 'g', 'h'))
        return ('func', fn) + tuple(sub() for _ in range(rng.choice((1, 1, 2))))
    if r < 0.50:
        v = rng.choice((X, Y))
        return ('derivative', ('func', rng.choice(('f', 'g')), v, rng.choice([q for q in (X, Y, Z) if q != v])), v)
    if r < 0.56:
        # unevaluated substitutions: Subs objects whose bound variable also occurs in the substitution point (f'(x) at x -> x**2),
        # produced both by the library (diff then subs) and directly
        v = rng.choice((X, Y))
        o = rng.choice((X, Y, Z))
        fn = ('func', rng.choice(('f', 'g', 'h')), v) if rng.random() < 0.6 else ('func', rng.choice(('f', 'g')), v, o)
        point = rng.choice((('pow', v, I(2)), ('add', v, o), ('mul', I(2), v), ('sin', v), ('mul', v, o), I(2), ('add', o, I(1))))
        if rng.random() < 0.6:
            return ('subs', ('diff', fn, v), (v, point))
        return ('subs_node', ('derivative', fn, v), (v, point))
    if real:
        return (rng.choice(('add', 'mul', 'sub')), sub(), sub()) if rng.random() < 0.85 else ('pow', sub(), I(rng.choice((2, 3))))
    return gen.rand_arith(rng, 1, unary=(), complex_=not real) if rng.random() < 0.15 else \
        (rng.choice(('add', 'mul', 'sub', 'div', 'pow')), sub(), sub())


def _deriv_judge(args):
    """(cid, input tree, var, result tree, real?, seed) -> (cid, verdict, detail)"""
    import signal
    cid = args[0]
    try:
        signal.signal(signal.SIGALRM, _value._on_alarm)
        signal.setitimer(signal.ITIMER_REAL, 25)
    except ValueError:
        pass
    try:
        return _deriv_judge_inner(args)
    except _value.OracleTimeout:
        return cid, 'inconclusive', 'oracle timeout'
    except MemoryError:
        return cid, 'inconclusive', 'oracle out of memory'
    finally:
        try:
            signal.setitimer(signal.ITIMER_REAL, 0)
        except ValueError:
            pass


def _const_subtrees(t):
    """maximal symbol-free sub-trees (dump form) that are not plain numbers"""
    import json
    if not isinstance(t, list) or not t:
        return
    if t[0] in ('Integer', 'Rational', 'Complex', 'RealDouble', 'ComplexDouble', 'Symbol', 'Constant'):
        return
    if '"Symbol"' not in json.dumps(t) and '"Dummy"' not in json.dumps(t):
        yield t
        return
    for a in t[1:]:
        if isinstance(a, list):
            if a and a[0] == 'T':
                yield from _const_subtrees(a[1])
                yield from _const_subtrees(a[2])
            else:
                yield from _const_subtrees(a)


def _deriv_judge_inner(args):
    cid, te, var, tr, real, seed = args
    rng = random.Random(seed)
    names = sorted(oracle_e.symbols_of(te) | oracle_e.symbols_of(tr) | {var})
    bad = None
    good = 0
    # a symbol-free sub-expression of astronomical magnitude (e.g. (-3)**cosh(7) ~ 1e261 as an argument of beta) makes the 60-digit
    # reference lose every digit to cancellation, consistently at every precision tried below: not judged
    try:
        with mp.workdps(60):
            for sub in _const_subtrees(te):
                v = oracle_e.Evaluator({}).ev(sub)
                if oracle_e.kind_of(v) == 'finite' and not isinstance(v, bool) and abs(v) > mpf(10) ** 40:
                    return cid, 'inconclusive', 'astronomical constant inside the expression'
    except Exception:
        pass
    try:
        for attempt in range(8):
            env = {n: oracle_e.rand_point(rng, 'real' if real else 'complex') for n in names}
            x0 = env[var]
            try:
                with mp.workdps(60):
                    def f(t):
                        e2 = dict(env)
                        e2[var] = t
                        return oracle_e.Evaluator(e2).ev(te)
                    f0 = f(x0)
                    if oracle_e.kind_of(f0) != 'finite':
                        continue
                    if abs(f0) > mpf(10) ** 250 or (f0 != 0 and abs(f0) < mpf(10) ** -250):
                        continue        # a value of astronomical magnitude: the difference quotient carries no information
                    d1 = mp.diff(f, x0, h=mpf(10) ** -18)
                    d2 = mp.diff(f, x0, h=mpf(10) ** -14)
                    rv = oracle_e.Evaluator(env).ev(tr)
                    if not (oracle_e.kind_of(d1) == 'finite' and oracle_e.kind_of(rv) == 'finite' and oracle_e.kind_of(d2) == 'finite'):
                        continue
                    # the numerical derivative must be self-consistent before it may judge anything
                    if oracle_e.rel_diff(d1, d2) > mpf(10) ** -12:
                        continue
                    if abs(d1) > mpf(10) ** 12:
                        continue
                    # rounding noise of the difference quotient (|f| * 10**-60 / h) must be far below what is being compared
                    if abs(f0) * mpf(10) ** -42 > mpf(10) ** -14 * max(abs(d1), abs(rv), mpf(10) ** -10):
                        continue
                    if oracle_e.rel_diff(d1, rv) <= mpf(10) ** -9 or (abs(d1) < mpf(10) ** -14 and abs(rv) < mpf(10) ** -14):
                        good += 1
                    else:
                        # conditioning: both sides must be stable when the working precision is raised
                        with mp.workdps(110):
                            rv2 = oracle_e.Evaluator(env).ev(tr)
                            d3 = mp.diff(f, x0, h=mpf(10) ** -30)
                        if oracle_e.kind_of(rv2) != 'finite' or oracle_e.kind_of(d3) != 'finite' or \
                                oracle_e.rel_diff(rv, rv2) > mpf(10) ** -20 or oracle_e.rel_diff(d1, d3) > mpf(10) ** -11:
                            continue
                        if bad is None:
                            bad = (dict((k, str(v)) for k, v in env.items()), str(mp.nstr(d1, 20)), str(mp.nstr(rv, 20)))
                        else:
                            return cid, 'diff', dict(env=bad[0], numeric_derivative=bad[1], result=bad[2])
                    if good >= 2 and bad is None:
                        return cid, 'ok', None
            except oracle_e.Undefined:
                continue
            except (ZeroDivisionError, OverflowError, ValueError, mpmath.libmp.NoConvergence, TypeError):
                continue
    except oracle_e.Unsupported as ex:
        return cid, 'unsupported', str(ex)
    except RecursionError:
        return cid, 'inconclusive', 'recursion'
    if good and bad is None:
        return cid, 'ok', None
    return cid, 'inconclusive', 'no usable point' if bad is None else 'not reproduced at a second point'


def _subnodes(t):
    if isinstance(t, list) and t and isinstance(t[0], str) and t[0] != 'T':
        yield t
    if isinstance(t, list):
        for a in t[1:]:
            if isinstance(a, list):
                yield from _subnodes(a)


def occurs(tree, name):
    return name in oracle_e.symbols_of(tree)


class C(Check):
    prop = 'C10'

    def make(self, e, var, second, cid):
        v = S(var)
        stmts = [('let', 'e', e), ('let', 'd', ('diff', '$e', v, True)), ('emit', '$e'), ('emit', '$d'),
                 ('emit', ('eq', '$d', ('diff', '$e', v, False)))]
        if second:
            w = S(second)
            stmts += [('emit', ('diff', '$d', w)), ('emit', ('diff', ('diff', '$e', w), v))]
        return dict(cid=cid, stmts=stmts, e=e, var=var, second=second)

    def run(self):
        rng = self.rng
        self.rule = ('random compositions (depth 1-3) of arithmetic, 35 analytic one-argument functions, two-argument functions (atan2, incomplete '
                     'gamma, beta, polygamma, zeta, log base, max/min), abs/sign/conjugate/floor/ceiling (real points), undefined function symbols '
                     'f,g,h (interpreted by fixed analytic functions), Derivative nodes; derivative w.r.t. x, y or a non-occurring symbol; '
                     'diff(e,x) judged against the 60-digit numerical derivative of the input tree at 2 random points (numerical derivative must agree '
                     'with itself at two step sizes first); cache on/off eq; mixed second partials by value; non-trivial = variable occurs under a function')
        items = []
        for k in range(self.q(5000, 150000)):
            real = rng.random() < 0.3
            e = rand_expr(rng, rng.choice((1, 2, 2, 3)), real)
            names = sorted(oracle_e.symbols_of(e)) or ['x']
            var = rng.choice(names) if rng.random() < 0.85 else rng.choice(('x', 'y', 'w'))
            second = rng.choice((None, None, None, 'x', 'y'))
            it = self.make(e, var, second, 'e%d' % k)
            it['real'] = real
            items.append(it)
        res, reps = run_cases('asan', [(it['cid'], it['stmts']) for it in items], tag='c10')
        check_process_reports(self, reps)
        tojudge = []
        byid = {}
        for it in items:
            r = res.get(it['cid'])
            if r is None:
                self.inconclusive += 1
                continue
            self.note_asserts(r)
            prog = [render(s) for s in it['stmts']]
            if r.status == 'crashed' and resource_crash(r):
                self.count('resource-limit (astronomically large integer)')
                continue
            if r.status == 'crashed':
                self.violation(dict(crash_key(r), label='diff'), dict(program=prog, crash=r.crash, config='asan'))
                continue
            se, sd = r.s(2), r.s(3)
            if r.status != 'ok' or se is None or sd is None or se.st != 'ok':
                self.inconclusive += 1
                continue
            if sd.st == 'exc':
                self.count('declined:' + str(sd.ty).split('::')[-1])
                continue
            if sd.st != 'ok':
                self.inconclusive += 1
                continue
            te, td = se.v['t'], sd.v['t']
            it['_te'], it['_td'], it['_s'] = te, td, sd.v['s']
            byid[it['cid']] = it
            # (b) exact zero
            if not occurs(te, it['var']):
                self.evaluations += 1
                self.count('absent-variable')
                if td != ['Integer', '0']:
                    try:
                        env0 = {n: mpf(1) / 3 for n in oracle_e.symbols_of(te)}
                        finite = _value.bounded(lambda: all(oracle_e.kind_of(oracle_e.evaluate(sub, env0, 30)) == 'finite' for sub in _subnodes(te)),
                                                seconds=5, default=False)
                    except Exception:
                        finite = False
                    if not finite:
                        self.inconclusive += 1      # the 'constant' is itself singular (e.g. atanh(atanh(1))): no value to differentiate
                        continue
                    self.violation(dict(clause='not-zero-for-absent-variable', has_nan='"NaN"' in __import__('json').dumps(td)), dict(program=prog, result=sd.v['s'], config='asan'))
                continue
            # (c) cache
            sc = r.s(4)
            if sc is not None and sc.st == 'ok' and sc.v is False:
                self.violation(dict(clause='cache-dependence'), dict(program=prog, result=sd.v['s'], config='asan'))
            tojudge.append((it['cid'], te, it['var'], td, it['real'], (self.seed * 977 + len(tojudge)) & 0x7fffffff))
            if it['second']:
                s1, s2 = r.s(5), r.s(6)
                if s1 is not None and s2 is not None and s1.st == 'ok' and s2.st == 'ok':
                    it['_mixed'] = (s1.v['t'], s2.v['t'])
        ctx = mp_.get_context('fork')
        with ctx.Pool(NCPU, initializer=_value.limit_worker_memory) as pool:
            out = pool.map(_deriv_judge, tojudge, chunksize=max(1, len(tojudge) // (NCPU * 8)))
        cands = []
        mixed = []
        for cid, v, d in out:
            it = byid[cid]
            self.evaluations += 1
            self.count('verdict:' + v)
            if len(gen.recipe_str(it['e'])) > 20:
                self.nontriv(gen.recipe_str(it['e']) + it['var'])
            if v == 'ok':
                if '_mixed' in it:
                    mixed.append((cid, it['_mixed'][0], it['_mixed'][1], None))
                if len(self.samples) < 6 and self.evaluations % 307 == 0:
                    self.sample(dict(e=gen.recipe_str(it['e']), var=it['var'], derivative=it['_s']))
                continue
            if v in ('inconclusive', 'unsupported'):
                self.inconclusive += 1
                if v == 'unsupported':
                    self.count('oracle-unsupported:' + str(d)[:40])
                continue
            cands.append(it)
        # mixed partials by value
        for kind in (True, False):
            part = [m for m in mixed if byid[m[0]]['real'] == kind]
            for cid, v, d in _value.judge_items(part, self.seed, kind='real' if kind else 'complex', tol=mpf(10) ** -20):
                self.evaluations += 1
                self.count('mixed:' + v)
                if v == 'diff':
                    it = byid[cid]
                    self.violation(dict(clause='mixed-partials-differ', shape=gen.recipe_str(_shape(it['e']))),
                                   dict(program=[render(s) for s in it['stmts']], detail=d, config='asan'))
        self.confirm(cands)
        self.min_evals = 1500

    def _fails(self, e, var, real):
        it = self.make(e, var, None, 'k')
        r, _ = run_one('asan', 'k', it['stmts'])
        if r is None or r.status != 'ok' or r.s(2) is None or r.s(3) is None or r.s(2).st != 'ok' or r.s(3).st != 'ok':
            return False, None
        if not occurs(r.s(2).v['t'], var):
            return False, None
        _, v, d = _deriv_judge(('k', r.s(2).v['t'], var, r.s(3).v['t'], real, self.seed + 99))
        return v == 'diff', (r.s(3).v['s'], d, it)

    def confirm(self, cands):
        seen = set()
        for it in cands[:30]:
            bad, info = self._fails(it['e'], it['var'], it['real'])
            if not bad:
                self.inconclusive += 1
                continue
            small = it['e']
            if len(seen) < 6:
                small = shrink.shrink(it['e'], lambda x: self._fails(x, it['var'], it['real'])[0], budget=30, leaves=[('sym', it['var']), ('int', '2')])
                b2, i2 = self._fails(small, it['var'], it['real'])
                if b2:
                    info = i2
                else:
                    small = it['e']
            key = dict(clause='value', shape=gen.recipe_str(_shape(small)))
            if 'acosh' in key['shape'] or 'asech' in key['shape']:
                key = dict(clause='value', family='acosh-asech-derivative-branch')
            ks = str(sorted(key.items()))
            if ks in seen:
                continue
            seen.add(ks)
            self.violation(key, dict(program=[render(s) for s in info[2]['stmts']], original=gen.recipe_str(it['e']), result=info[0], detail=info[1], config='asan'))
