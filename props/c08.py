"""C08 - function constructors' automatic evaluation preserves value.
Spec side: the function applied (by mpmath) to the value of the argument recipe.  Result side: the returned tree."""
import random
import multiprocessing as mp_
from fractions import Fraction
from mpmath import mp, mpf, mpc
import mpmath
from vlib.core import Check, run_cases, run_one, check_process_reports, crash_key, NCPU
from vlib import gen, shrink, oracle_e
from vlib.gen import I, FR, CX, F, S, K, X, Y, Z
from . import _value
from .c07 import _shape

TRIG = ['sin', 'cos', 'tan', 'cot', 'sec', 'csc']
ITRIG = ['asin', 'acos', 'atan', 'acot', 'asec', 'acsc']
HYP = ['sinh', 'cosh', 'tanh', 'coth', 'sech', 'csch']
IHYP = ['asinh', 'acosh', 'atanh', 'acoth', 'asech', 'acsch']
ONE = TRIG + ITRIG + HYP + IHYP + ['exp', 'log', 'abs', 'sign', 'floor', 'ceiling', 'truncate', 'conjugate', 'gamma', 'loggamma', 'erf',
                                   'erfc', 'lambertw', 'dirichlet_eta', 'zeta', 'primepi', 'primorial', 'digamma', 'trigamma']
PI = K('pi')
REAL_ONLY = ('atan2', 'max', 'min', 'floor', 'ceiling', 'truncate', 'primepi', 'primorial', 'kronecker_delta', 'levi_civita')


def pimul(q):
    q = Fraction(q)
    if q == 0:
        return I(0)
    return ('mul', FR(q), PI)


def numeric_grid(rng, full):
    """(recipe) list: constructors on exact / float numeric arguments.  Deterministic apart from sampling when not full."""
    out = []
    angles = sorted({Fraction(k, d) for d in (12, 10, 5, 8) for k in range(-60, 61)})
    for f in TRIG:
        for q in angles:
            out.append((f, pimul(q)))
    # inverse functions on table values produced by the direct functions, their negatives and reciprocals
    base_angles = sorted({Fraction(k, d) for d in (12, 10, 5) for k in range(-12, 13)})
    for g in ITRIG:
        for f in TRIG:
            for q in base_angles:
                v = (f, pimul(q))
                out.append((g, v))
                out.append((g, ('neg', v)))
    vals = [I(0), I(1), I(-1), I(2), I(-2), FR(Fraction(1, 2)), FR(Fraction(-1, 2)), FR(Fraction(3, 2)), ('sqrt', I(2)), ('sqrt', I(3)),
            ('div', ('sqrt', I(3)), I(3)), ('neg', ('sqrt', I(3))), ('div', I(1), ('sqrt', I(2))), ('div', ('sqrt', I(3)), I(2)),
            ('neg', ('div', ('sqrt', I(3)), I(3))), ('div', I(2), ('sqrt', I(3))), ('neg', ('div', I(1), ('sqrt', I(2)))),
            ('add', I(2), ('sqrt', I(3))), ('sub', I(2), ('sqrt', I(3))), ('sub', ('sqrt', I(3)), I(2)), ('add', I(1), ('sqrt', I(2))),
            ('sub', I(1), ('sqrt', I(2))), ('sub', ('sqrt', I(2)), I(1))]
    for y in vals:
        for x in vals:
            out.append(('atan2', y, x))
    for g in ITRIG + IHYP + HYP:
        for v in vals:
            out.append((g, v))
    cvals = [CX(0, 1), CX(0, -1), CX(1, 1), CX(1, -2), CX(Fraction(1, 2), Fraction(1, 3)), CX(-3, 4), CX(0, 2), CX(-1, Fraction(-1, 2))]
    ivals = [('mul', K('I'), pimul(q)) for q in (Fraction(1, 2), Fraction(1, 6), Fraction(-1, 3), 1, 2, Fraction(1, 4), Fraction(3, 2))]
    for f in HYP + ['exp']:
        for v in ivals + cvals[:4]:
            out.append((f, v))
    # exp / log
    logargs = [I(1), I(2), I(-1), I(0), K('E'), ('pow', K('E'), I(3)), ('pow', K('E'), I(-2)), FR(Fraction(1, 2)), FR(Fraction(-3, 4)), K('I'),
               ('neg', K('I')), CX(1, 1), CX(0, -2), ('exp', I(2)), ('exp', FR(Fraction(1, 2))), ('sqrt', K('E')), I(8), FR(Fraction(8, 27)),
               ('exp', CX(0, 1)), ('mul', I(2), K('E')), ('neg', K('E')), K('pi')]
    for a in logargs:
        out.append(('log', a))
        for b in (I(2), K('E'), FR(Fraction(1, 2)), I(10)):
            out.append(('log', a, b))
    for a in [I(0), I(1), I(-1), ('log', I(2)), ('log', FR(Fraction(1, 3))), ('mul', I(2), ('log', I(3))), ('neg', ('log', I(5))),
              ('mul', K('I'), PI), ('mul', FR(Fraction(1, 2)), K('I'), PI), ('mul', I(-2), K('I'), PI), ('add', I(1), ('mul', K('I'), PI))]:
        out.append(('exp', a))
    # abs sign conjugate floor ceiling truncate
    rvals = [I(0), I(3), I(-3), FR(Fraction(7, 2)), FR(Fraction(-7, 2)), FR(Fraction(1, 3)), FR(Fraction(-1, 3)), K('pi'), ('neg', K('pi')), K('E'),
             ('add', K('pi'), FR(Fraction(1, 2))), ('sub', I(3), K('pi')), ('mul', I(2), K('E')), ('sqrt', I(2)), ('neg', ('sqrt', I(2))),
             K('EulerGamma'), K('GoldenRatio'), K('Catalan'), ('pow', I(10), I(30)), FR(Fraction(10 ** 30 + 1, 2)), FR(Fraction(-(10 ** 30) - 1, 2)),
             F(2.5), F(-2.5), F(0.0), F(-0.0), F(1e20), F(-0.5), F(3.0), ('cdbl', 1.5, -2.5), ('cdbl', -0.5, 0.5)]
    for f in ('abs', 'sign', 'conjugate', 'floor', 'ceiling', 'truncate'):
        for v in rvals + cvals:
            out.append((f, v))
        for v in (('add', X, I(2)), ('add', ('floor', X), I(1)), ('ceiling', X), ('floor', X), ('neg', X), ('mul', I(2), X), ('abs', X),
                  ('mul', K('I'), X), ('conjugate', X), ('sign', X), ('pow', X, I(2)), ('add', X, FR(Fraction(1, 2))), ('mul', I(-3), X, Y)):
            out.append((f, v))
    # gamma family
    gargs = [FR(Fraction(n, d)) for d in (1, 2, 3, 4) for n in range(-8 * d, 12 * d + 1, 1) if d == 1 or n % d != 0]
    if not full:
        gargs = [a for a in gargs if rng.random() < 0.5 or a[0] == 'int']
    for a in gargs:
        out.append(('gamma', a))
        out.append(('loggamma', a))
        for n in (0, 1, 2, 3):
            out.append(('polygamma', I(n), a))
        out.append(('digamma', a))
        out.append(('trigamma', a))
    sargs = [I(n) for n in range(-3, 6)] + [FR(Fraction(n, 2)) for n in (-3, -1, 1, 3, 5)]
    xargs = [I(0), I(1), I(2), FR(Fraction(1, 2)), I(-1)]
    for s in sargs:
        for x in xargs:
            if x == I(0) and (s[0] == 'rat' and int(s[1]) < 0 or s[0] == 'int' and int(s[1]) <= 0):
                continue  # gamma(s, 0) for Re s <= 0 is a divergent integral: zoo vs mpmath's 0 is a convention, not judged
            out.append(('lowergamma', s, x))
            out.append(('uppergamma', s, x))
    bargs = [I(1), I(2), I(3), FR(Fraction(1, 2)), FR(Fraction(3, 2)), FR(Fraction(-1, 2)), I(0), I(-1), FR(Fraction(1, 3)), FR(Fraction(2, 3)), I(5)]
    def _npi(v):  # non-positive integer
        return v[0] == 'int' and int(v[1]) <= 0
    for a in bargs:
        for b in bargs:
            if _npi(a) or _npi(b):
                continue  # gamma poles in numerator: value is convention (limit) dependent
            out.append(('beta', a, b))
    for s in range(-8, 13):
        out.append(('zeta', I(s)))
        out.append(('dirichlet_eta', I(s)))
        for a in range(1, 6):   # a <= 0: the library follows SymPy's convention for the skipped term, not judged
            out.append(('zeta', I(s), I(a)))
    for s in (FR(Fraction(1, 2)), FR(Fraction(3, 2)), F(2.0), F(-1.0), CX(1, 1)):
        out.append(('zeta', s))
        out.append(('dirichlet_eta', s))
        out.append(('zeta', s, I(2)))
    # erf erfc lambertw
    for f in ('erf', 'erfc'):
        for v in (I(0), I(1), I(-1), FR(Fraction(1, 2)), ('neg', X), ('mul', I(-2), X), F(0.5), F(-0.5), K('oo'), K('-oo'), ('sub', X, Y), ('sub', Y, X)):
            out.append((f, v))
    for v in (I(0), K('E'), ('neg', ('pow', K('E'), I(-1))), ('mul', I(2), ('pow', K('E'), I(2))), I(1), F(1.0), ('neg', FR(Fraction(1, 2)))):
        out.append(('lambertw', v))
    # max / min
    mvals = [I(1), I(2), FR(Fraction(1, 2)), F(1.0), F(2.0), F(0.5), K('oo'), K('-oo'), K('pi'), K('E'), I(-1), F(-1.0), X, Y]
    for f in ('max', 'min'):
        for _ in range(300 if full else 120):
            n = rng.choice((2, 3, 4))
            out.append((f,) + tuple(rng.choice(mvals) for _ in range(n)))
    # kronecker / levi-civita
    kv = [I(0), I(1), I(2), X, Y, ('add', X, I(1)), FR(Fraction(1, 2))]
    for a in kv:
        for b in kv:
            out.append(('kronecker_delta', a, b))
    for _ in range(200 if full else 80):
        n = rng.choice((2, 3, 4))
        out.append(('levi_civita',) + tuple(rng.choice([I(1), I(2), I(3), I(4), X, Y]) for _ in range(n)))
    # primepi / primorial
    for v in [I(n) for n in (-5, 0, 1, 2, 3, 10, 29, 30, 31, 100, 1000)] + [FR(Fraction(7, 2)), FR(Fraction(-7, 2)), F(10.5), F(-3.0), K('pi'), ('mul', I(10), K('E'))]:
        out.append(('primepi', v))
        out.append(('primorial', v))
    # floats through every one-argument function (numeric evaluation path)
    fl = [F(0.5), F(-0.5), F(2.5), F(-2.5), F(0.0), F(1.0), F(-1.0), ('cdbl', 0.5, 0.25), ('cdbl', -1.5, 2.0)]
    for f in TRIG + ITRIG + HYP + IHYP + ['exp', 'log', 'gamma', 'loggamma', 'erf', 'erfc', 'lambertw']:
        for v in fl:
            if v == F(0.0) and f in ('acot', 'acoth', 'asec', 'acsc', 'asech', 'acsch', 'cot', 'csc', 'coth', 'csch', 'log', 'gamma', 'loggamma'):
                continue  # float argument exactly at a singularity of 1/x-type definitions
            out.append((f, v))
    return out


def symbolic(rng, n):
    out = []
    shifts = [Fraction(k, 4) for k in range(-40, 41)]
    for _ in range(n):
        r = rng.random()
        if r < 0.3:
            f = rng.choice(TRIG)
            arg = ('add', rng.choice((X, ('mul', I(2), X), ('neg', X), ('sub', X, Y))), pimul(rng.choice(shifts)))
            out.append((f, arg))
        elif r < 0.6:
            f = rng.choice(TRIG + ITRIG + HYP + IHYP + ['erf', 'erfc', 'abs', 'sign', 'conjugate', 'exp', 'log'])
            arg = rng.choice((('neg', X), ('sub', X, Y), ('mul', I(-2), X, Y), ('neg', ('add', X, I(1))), ('mul', FR(Fraction(-1, 2)), X),
                              ('sub', Y, X), ('neg', ('pow', X, I(2))), ('mul', K('I'), X), ('neg', ('mul', K('I'), X)), ('mul', I(-1), ('sin', X)),
                              ('sub', I(1), X), ('sub', X, I(1))))
            out.append((f, arg))
        elif r < 0.8:
            f, g = rng.choice(TRIG + HYP), rng.choice(ITRIG + IHYP)
            out.append((f, (g, rng.choice((X, ('neg', X), ('mul', I(2), X))))) if rng.random() < 0.5 else (g, (f, X)))
        else:
            f = rng.choice(ONE[:26])
            out.append((f, gen.rand_arith(rng, 2, unary=TRIG + HYP, p_unary=0.2)))
    return out


def _on_cut_float(rcp):
    return rcp[0] in ITRIG + IHYP and _value.has_float(rcp)


def _judge(args):
    """Numeric-argument judge: constants on both sides."""
    key, rcp, tree, seed = args
    try:
        flt = _value.has_float(rcp) or _value.has_float(tree)
        tol = mpf(10) ** (-9 if flt else -25)
        try:
            spec = oracle_e.evaluate(rcp, {}, 50)
            sk = oracle_e.kind_of(spec)
        except oracle_e.Undefined:
            spec, sk = None, 'undefined'
        except (ZeroDivisionError, ValueError, OverflowError, mpmath.libmp.NoConvergence):
            spec, sk = None, 'undefined'
        try:
            res = oracle_e.evaluate(tree, {}, 50)
            rk = oracle_e.kind_of(res)
        except oracle_e.Undefined:
            res, rk = None, 'undefined'
        except (ZeroDivisionError, ValueError, OverflowError, mpmath.libmp.NoConvergence):
            res, rk = None, 'undefined'
        if sk == 'finite' and abs(spec) > mpf(10) ** 15:
            sk = 'huge'
        if sk == 'finite' and rk == 'finite':
            if isinstance(spec, bool) or isinstance(res, bool):
                return key, ('ok' if bool(spec) == bool(res) else 'diff'), dict(spec=str(spec), result=str(res))
            if oracle_e.rel_diff(spec, res) <= tol:
                return key, 'ok', None
            if abs(spec) < mpf(10) ** -20 and abs(res) < mpf(10) ** -20:
                return key, 'ok', None
            if _on_cut_float(rcp) and oracle_e.rel_diff(mp.conj(spec), res) <= tol:
                return key, 'ok', 'conjugate on cut'
            # confirm at higher precision (spec stable?)
            s2 = oracle_e.evaluate(rcp, {}, 110)
            r2 = oracle_e.evaluate(tree, {}, 110)
            if oracle_e.rel_diff(s2, spec) > mpf(10) ** -30 or oracle_e.rel_diff(r2, res) > mpf(10) ** -30:
                return key, 'inconclusive', 'unstable'
            if oracle_e.rel_diff(s2, r2) <= tol:
                return key, 'inconclusive', 'vanished'
            return key, 'diff', dict(spec=str(spec), result=str(res))
        if sk == 'finite' and rk in ('zoo', '+inf', '-inf', 'nan', 'cinf'):
            s2 = oracle_e.evaluate(rcp, {}, 110)
            if oracle_e.kind_of(s2) == 'finite' and oracle_e.rel_diff(s2, spec) < mpf(10) ** -30:
                return key, 'diff', dict(spec=str(spec), result=rk, clause='spurious-nonfinite')
            return key, 'inconclusive', 'spec unstable'
        return key, 'inconclusive', 'non-finite: spec=%s result=%s' % (sk, rk)
    except oracle_e.Unsupported as ex:
        return key, 'unsupported', str(ex)
    except RecursionError:
        return key, 'inconclusive', 'recursion'
    except Exception as ex:
        return key, 'inconclusive', 'oracle error %s: %s' % (type(ex).__name__, ex)


class C(Check):
    prop = 'C08'

    def run(self):
        rng = self.rng
        self.rule = ('numeric grid (every constructor x special angles k*pi/{5,8,10,12}, table values and their negatives through the '
                     'inverse functions, atan2 quadrants, gamma/polygamma/zeta/beta/incomplete gamma on integers and fractions, '
                     'floor/ceiling/sign/abs/conjugate on exact, constant and float arguments, max/min, kronecker/levi-civita, '
                     'primepi/primorial, floats) enumerated completely in the thorough tier and sampled 60% in quick; symbolic '
                     'arguments (pi shifts, extractable minus signs, compositions) judged at 3 generic complex points; non-trivial = '
                     'constructor returned something other than the bare unevaluated node')
        full = self.tier == 'thorough'
        grid = numeric_grid(rng, full)
        if not full:
            grid = [g for g in grid if rng.random() < 0.6]
        nsym = self.q(6000, 200000)
        sym = symbolic(rng, nsym)
        items = [('g%d' % i, r) for i, r in enumerate(grid)] + [('s%d' % i, r) for i, r in enumerate(sym)]
        self.exhaustive = full
        cases = [(cid, [('emit', r)]) for cid, r in items]
        res, reps = run_cases('asan', cases, tag='c08')
        check_process_reports(self, reps)
        recs = dict(items)
        num_items, sym_items = [], []
        for cid, rcp in items:
            r = res.get(cid)
            if r is None:
                continue
            self.note_asserts(r)
            if r.status == 'crashed':
                self.violation(dict(crash_key(r), fn=rcp[0]), dict(recipe=gen.recipe_str(rcp), program=['(emit %s)' % gen.recipe_str(rcp)], crash=r.crash, config='asan'))
                continue
            st = r.s(0)
            if r.status != 'ok' or st is None:
                self.inconclusive += 1
                continue
            if st.st == 'exc':
                self.count('declined:%s:%s' % (rcp[0], str(st.ty).split('::')[-1]))
                continue
            if st.st != 'ok':
                self.inconclusive += 1
                continue
            self.count('fn:' + rcp[0])
            t = st.v['t']
            if not oracle_e.symbols_of(rcp):
                num_items.append((cid, rcp, t, self.seed))
            else:
                real_only = rcp[0] in ('atan2', 'max', 'min', 'floor', 'ceiling', 'truncate', 'primepi', 'primorial', 'kronecker_delta', 'levi_civita')
                sym_items.append((cid, rcp, t, ('real' if real_only else 'complex')))
        ctx = mp_.get_context('fork')
        with ctx.Pool(NCPU) as pool:
            nv = pool.map(_judge, num_items, chunksize=max(1, len(num_items) // (NCPU * 8)))
        sv = []
        for kind in ('complex', 'real'):
            part = [(c, r, t, None) for c, r, t, k in sym_items if k == kind]
            sv += _value.judge_items(part, self.seed, kind=kind)
        trees = {c: t for c, _, t, _ in num_items}
        trees.update({c: t for c, _, t, _ in sym_items})
        cands = []
        for cid, v, d in nv + sv:
            self.evaluations += 1
            self.count('verdict:' + v)
            rcp = recs[cid]
            t = trees[cid]
            bare = t[0].lower().replace('_', '') == rcp[0].replace('_', '') and _value.tree_size(t) == gen.recipe_size(rcp) + 1
            if not bare:
                self.nontriv(gen.recipe_str(rcp))
            if v == 'ok':
                if len(self.samples) < 8 and not bare and cid.endswith('3'):
                    self.sample(dict(recipe=gen.recipe_str(rcp), result=res[cid].s(0).v['s']))
                continue
            if v in ('inconclusive', 'unsupported'):
                self.inconclusive += 1
                if v == 'unsupported':
                    self.count('oracle-unsupported:' + str(d)[:30])
                continue
            cands.append((cid, rcp))
        # fresh-process confirmation of all candidates in one batch; shrinking only for the first member of each family
        fres, _ = run_cases('asan', [(cid, [('emit', r)]) for cid, r in cands], tag='c08c', jobs=min(NCPU, max(1, len(cands) // 4)))
        seen_fam = set()
        for cid, rcp in cands:
            r = fres.get(cid)
            if r is None or r.status != 'ok' or r.s(0) is None or r.s(0).st != 'ok':
                self.inconclusive += 1
                continue
            t = r.s(0).v['t']
            if not oracle_e.symbols_of(rcp):
                k, v, d = _judge(('k', rcp, t, self.seed + 5))
            else:
                k, v, d = _value.judge_items([('k', rcp, t, None)], self.seed + 5, kind='real' if rcp[0] in REAL_ONLY else 'complex')[0]
            if v != 'diff':
                self.inconclusive += 1
                continue
            fam = family_of(rcp, t, d)
            if fam is not None and (rcp[0], fam) in seen_fam:
                self.violation(dict(clause='value', fn=rcp[0], shape=gen.recipe_str(_shape(rcp)), family=fam),
                               dict(recipe=gen.recipe_str(rcp), result=r.s(0).v['s'], detail=d, program=['(emit %s)' % gen.recipe_str(rcp)], config='asan'))
                continue
            seen_fam.add((rcp[0], fam))
            self._confirm(rcp, cid.startswith('g'))
        self.min_evals = 2000

    def _fails(self, rcp, numeric):
        r, _ = run_one('asan', 'c', [('emit', rcp)])
        if r is None or r.status != 'ok' or r.s(0) is None or r.s(0).st != 'ok':
            return False, None
        t = r.s(0).v['t']
        if not oracle_e.symbols_of(rcp):
            k, v, d = _judge(('k', rcp, t, self.seed + 5))
        else:
            real_only = rcp[0] in ('atan2', 'max', 'min', 'floor', 'ceiling', 'truncate', 'primepi', 'primorial', 'kronecker_delta', 'levi_civita')
            k, v, d = _value.judge_items([('k', rcp, t, None)], self.seed + 5, kind='real' if real_only else 'complex')[0]
        return v == 'diff', (r.s(0).v, d)

    def _confirm(self, rcp, numeric):
        bad, info = self._fails(rcp, numeric)
        if not bad:
            self.inconclusive += 1
            return
        fn = rcp[0]

        def f(x):
            return isinstance(x, tuple) and x and x[0] == fn and self._fails(x, numeric)[0]
        small = shrink.shrink(rcp, f, budget=40)
        bad, info = self._fails(small, numeric)
        if not bad:
            small = rcp
            bad, info = self._fails(small, numeric)
        val, det = info
        self.violation(dict(clause='value', fn=fn, shape=gen.recipe_str(_shape(small)), family=family_of(small, val['t'], det)),
                       dict(recipe=gen.recipe_str(small), original=gen.recipe_str(rcp), result=val['s'], tree=val['t'], detail=det,
                            program=['(emit %s)' % gen.recipe_str(small)], config='asan'))


def family_of(rcp, tree, det):
    """Classify a confirmed minimal violation into one of the recorded defect families (or None)."""
    fn = rcp[0]
    try:
        with mp.workdps(40):
            if fn in ('acot', 'atan2') and isinstance(det, dict) and 'spec' in det and det.get('result') not in ('zoo', 'nan'):
                sp, rs = mpmath.mpmathify(det['spec']), mpmath.mpmathify(det['result'])
                if abs(abs(rs - sp) - mp.pi) < mpf(10) ** -12:
                    if fn == 'acot':
                        a = oracle_e.evaluate(rcp[1], {}, 40)
                        if a.imag == 0 and a.real < 0 if isinstance(a, mpc) else a < 0:
                            return 'acot-negative-argument-offset-pi'
                    else:
                        return 'atan2-non-number-operand-quadrant'
            if fn in ('asin', 'acos', 'asec', 'acsc'):
                a = oracle_e.evaluate(rcp[1], {}, 40)
                if fn in ('asec', 'acsc'):
                    a = 1 / a
                c4 = (mp.sqrt(6) + mp.sqrt(2)) / 4
                if abs(abs(a) - c4) < mpf(10) ** -25:
                    return 'inverse-table-sin-5pi-12'
            if fn in ('polygamma', 'digamma', 'trigamma') and tree[0] == 'Infty':
                a = oracle_e.evaluate(rcp[-1], {}, 40)
                ar = a.real if isinstance(a, mpc) else a
                if (not isinstance(a, mpc) or a.imag == 0) and ar < 0 and ar != mp.floor(ar):
                    return 'polygamma-negative-noninteger-zoo'
            if fn in ('floor', 'ceiling', 'truncate') and rcp[1][0] == 'cpx' and tree[0] == 'Complex':
                return 'floor-of-exact-complex-unchanged'
    except Exception:
        return None
    return None
