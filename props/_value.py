"""Shared machinery for value-preservation monitors (C07, C08, C09, C11, C35, C36, ...):
parallel judging of (specification recipe, result tree) pairs with oracle E."""
import multiprocessing as mp_
import random
from mpmath import mpf
from vlib import oracle_e
from vlib.core import NCPU


def has_float(r):
    if isinstance(r, (tuple, list)):
        if r and r[0] in ('real', 'cdbl', 'RealDouble', 'ComplexDouble'):
            return True
        return any(has_float(a) for a in r[1:] if isinstance(a, (tuple, list)))
    return False


def _float_leaves_perturbed(r, rng):
    """Copy of recipe r with every float leaf moved by a few ulp."""
    import math
    if isinstance(r, tuple):
        if r and r[0] == 'real' and isinstance(r[1], float):
            x = r[1]
            if x == 0 or x != x or math.isinf(x):
                return r
            return ('real', x * (1 + rng.choice((-1, 1)) * 2.0 ** -51))
        return tuple(_float_leaves_perturbed(a, rng) if isinstance(a, tuple) else a for a in r)
    return r


def limit_worker_memory():
    """Pool initializer: an oracle evaluation that explodes must fail inside its worker (MemoryError -> inconclusive), not take the machine down."""
    import resource
    try:
        resource.setrlimit(resource.RLIMIT_AS, (6 << 30, 6 << 30))
    except (ValueError, OSError):
        pass


class OracleTimeout(Exception):
    pass


def _on_alarm(signum, frame):
    raise OracleTimeout()


def _judge_one(args):
    """Bounded: an oracle evaluation that does not finish within ORACLE_BUDGET_S seconds is 'inconclusive', never a verdict."""
    import signal
    key = args[0]
    try:
        old = signal.signal(signal.SIGALRM, _on_alarm)
        signal.setitimer(signal.ITIMER_REAL, ORACLE_BUDGET_S)
    except ValueError:      # not in the main thread: run unbounded
        old = None
    try:
        return _judge_one_inner(args)
    except OracleTimeout:
        return key, 'inconclusive', 'oracle timeout'
    except MemoryError:
        return key, 'inconclusive', 'oracle out of memory'
    finally:
        if old is not None:
            signal.setitimer(signal.ITIMER_REAL, 0)
            signal.signal(signal.SIGALRM, old)


ORACLE_BUDGET_S = 20


def bounded(fn, seconds=10, default=None):
    """Run fn() in the main thread under a SIGALRM budget (and catching MemoryError); returns default when it does not finish."""
    import signal
    try:
        old = signal.signal(signal.SIGALRM, _on_alarm)
        signal.setitimer(signal.ITIMER_REAL, seconds)
    except ValueError:
        return fn()
    try:
        return fn()
    except (OracleTimeout, MemoryError, RecursionError):
        return default
    finally:
        signal.setitimer(signal.ITIMER_REAL, 0)
        signal.signal(signal.SIGALRM, old)


def _judge_one_inner(args):
    key, spec, res, kinds, seed, tol, kind, npoints = args
    rng = random.Random(seed)
    try:
        if has_float(spec) or has_float(res):
            # relaxed rule: tolerance from measured sensitivity of the specification to 1-ulp input noise
            j = oracle_e.Judge(rng, kind=kind, tol=mpf(10) ** -9, npoints=npoints)
            v, d = j.compare(spec, res, kinds=kinds)
            if v == 'diff':
                # conditioning: perturb float leaves of the spec; if the spec itself moves by more than 1e-11 it is ill-conditioned
                sp2 = _float_leaves_perturbed(spec, rng)
                j2 = oracle_e.Judge(random.Random(seed), kind=kind, tol=mpf(10) ** -11, npoints=npoints)
                v2, _ = j2.compare(spec, sp2, kinds=kinds)
                if v2 != 'ok':
                    return key, 'inconclusive', 'ill-conditioned in float inputs'
            return key, v, d
        j = oracle_e.Judge(rng, kind=kind, tol=tol, npoints=npoints)
        v, d = j.compare(spec, res, kinds=kinds)
        return key, v, d
    except RecursionError:
        return key, 'inconclusive', 'recursion'
    except Exception as ex:  # oracle failure is never a verdict
        return key, 'inconclusive', 'oracle error: %s: %s' % (type(ex).__name__, ex)


def judge_items(items, seed, tol=None, kind='complex', npoints=3):
    """items: list of (key, spec, result_tree, kinds-or-None).  Returns list of (key, verdict, detail)."""
    tol = tol or mpf(10) ** -25
    args = [(k, s, r, kd, (seed * 7919 + i) & 0x7fffffff, tol, kind, npoints) for i, (k, s, r, kd) in enumerate(items)]
    if len(args) < 64:
        return [_judge_one(a) for a in args]
    ctx = mp_.get_context('fork')
    with ctx.Pool(NCPU, initializer=limit_worker_memory) as pool:
        return pool.map(_judge_one, args, chunksize=max(1, len(args) // (NCPU * 8)))


def tree_size(t):
    if isinstance(t, (list, tuple)):
        return 1 + sum(tree_size(a) for a in t[1:] if isinstance(a, (list, tuple)))
    return 0
