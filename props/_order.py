"""Shared machinery of C01 (eq => equal hash) and C02 (strict total order consistent with eq):
run universes through the executor's cmp_matrix and judge the axioms on the matrices (numpy)."""
import numpy as np
from vlib.core import run_cases, check_process_reports, crash_key, run_one
from vlib import gen, gen_universe


def make_cases(rng, n_universes, size):
    cases = []
    meta = {}
    for k in range(n_universes):
        u = gen_universe.universe(rng, size)
        stmts = [('let', 'u%d' % i, r) for i, r in enumerate(u)]
        stmts.append(('emit', ('cmp_matrix_regs',) + tuple('u%d' % i for i in range(len(u)))))
        stmts.append(('emit', ('finiteset',) + tuple('$u%d' % i for i in range(min(len(u), 12)))))
        cid = 'U%d' % k
        cases.append((cid, stmts))
        meta[cid] = u
    return cases, meta


def matrices(v):
    n = v['n']
    M = np.array(v['cmp'], dtype=np.int8).reshape(n, n)
    E = np.array(v['eq'], dtype=bool).reshape(n, n)
    L = np.array(v['less'], dtype=bool).reshape(n, n)
    H = v['hash']
    return n, M, E, L, H


def drop_asserting(v):
    """Members whose comparison tripped the assertion hook (cmp value 7) are removed: those pairs are
    reported under C03 and are inconclusive here.  Returns (v', number of members dropped)."""
    n = v['n']
    M = np.array(v['cmp'], dtype=np.int8).reshape(n, n)
    bad = sorted(set(np.argwhere(M == 7).flatten().tolist())) if (M == 7).any() else []
    if not bad and 'set_size' in v:
        return v, 0
    if bad:
        # greedy: drop the member involved in most asserting pairs until none is left
        keep = list(range(n))
        while True:
            sub = M[np.ix_(keep, keep)]
            cnt = (sub == 7).sum(axis=0) + (sub == 7).sum(axis=1)
            if cnt.max() == 0:
                break
            keep.pop(int(cnt.argmax()))
    else:
        keep = list(range(n))
    k = len(keep)
    out = dict(v)
    for key in ('cmp', 'eq', 'less'):
        A = np.array(v[key]).reshape(n, n)[np.ix_(keep, keep)]
        out[key] = A.flatten().tolist()
    out['hash'] = [v['hash'][i] for i in keep]
    out['idx'] = [v['idx'][i] for i in keep]
    out['n'] = k
    if bad or 'set_size' not in v:
        out['set_size'] = None
        out['uset_size'] = None
        out['set_order_indep'] = True
    return out, n - k


def minimal_program(u, idxs):
    """Program reproducing the observation on the given universe members only."""
    stmts = [('let', 'u%d' % k, u[i]) for k, i in enumerate(idxs)]
    stmts.append(('emit', ('cmp_matrix_regs',) + tuple('u%d' % k for k in range(len(idxs)))))
    return stmts


def kind_of_recipe(r):
    """Coarse class of a universe member for known-findings keys."""
    h = r[0]
    if h in ('real', 'cdbl'):
        txt = gen.recipe_str(r)
        if 'nan' in txt:
            return h + ':nan'
        if h == 'real' and isinstance(r[1], float) and r[1] == 0:
            return 'real:zero'
        return h
    if h in ('int', 'rat', 'cpx', 'const', 'sym', 'dummy'):
        return h
    return h
