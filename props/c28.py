"""C28 - boolean simplification preserves truth value.
Formulas over relational atoms (linear in x, y with rational constants) and membership atoms are built through logical_and / or / not / xor /
nand / nor / xnor; Piecewise expressions are built through piecewise().  The monitor evaluates the formula it asked for and the tree the
library returned under every assignment of x, y from an exact probe set (all thresholds of the atoms, midpoints, outside points), in exact
rational arithmetic with its own evaluator - the library is not asked to evaluate anything."""
import itertools
from fractions import Fraction
from vlib import gen
from vlib.gen import I, FR, K, X, Y
from vlib.core import Check, run_cases, run_one, check_process_reports, crash_key, render
from . import c27

R = Fraction
CONSTS = [R(0), R(1), R(-1), R(1, 2), R(2), R(3)]
NUMSETS = ['reals', 'rationals', 'integers', 'naturals', 'naturals0', 'emptyset', 'universalset']


class Unmodelled(Exception):
    pass


# ------------------------------------------------------------------ the formula the monitor asks for
def lin(rng):
    """linear term: (a, b, c) = a*x + b*y + c"""
    r = rng.random()
    if r < 0.3:
        return (R(1), R(0), R(0))
    if r < 0.55:
        return (R(0), R(1), R(0))
    if r < 0.75:
        return (R(0), R(0), rng.choice(CONSTS))
    if r < 0.85:
        return (R(1), R(0), rng.choice((R(1), R(-1), R(1, 2))))
    if r < 0.93:
        return (rng.choice((R(2), R(-1))), R(0), R(0))
    return (R(1), rng.choice((R(1), R(-1))), R(0))


def lin_recipe(t):
    a, b, c = t
    parts = []
    if a:
        parts.append(X if a == 1 else ('mul', FR(a), X))
    if b:
        parts.append(Y if b == 1 else ('mul', FR(b), Y))
    if c or not parts:
        parts.append(FR(c))
    return parts[0] if len(parts) == 1 else ('add',) + tuple(parts)


def lin_val(t, env):
    return t[0] * env['x'] + t[1] * env['y'] + t[2]


def atom(rng):
    r = rng.random()
    if r < 0.6:
        return ('rel', rng.choice(('Lt', 'Le', 'Gt', 'Ge', 'Eq', 'Ne')), lin(rng), lin(rng))
    if r < 0.92:
        s = c27.leaf(rng) if rng.random() < 0.7 else ('union', c27.leaf(rng), c27.leaf(rng))
        return ('in', rng.choice(('x', 'y')), s)
    return ('const', rng.random() < 0.5)


def formula(rng, depth, pool):
    if depth <= 0 or rng.random() < 0.2:
        # a small pool of atoms makes repeated and complementary literals likely
        return rng.choice(pool)
    op = rng.choice(('and', 'or', 'not', 'xor', 'nand', 'nor', 'xnor', 'and', 'or'))
    if op == 'not':
        return ('not', formula(rng, depth - 1, pool))
    return (op,) + tuple(formula(rng, depth - 1, pool) for _ in range(rng.choice((2, 2, 3, 4))))


def complement_atom(a, rng):
    """a literal that is the negation of atom a, written differently"""
    if a[0] == 'rel':
        neg = {'Lt': 'Ge', 'Le': 'Gt', 'Gt': 'Le', 'Ge': 'Lt', 'Eq': 'Ne', 'Ne': 'Eq'}[a[1]]
        return ('rel', neg, a[2], a[3])
    return ('not', a)


def f_recipe(f):
    k = f[0]
    if k == 'rel':
        return (f[1], lin_recipe(f[2]), lin_recipe(f[3]))
    if k == 'in':
        return ('contains', X if f[1] == 'x' else Y, c27.to_recipe(f[2]))
    if k == 'const':
        return K('true' if f[1] else 'false')
    return ('logical_' + k,) + tuple(f_recipe(x) for x in f[1:])


def f_val(f, env):
    k = f[0]
    if k == 'rel':
        a, b = lin_val(f[2], env), lin_val(f[3], env)
        return {'Lt': a < b, 'Le': a <= b, 'Gt': a > b, 'Ge': a >= b, 'Eq': a == b, 'Ne': a != b}[f[1]]
    if k == 'in':
        return c27.member(f[2], ('q', env[f[1]]))
    if k == 'const':
        return f[1]
    vs = [f_val(x, env) for x in f[1:]]
    if k == 'not':
        return not vs[0]
    if k == 'and':
        return all(vs)
    if k == 'or':
        return any(vs)
    if k == 'nand':
        return not all(vs)
    if k == 'nor':
        return not any(vs)
    if k == 'xor':
        return sum(vs) % 2 == 1
    if k == 'xnor':
        return sum(vs) % 2 == 0
    raise ValueError(k)


def f_consts(f, acc):
    """thresholds: values of x or y at which some atom can change"""
    k = f[0]
    if k == 'rel':
        for t in (f[2], f[3]):
            acc.add(t[2])
        # a*x + c1 ? c2  ->  x = (c2 - c1) / a
        a, b = f[2], f[3]
        for i in (0, 1):
            d = a[i] - b[i]
            if d:
                acc.add((b[2] - a[2]) / d)
    elif k == 'in':
        c27.criticals(f[2], acc)
    elif k != 'const':
        for x in f[1:]:
            f_consts(x, acc)
    return acc


def probe_values(f):
    cs = sorted(f_consts(f, {R(0), R(1)}))
    vals = set(cs)
    for a, b in zip(cs, cs[1:]):
        vals.add((a + b) / 2)
    vals |= {cs[0] - 1, cs[-1] + 1, cs[0] - R(1, 2), cs[-1] + R(5, 2)}
    return sorted(vals)


# ------------------------------------------------------------------ the tree the library returned
def num(t, env):
    h = t[0]
    if h == 'Integer':
        return R(int(t[1]))
    if h == 'Rational':
        return R(int(t[1]), int(t[2]))
    if h == 'Symbol':
        if t[1] not in env:
            raise Unmodelled('symbol ' + t[1])
        return env[t[1]]
    if h == 'Add':
        s = num(t[1], env)
        for term in t[2:]:
            s += num(term[1], env) * num(term[2], env)
        return s
    if h == 'Mul':
        p = num(t[1], env)
        for term in t[2:]:
            e = num(term[2], env)
            if e.denominator != 1:
                raise Unmodelled('fractional power')
            b = num(term[1], env)
            if b == 0 and e < 0:
                raise Unmodelled('division by zero')
            p *= b ** int(e)
        return p
    if h == 'Pow':
        e = num(t[2], env)
        b = num(t[1], env)
        if e.denominator != 1 or (b == 0 and e < 0):
            raise Unmodelled('power')
        return b ** int(e)
    raise Unmodelled(h)


def truth(t, env):
    h = t[0]
    if h == 'BooleanAtom':
        return t[1] == 'true'
    if h == 'And':
        return all(truth(x, env) for x in t[1:])
    if h == 'Or':
        return any(truth(x, env) for x in t[1:])
    if h == 'Not':
        return not truth(t[1], env)
    if h == 'Xor':
        return sum(truth(x, env) for x in t[1:]) % 2 == 1
    if h == 'StrictLessThan':
        return num(t[1], env) < num(t[2], env)
    if h == 'LessThan':
        return num(t[1], env) <= num(t[2], env)
    if h == 'Equality':
        return num(t[1], env) == num(t[2], env)
    if h == 'Unequality':
        return num(t[1], env) != num(t[2], env)
    if h == 'Contains':
        s = c27.decode_set(t[2])
        if s is None:
            raise Unmodelled('set')
        return c27.member(s, ('q', num(t[1], env)))
    raise Unmodelled(h)


def pw_value(t, env):
    """value of a dumped expression that may be a Piecewise: ('v', Fraction) or ('undef',)"""
    if t[0] == 'Piecewise':
        for i in range(1, len(t), 2):
            if truth(t[i + 1], env):
                return pw_value(t[i], env)
        return ('undef',)
    return ('v', num(t, env))


def nodes(f):
    return 1 + (sum(nodes(x) for x in f[1:]) if f[0] not in ('rel', 'in', 'const') else 0)


def f_variants(f):
    if f[0] in ('rel', 'in', 'const'):
        return []
    out = list(f[1:])
    if f[0] != 'not' and len(f) > 3:
        out += [f[:i] + f[i + 1:] for i in range(1, len(f))]
    for i in range(1, len(f)):
        out += [f[:i] + (v,) + f[i + 1:] for v in f_variants(f[i])]
    return out


def f_shape(f):
    if f[0] == 'rel':
        return 'rel'
    if f[0] == 'in':
        return 'in'
    if f[0] == 'const':
        return 'const'
    ch = sorted(f_shape(x) for x in f[1:])
    return '%s(%s)' % (f[0], ','.join(ch))


def first_mismatch(f, tree):
    """-> None | (env, want, got) ; raises Unmodelled"""
    ps = probe_values(f)
    for xv, yv in itertools.product(ps, ps):
        env = dict(x=xv, y=yv)
        want = f_val(f, env)
        got = truth(tree, env)
        if want != got:
            return env, want, got
    return None


class C(Check):
    prop = 'C28'

    def run(self):
        rng = self.rng
        self.rule = ('boolean formulas (depth <= 3, 2-4 operands per connective) over a pool of 2-5 atoms and their differently-written negations: relational atoms '
                     'a*x+b*y+c (Lt|Le|Gt|Ge|Eq|Ne) a\'*x+b\'*y+c\' with rational constants, membership atoms Contains(x|y, interval / finite set / number set / '
                     'union), true/false; built through logical_and/or/not/xor/nand/nor/xnor; the returned tree is evaluated by the monitor under every '
                     'assignment of (x, y) from the exact probe set (all thresholds, midpoints, outside points; 100-900 assignments per formula) and compared '
                     'with the formula asked for.  Piecewise: 2-4 (expression, condition) branches over the same atoms, value of the returned tree vs first '
                     'true branch.  Non-trivial = formula with >= 2 distinct atoms and >= 2 connectives')
        cases, meta = [], {}
        for k in range(self.q(6000, 200000)):
            base = [atom(rng) for _ in range(rng.choice((2, 3, 3, 4, 5)))]
            pool = base + [complement_atom(a, rng) for a in base if rng.random() < 0.5]
            f = formula(rng, rng.choice((1, 2, 2, 3)), pool)
            stmts = [('emit', f_recipe(f))]
            cid = 'f%d' % k
            cases.append((cid, stmts))
            meta[cid] = ('bool', f, stmts)
        for k in range(self.q(2500, 80000)):
            base = [atom(rng) for _ in range(rng.choice((2, 3)))]
            pool = base + [complement_atom(a, rng) for a in base if rng.random() < 0.4]
            nb = rng.choice((2, 2, 3, 4))
            branches = []
            for j in range(nb):
                cond = formula(rng, rng.choice((0, 0, 1)), pool) if j < nb - 1 or rng.random() < 0.3 else ('const', True)
                branches.append((lin(rng), cond))
            stmts = [('emit', ('piecewise',) + tuple((lin_recipe(e), f_recipe(cd)) for e, cd in branches))]
            cid = 'p%d' % k
            cases.append((cid, stmts))
            meta[cid] = ('pw', branches, stmts)
        res, reps = run_cases('asan', cases, tag='c28', timeout=30)
        check_process_reports(self, reps)
        self.seen = set()
        cand = []
        for cid, (kind, f, stmts) in meta.items():
            r = res.get(cid)
            if r is None:
                self.inconclusive += 1
                continue
            self.note_asserts(r)
            prog = [render(s) for s in stmts]
            if r.status == 'crashed':
                self.viol(dict(crash_key(r), clause='crash', what=kind), dict(program=prog, crash=r.crash, config='asan'))
                continue
            st = r.s(0)
            if r.status != 'ok' or st is None:
                self.inconclusive += 1
                continue
            if st.st != 'ok':
                self.count('declined:%s:%s' % (kind, str(getattr(st, 'ty', '')).split('::')[-1]))
                continue
            tree = st.v['t']
            try:
                if kind == 'bool':
                    mm = first_mismatch(f, tree)
                    self.evaluations += 1
                    if nodes(f) >= 3:
                        self.nontriv(prog[0])
                    if mm is not None:
                        cand.append((f, tree, mm, st.v['s']))
                    elif len(self.samples) < 4 and nodes(f) >= 4 and tree[0] != 'BooleanAtom':
                        self.sample(dict(asked=prog[0][:300], returned=st.v['s'][:200], assignments_checked=len(probe_values(f)) ** 2))
                else:
                    self.judge_pw(f, tree, prog, st.v['s'])
            except Unmodelled as ex:
                self.count('unmodelled:' + str(ex).split(' ')[0])
        self.shrink_and_report(cand)
        self.min_evals = 4000

    def viol(self, key, wit):
        ks = str(sorted(key.items(), key=str))
        if ks in self.seen:
            return
        self.seen.add(ks)
        self.violation(key, wit)

    def judge_pw(self, branches, tree, prog, s):
        f_all = ('and',) + tuple(cd for _, cd in branches)
        ps = probe_values(f_all + tuple(('rel', 'Eq', e, (R(0), R(0), R(0))) for e, _ in branches))
        self.evaluations += 1
        self.nontriv(prog[0])
        for xv, yv in itertools.product(ps, ps):
            env = dict(x=xv, y=yv)
            want = ('undef',)
            for e, cd in branches:
                if f_val(cd, env):
                    want = ('v', lin_val(e, env))
                    break
            got = pw_value(tree, env)
            if want != got:
                self.viol(dict(clause='piecewise', branches=len(branches), defined=want[0] == 'v', got_defined=got[0] == 'v'),
                          dict(program=prog, returned=s, assignment={k: str(v) for k, v in env.items()}, expected=str(want), got=str(got), config='asan'))
                return

    def shrink_and_report(self, cand):
        """fresh-process confirmation + shrinking (batched), then report by the shape of the minimal formula"""
        buckets = {}
        for f, tree, mm, s in cand:
            b = f_shape(f)
            if b not in buckets or nodes(f) < nodes(buckets[b][0]):
                buckets[b] = (f, mm, s)
        self.count('candidates', len(cand))
        cur = [[f, mm, s] for f, mm, s in sorted(buckets.values(), key=lambda t: nodes(t[0]))[:self.q(40, 200)]]
        for rnd in range(12):
            cases, owner = [], {}
            for i, (f, mm, s) in enumerate(cur):
                vs = ([f] if rnd == 0 else []) + sorted(f_variants(f), key=nodes)[:40]
                for j, vf in enumerate(vs):
                    cid = 'v%d_%d' % (i, j)
                    cases.append((cid, [('emit', f_recipe(vf))]))
                    owner[cid] = (i, vf)
            if not cases:
                break
            res, _ = run_cases('asan', cases, tag='c28s', timeout=30)
            best = {}
            confirmed = set()
            for cid, (i, vf) in owner.items():
                r = res.get(cid)
                if r is None or r.status != 'ok' or r.s(0) is None or r.s(0).st != 'ok':
                    continue
                try:
                    mm = first_mismatch(vf, r.s(0).v['t'])
                except Unmodelled:
                    continue
                if mm is None:
                    continue
                if vf == cur[i][0]:
                    confirmed.add(i)
                    continue
                if i not in best or nodes(vf) < nodes(best[i][0]):
                    best[i] = (vf, mm, r.s(0).v['s'])
            if rnd == 0:
                keep = []
                for i, c in enumerate(cur):
                    if i in confirmed or i in best:
                        keep.append((i, c))
                    else:
                        self.count('unconfirmed-candidates')
                        self.inconclusive += 1
                for i, c in keep:
                    if i in best:
                        c[0], c[1], c[2] = best[i]
                cur = [c for _, c in keep]
                continue
            if not best:
                break
            for i, b in best.items():
                cur[i][0], cur[i][1], cur[i][2] = b
        for f, mm, s in cur:
            env, want, got = mm
            self.viol(dict(clause='truth', shape=f_shape(f), library=got),
                      dict(program=[render(('emit', f_recipe(f)))], returned=s, assignment={k: str(v) for k, v in env.items()}, expected=want, got=got, config='asan'))
