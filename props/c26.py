"""C26 - matrix expressions preserve value; their predicates are sound.
Concrete matrix-expression trees (dense, diagonal, identity, zero leaves with Gaussian-rational entries) are built through matrix_add, matrix_mul,
hadamard_product, transpose, conjugate_matrix and trace; the monitor evaluates the recipe with its own dense arithmetic and evaluates the tree the
library returned with an independent tree evaluator; both concrete matrices must be equal entry by entry.  Every definite predicate answer
(zero, diagonal, symmetric, lower, upper, real, square, Toeplitz) and the size are compared with the concrete matrix."""
from fractions import Fraction
from vlib import gen
from vlib.gen import I, FR, CX
from vlib.core import Check, run_cases, run_one, check_process_reports, crash_key, render, Q
from .c24 import G, mmul, madd, transpose, ZERO, ONE

R = Fraction


class Unmodelled(Exception):
    pass


def rnd_entry(rng, cplx):
    r = rng.random()
    if r < 0.3:
        return G(0)
    if r < 0.75 or not cplx:
        return G(R(rng.randint(-5, 5), rng.choice((1, 1, 1, 2, 3))))
    return G(R(rng.randint(-3, 3)), R(rng.randint(-3, 3), rng.choice((1, 2))))


def leaf(rng, r, c, cplx):
    """-> (recipe, concrete matrix) of size r x c"""
    k = rng.random()
    if r == c and k < 0.22:
        d = [rnd_entry(rng, cplx) for _ in range(r)]
        return ('diagonal_matrix',) + tuple(x.recipe() for x in d), [[d[i] if i == j else ZERO for j in range(r)] for i in range(r)]
    if r == c and k < 0.34:
        return ('identity_matrix', I(r)), [[ONE if i == j else ZERO for j in range(r)] for i in range(r)]
    if k < 0.42:
        return ('zero_matrix', I(r), I(c)), [[ZERO] * c for _ in range(r)]
    fam = rng.random()
    M = [[rnd_entry(rng, cplx) for _ in range(c)] for _ in range(r)]
    if r == c and fam < 0.12:          # symmetric
        M = [[M[min(i, j)][max(i, j)] for j in range(c)] for i in range(r)]
    elif r == c and fam < 0.22:        # lower / upper triangular
        lo = rng.random() < 0.5
        M = [[M[i][j] if ((i >= j) if lo else (i <= j)) else ZERO for j in range(c)] for i in range(r)]
    elif fam < 0.32:                   # Toeplitz
        d = {k2: rnd_entry(rng, cplx) for k2 in range(-r, c + 1)}
        M = [[d[j - i] for j in range(c)] for i in range(r)]
    elif r == c and fam < 0.38:        # dense but diagonal
        M = [[M[i][j] if i == j else ZERO for j in range(c)] for i in range(r)]
    return ('immutable_dense_matrix', r, c) + tuple(x.recipe() for row in M for x in row), M


def expr(rng, r, c, depth, cplx):
    """-> (recipe, concrete value) of a matrix expression of size r x c"""
    if depth <= 0 or rng.random() < 0.25:
        return leaf(rng, r, c, cplx)
    op = rng.choice(('add', 'add', 'mul', 'mul', 'mul', 'had', 'transpose', 'conj'))
    if op == 'add' or op == 'had':
        parts = [expr(rng, r, c, depth - 1, cplx) for _ in range(rng.choice((2, 2, 3)))]
        val = parts[0][1]
        for _, v in parts[1:]:
            val = madd(val, v) if op == 'add' else [[val[i][j] * v[i][j] for j in range(c)] for i in range(r)]
        return ('matrix_add' if op == 'add' else 'hadamard_product',) + tuple(p for p, _ in parts), val
    if op == 'mul':
        n = rng.choice((2, 2, 3))
        dims = [r] + [rng.choice((1, 2, 3)) for _ in range(n - 1)] + [c]
        parts = [expr(rng, dims[i], dims[i + 1], depth - 1, cplx) for i in range(n)]
        val = parts[0][1]
        for _, v in parts[1:]:
            val = mmul(val, v)
        return ('matrix_mul',) + tuple(p for p, _ in parts), val
    if op == 'transpose':
        p, v = expr(rng, c, r, depth - 1, cplx)
        return ('mx_transpose', p), transpose(v)
    p, v = expr(rng, r, c, depth - 1, cplx)
    return ('mx_conjugate', p), [[x.conj() for x in row] for row in v]


# ------------------------------------------------------------------ independent evaluation of the returned tree
def gnum(t):
    h = t[0]
    if h == 'Integer':
        return G(int(t[1]))
    if h == 'Rational':
        return G(R(int(t[1]), int(t[2])))
    if h == 'Complex':
        a, b = t[1].split('/'), t[2].split('/')
        return G(R(int(a[0]), int(a[1])), R(int(b[0]), int(b[1])))
    raise Unmodelled('entry ' + h)


def mval(t, env=None):
    """concrete matrix (list of rows of G) of a dumped matrix expression; env: MatrixSymbol name -> concrete matrix"""
    h = t[0]
    if h == 'MatrixSymbol':
        if env is None or t[1] not in env:
            raise Unmodelled('MatrixSymbol')
        return env[t[1]]
    if h == 'ImmutableDenseMatrix':
        r, c = int(t[1]), int(t[2])
        es = [gnum(x) for x in t[3:]]
        if len(es) != r * c:
            raise Unmodelled('entry count')
        return [es[i * c:(i + 1) * c] for i in range(r)]
    if h == 'DiagonalMatrix':
        d = [gnum(x) for x in t[1:]]
        return [[d[i] if i == j else ZERO for j in range(len(d))] for i in range(len(d))]
    if h == 'IdentityMatrix':
        n = int(gnum(t[1]).a)
        return [[ONE if i == j else ZERO for j in range(n)] for i in range(n)]
    if h == 'ZeroMatrix':
        r, c = int(gnum(t[1]).a), int(gnum(t[2]).a)
        return [[ZERO] * c for _ in range(r)]
    if h == 'MatrixAdd':
        vs = [mval(x, env) for x in t[1:]]
        out = vs[0]
        for v in vs[1:]:
            if len(v) != len(out) or len(v[0]) != len(out[0]):
                raise Unmodelled('shape mismatch inside MatrixAdd')
            out = madd(out, v)
        return out
    if h == 'HadamardProduct':
        vs = [mval(x, env) for x in t[1:]]
        out = vs[0]
        for v in vs[1:]:
            out = [[out[i][j] * v[i][j] for j in range(len(out[0]))] for i in range(len(out))]
        return out
    if h == 'MatrixMul':
        scalar = ONE
        mats = []
        for x in t[1:]:
            if x[0] in ('Integer', 'Rational', 'Complex'):
                scalar = scalar * gnum(x)
            else:
                mats.append(mval(x, env))
        out = mats[0]
        for v in mats[1:]:
            if len(out[0]) != len(v):
                raise Unmodelled('shape mismatch inside MatrixMul')
            out = mmul(out, v)
        return [[scalar * x for x in row] for row in out]
    if h == 'Transpose':
        return transpose(mval(t[1], env))
    if h == 'ConjugateMatrix':
        return [[x.conj() for x in row] for row in mval(t[1], env)]
    raise Unmodelled(h)


def predicates(M):
    r, c = len(M), len(M[0])
    sq = r == c
    out = dict(zero=all(x.iszero() for row in M for x in row), real=all(x.b == 0 for row in M for x in row), square=sq,
               toeplitz=all(M[i][j] == M[i - 1][j - 1] for i in range(1, r) for j in range(1, c)))
    if sq:
        out.update(diagonal=all(M[i][j].iszero() for i in range(r) for j in range(c) if i != j),
                   symmetric=all(M[i][j] == M[j][i] for i in range(r) for j in range(c)),
                   lower=all(M[i][j].iszero() for i in range(r) for j in range(c) if j > i),
                   upper=all(M[i][j].iszero() for i in range(r) for j in range(c) if j < i))
    else:
        out['symmetric'] = False
    return out


PRED = ('zero', 'real', 'symmetric', 'square', 'diagonal', 'lower', 'upper', 'toeplitz')


def tops(e):
    return e[0] if isinstance(e, tuple) else '?'


class C(Check):
    prop = 'C26'

    def run(self):
        rng = self.rng
        self.rule = ('matrix-expression trees (depth <= 3, sizes 1-3 x 1-3) over ImmutableDenseMatrix (random, symmetric, triangular, Toeplitz, diagonal-shaped), '
                     'DiagonalMatrix, IdentityMatrix, ZeroMatrix leaves with rational / Gaussian-rational entries, combined by matrix_add, matrix_mul (chains of 2-3 '
                     'with compatible inner sizes), hadamard_product, transpose, conjugate_matrix, trace; value of the returned tree (independent tree evaluator) vs '
                     'dense evaluation of the recipe, entry by entry; size and the eight predicates vs the concrete matrix (a definite answer must be right, '
                     'indeterminate is never a violation); expressions with a MatrixSymbol operand are driven for crashes and for definite predicate answers; '
                     'non-trivial = at least two operations')
        cases, meta = [], {}
        for k in range(self.q(5000, 150000)):
            r, c = rng.choice((1, 2, 2, 3, 3)), rng.choice((1, 2, 2, 3, 3))
            if rng.random() < 0.5:
                c = r
            cplx = rng.random() < 0.3
            depth = rng.choice((0, 1, 1, 2, 2, 3))
            e, val = expr(rng, r, c, depth, cplx)
            stmts = [('let', 'm', e), ('emit', '$m'), ('emit', ('mx_size', '$m'))] + [('emit', ('mx_is_' + p, '$m')) for p in PRED]
            if r == c:
                stmts.append(('emit', ('mx_trace', '$m')))
            cid = 'm%d' % k
            cases.append((cid, stmts))
            meta[cid] = ('concrete', e, val, stmts, depth)
        for k in range(self.q(600, 15000)):
            n = rng.choice((2, 3))
            e1, _ = expr(rng, n, n, 1, False)
            Xs = ('matrix_symbol', Q('X'))
            e = rng.choice((('matrix_add', Xs, e1), ('matrix_mul', Xs, e1), ('matrix_mul', e1, Xs), ('hadamard_product', Xs, e1), ('mx_transpose', ('matrix_add', e1, Xs)),
                            ('matrix_add', Xs, ('zero_matrix', I(n), I(n))), ('matrix_mul', Xs, ('identity_matrix', I(n))), ('matrix_mul', ('zero_matrix', I(n), I(n)), Xs)))
            stmts = [('let', 'm', e), ('emit', '$m')] + [('emit', ('mx_is_' + p, '$m')) for p in PRED]
            cid = 's%d' % k
            cases.append((cid, stmts))
            meta[cid] = ('symbolic', e, n, stmts, 1)
        # assertions are recorded but do not throw: the values a release build returns are judged (the assertion events themselves belong to C03)
        res, reps = run_cases('asan', cases, tag='c26', timeout=60, env_extra={'SYMENGINE_VERIF_ASSERT': 'continue'})
        check_process_reports(self, reps)
        self.seen = set()
        for cid, (kind, e, val, stmts, depth) in meta.items():
            r = res.get(cid)
            if r is None:
                self.inconclusive += 1
                continue
            self.note_asserts(r)
            prog = [render(s) for s in stmts]
            if r.status == 'crashed':
                idx = len(r.stmts)
                self.viol(dict(crash_key(r), clause='crash', top=tops(e), kind=kind), dict(program=prog[:1] + ([prog[idx]] if 0 < idx < len(prog) else []), crash=r.crash, config='asan'))
                continue
            if r.status != 'ok' or r.s(0) is None:
                self.inconclusive += 1
                continue
            if r.s(0).st != 'ok':
                self.count('declined-construction:' + str(getattr(r.s(0), 'ty', '')).split('::')[-1])
                continue
            if kind == 'symbolic':
                self._n = val
                # a definite answer about an expression with an unknown operand X must hold for every X: try three instances
                st1 = r.s(1)
                if st1 is None or st1.st != 'ok':
                    self.inconclusive += 1
                    continue
                self.evaluations += 1
                for inst_name, inst in self.instances(e):
                    try:
                        M = mval(st1.v['t'], {'X': inst})
                    except Unmodelled as ex:
                        self.count('unmodelled:' + str(ex))
                        break
                    want = predicates(M)
                    for j, p in enumerate(PRED):
                        ps = r.s(2 + j)
                        if ps is None or ps.st != 'ok' or ps.v == 'indet' or p not in want:
                            continue
                        if (ps.v == 'true') != want[p]:
                            self.viol(dict(clause='predicate-with-symbol', pred=p, answer=ps.v, result_node=st1.v['t'][0], instance=inst_name),
                                      dict(program=[prog[0], prog[2 + j]], returned=st1.v['s'][:300], X=str(inst), value_for_X=str(M)[:300], config='asan'))
                continue
            st = r.s(1)
            if st is None or st.st != 'ok':
                self.inconclusive += 1
                continue
            try:
                got = mval(st.v['t'])
            except Unmodelled as ex:
                self.count('unmodelled:' + str(ex))
                continue
            self.evaluations += 1
            if depth >= 2:
                self.nontriv(prog[0])
            if got != val:
                dif = [(i, j, repr(val[i][j]), repr(got[i][j])) for i in range(min(len(val), len(got))) for j in range(min(len(val[0]), len(got[0]))) if val[i][j] != got[i][j]][:3]
                self.viol(dict(clause='value', top=tops(e), shape_ok=(len(got) == len(val) and len(got[0]) == len(val[0]))),
                          dict(program=prog[:1], returned=st.v['s'][:300], expected=str(val)[:300], differences=str(dif), config='asan'))
                continue
            # size
            sz = r.s(2)
            if sz is not None and sz.st == 'ok':
                try:
                    if any(not isinstance(x, dict) or 't' not in x for x in sz.v['e']):
                        raise Unmodelled('size not known to the library')
                    g = (int(gnum(sz.v['e'][0]['t']).a), int(gnum(sz.v['e'][1]['t']).a))
                    self.evaluations += 1
                    if g != (len(val), len(val[0])):
                        self.viol(dict(clause='size', top=tops(e)), dict(program=[prog[0], prog[2]], library=str(g), expected=str((len(val), len(val[0]))), config='asan'))
                except Unmodelled:
                    self.count('size-not-numeric')
            want = predicates(val)
            for j, p in enumerate(PRED):
                ps = r.s(3 + j)
                if ps is None or ps.st != 'ok':
                    continue
                if ps.v == 'indet':
                    self.count('indeterminate:' + p)
                    continue
                if p not in want:
                    self.count('convention-not-judged:' + p)
                    continue
                self.evaluations += 1
                if (ps.v == 'true') != want[p]:
                    self.viol(dict(clause='predicate', pred=p, answer=ps.v, result_node=st.v['t'][0]),
                              dict(program=[prog[0], prog[3 + j]], returned=st.v['s'][:300], concrete=str(val)[:300], config='asan'))
            if len(val) == len(val[0]):
                tr = r.s(3 + len(PRED))
                if tr is not None and tr.st == 'ok':
                    try:
                        g = gnum(tr.v['t'])
                        self.evaluations += 1
                        w = sum((val[i][i] for i in range(len(val))), ZERO)
                        if g != w:
                            self.viol(dict(clause='trace', top=tops(e)), dict(program=[prog[0], prog[3 + len(PRED)]], library=repr(g), expected=repr(w), config='asan'))
                    except Unmodelled:
                        self.count('trace-unevaluated')
            if len(self.samples) < 4 and depth >= 2 and len(val) >= 2:
                self.sample(dict(expr=prog[0][:250], returned=st.v['s'][:200], predicates_checked=len(PRED)))
        self.min_evals = 10000

    def instances(self, e):
        n = self._n
        gen_ = [[G(R(2 + 3 * i + j, 1 + ((i + 2 * j) % 3)), R(1 + i - j)) for j in range(n)] for i in range(n)]
        return (('generic', gen_), ('zero', [[ZERO] * n for _ in range(n)]), ('identity', [[ONE if i == j else ZERO for j in range(n)] for i in range(n)]))

    def viol(self, key, wit):
        ks = str(sorted(key.items(), key=str))
        if ks in self.seen:
            return
        self.seen.add(ks)
        self.violation(key, wit)
