"""C36 - algebraic rewriting transformations preserve value: as_numer_denom, as_real_imag, rewrite_as_exp/sin/cos, expand_as_exp,
trig_to_sqrt, conjugate.  Spec side is always the library's own input tree; result side the returned tree(s)."""
from fractions import Fraction
from vlib import gen, oracle_e
from vlib.gen import I, FR, CX, S, K, X, Y, Z
from vlib.core import render
from ._vp import VPCheck

TRIG = ['sin', 'cos', 'tan', 'cot', 'sec', 'csc']
HYP = ['sinh', 'cosh', 'tanh', 'coth', 'sech', 'csch']
ITRIG = ['asin', 'acos', 'atan', 'acot', 'asec', 'acsc']
IHYP = ['asinh', 'acosh', 'atanh', 'acoth', 'asech', 'acsch']
OTHER = ['exp', 'log', 'sqrt', 'abs', 'gamma', 'erf', 'sign', 'conjugate', 'loggamma', 'lambertw', 'erfc', 'floor', 'ceiling']


def frac_expr(rng, depth):
    """nested fractions and rational powers"""
    if depth <= 0 or rng.random() < 0.15:
        # every leaf (hence every sub-expression built with + * / **) is positive at positive real points, which is the domain the property names
        return rng.choice((X, Y, Z, I(2), I(3), FR(Fraction(2, 3)), FR(Fraction(5, 7)), K('pi'), ('exp', X), ('cosh', Y)))
    r = rng.random()
    sub = lambda: frac_expr(rng, depth - 1)
    if r < 0.25:
        return ('div', sub(), sub())
    if r < 0.45:
        return ('add', sub(), sub())
    if r < 0.6:
        return ('mul', sub(), sub())
    if r < 0.75:
        return ('pow', sub(), rng.choice((I(-1), I(-2), I(2), FR(Fraction(1, 2)), FR(Fraction(-1, 2)), FR(Fraction(-3, 2)), I(3), ('neg', Y), FR(Fraction(2, 3)), Y)))
    if r < 0.85:
        return ('mul', rng.choice((I(-1), I(-3), FR(Fraction(-1, 2)))), sub()) if depth >= 3 and rng.random() < 0.0 else ('add', sub(), I(1))
    return ('div', I(1), ('add', ('div', I(1), sub()), ('div', I(1), sub())))


def _has_root_of_left_half_plane_base(r):
    """True if the recipe contains a non-integer rational power of a base that is not a plain number literal and whose value has a
    negative real part: as_real_imag then goes through atan2(im, re) with non-Number operands in quadrant II/III (recorded C08 defect)."""
    if not (isinstance(r, tuple) and r and isinstance(r[0], str)):
        return False
    if r[0] in ('sqrt', 'cbrt') or (r[0] == 'pow' and r[2][0] == 'rat'):
        base = r[1]
        if base[0] not in ('int', 'rat', 'cpx'):
            try:
                v = oracle_e.evaluate(base, {}, 30)
                if (v.real if hasattr(v, 'real') else v) < 0:
                    return True
            except Exception:
                pass
    return any(_has_root_of_left_half_plane_base(a) for a in r[1:] if isinstance(a, tuple))


def num_expr(rng, depth):
    if depth <= 0 or rng.random() < 0.2:
        r = rng.random()
        if r < 0.3:
            return I(rng.choice((2, 3, -2, 5, -8, 10, -64, 4)))
        if r < 0.5:
            return FR(rng.choice((Fraction(1, 2), Fraction(-2, 3), Fraction(27, 8), Fraction(-5, 4))))
        if r < 0.85:
            a, b = rng.choice(gen.GAUSS + [(2, 1), (-1, -1), (0, 2), (Fraction(1, 2), Fraction(-1, 3))])
            return CX(a, b)
        return rng.choice((K('pi'), K('E'), K('I')))
    r = rng.random()
    sub = lambda: num_expr(rng, depth - 1)
    if r < 0.4:
        return (rng.choice(TRIG + HYP + ['exp', 'sqrt', 'abs']), sub())
    if r < 0.6:
        return ('add', sub(), sub())
    if r < 0.8:
        return ('mul', sub(), sub())
    return ('pow', sub(), rng.choice((I(2), I(-1), I(3), FR(Fraction(1, 2)), FR(Fraction(1, 3)), FR(Fraction(2, 3)), FR(Fraction(-3, 2)), I(-2))))


class C(VPCheck):
    prop = 'C36'
    max_shrink = 3
    max_confirm = 30

    def run(self):
        rng = self.rng
        self.rule = ('inputs: arithmetic over the 24 trig/hyperbolic functions and inverses, nested fractions (1/(1/x+1/y), x**(-y), rational powers of '
                     'fractions), complex coefficients, sin(acos(x)) families; each transformation judged by value against the library input tree: '
                     'as_numer_denom (n/d at positive real points + no top-level negative exponent left), as_real_imag (re + I*im at positive real '
                     'points, re and im real-valued), rewrite_as_exp/sin/cos, expand_as_exp, trig_to_sqrt, conjugate (vs mpmath conj) at generic '
                     'complex points; non-trivial = the transformation returned something structurally different from its input')
        items = []
        n = self.q(6000, 160000)
        for k in range(n):
            r = rng.random()
            if r < 0.25:
                e = frac_expr(rng, rng.choice((2, 3, 3)))
                op = 'as_numer_denom'
            elif r < 0.45:
                # as_real_imag is defined on numeric expressions only (symbols raise NotImplemented)
                e = num_expr(rng, rng.choice((1, 2, 2, 3)))
                op = 'as_real_imag'
            elif r < 0.75:
                e = gen.rand_arith(rng, rng.choice((1, 2, 2)), unary=TRIG + HYP + ITRIG + IHYP, p_unary=0.45)
                op = rng.choice(('rewrite_as_exp', 'rewrite_as_sin', 'rewrite_as_cos', 'expand_as_exp'))
            elif r < 0.87:
                f, g = rng.choice(TRIG), rng.choice(ITRIG)
                inner = rng.choice((X, ('div', X, I(2)), ('mul', X, Y), FR(Fraction(1, 3)), ('add', X, FR(Fraction(1, 4)))))
                e = (f, (g, inner))
                if rng.random() < 0.4:
                    e = (rng.choice(('add', 'mul')), e, gen.rand_arith(rng, 1, unary=TRIG, p_unary=0.5))
                op = 'trig_to_sqrt'
            else:
                e = gen.rand_arith(rng, rng.choice((1, 2)), unary=TRIG + HYP + ITRIG + IHYP + OTHER, p_unary=0.5)
                op = 'conjugate'
            items += self.make(e, op, 'e%d' % k)
        self.vp_execute(items, 'c36')
        self.min_evals = 2000

    def make(self, e, op, cid):
        base = dict(recipe=e, label=op)
        def rebuild_part(part):
            def rb(r2):
                for cand in self.make(r2, op, 'k'):
                    if cand['part'] == part:
                        return cand
                return None
            return rb
        rebuild = rebuild_part('n/d' if op == 'as_numer_denom' else 'whole')
        if op == 'as_numer_denom':
            stmts = [('let', 'e', e), ('emit', '$e'), ('emit', ('as_numer_denom', '$e'))]
            return [dict(base, cid=cid, stmts=stmts, at=2, spec=None, kind='pos', part='n/d', rebuild=rebuild)]
        if op == 'as_real_imag':
            stmts = [('let', 'e', e), ('emit', '$e'), ('emit', ('as_real_imag', '$e'))]
            return [dict(base, cid=cid + p, stmts=stmts, at=2, spec=None, kind='pos', part=p, rebuild=rebuild_part(p))
                    for p in ('sum', 're', 'im')]
        stmts = [('let', 'e', e), ('emit', '$e'), ('emit', (op, '$e'))]
        return [dict(base, cid=cid, stmts=stmts, at=2, spec=None, kind='complex' if op != 'trig_to_sqrt' else 'complex', part='whole', rebuild=rebuild)]

    def result_tree(self, it, st):
        r = it['_res']
        se = r.s(1)
        if se is None or se.st != 'ok':
            return None
        te = se.v['t']
        it['_input'] = te
        part = it['part']
        if part == 'n/d':
            n, d = st.v['e'][0]['t'], st.v['e'][1]['t']
            it['spec'] = te
            it['_nd'] = (n, d)
            it['nontrivial'] = d != ['Integer', '1']
            return ['div', n, d]
        if part in ('sum', 're', 'im'):
            re, im = st.v['e'][0]['t'], st.v['e'][1]['t']
            it['nontrivial'] = im != ['Integer', '0']
            if part == 'sum':
                it['spec'] = te
                return ['add', re, ['mul', ['const', 'I'], im]]
            x = re if part == 're' else im
            it['spec'] = x
            return ['conjugate', x]        # real-valued  <=>  equal to its conjugate
        if not oracle_e.symbols_of(te):
            return None      # rewrites / conjugates of symbol-free inputs are constants that may sit exactly on a branch cut: not judged
        if it['label'] == 'conjugate':
            it['spec'] = ['conjugate', te]
        else:
            it['spec'] = te
        it['nontrivial'] = st.v['t'] != te
        return st.v['t']

    def extra_checks(self, it, r):
        if it['part'] == 'n/d':
            for name, t in zip(('numerator', 'denominator'), it['_nd']):
                bad = None
                if t[0] == 'Pow' and t[2][0] in ('Integer', 'Rational') and int(t[2][1]) < 0:
                    bad = 'power with negative exponent'
                if t[0] == 'Mul':
                    for term in t[2:]:
                        if term[2][0] in ('Integer', 'Rational') and int(term[2][1]) < 0:
                            bad = 'factor with negative exponent'
                if bad:
                    self.violation(dict(clause='negative-exponent-left', where=name),
                                   dict(program=[render(s) for s in it['stmts']], result=[x['s'] for x in r.s(2).v['e']], problem=bad, config='asan'))

    def key_of(self, it, detail):
        k = VPCheck.key_of(self, it, detail)
        k['part'] = it['part']
        if it['label'] == 'as_real_imag':
            sh = k.get('shape') or ''
            rc = it['recipe']
            rs = gen.recipe_str(rc)
            # containment: an outer function applied to a wrong inner part is wrong too, so the recorded families are matched on any
            # expression containing their trigger (cot of a non-real argument; exp / power with a non-rational exponent)
            if '(cot' in rs:
                k['family'] = 'cot-imaginary-sign'
                k.pop('shape'); k.pop('part')
            elif '(exp' in rs:
                k['family'] = 'real-base-complex-exponent'
                k.pop('shape'); k.pop('part')
            elif _has_root_of_left_half_plane_base(rc):
                k['family'] = 'polar-form-inherits-atan2-quadrant'
                k.pop('shape'); k.pop('part')
        return k
