"""C18 - parsing arbitrary input is safe, and parser reuse is stateless.
Inputs: printed forms of random expressions (grammar coverage), mutations of them (character insert / delete / replace / duplicate / swap from
the token alphabet, deep nesting, long digit strings, stray operators), and raw byte strings; for parse(), parse() with convert_xor off
and parse_sbml().  The oracle for safety is the ASan+UBSan / signal / hang monitor: returning an expression or throwing a library
exception are both correct.  Statelessness: every input sequence is also pushed through ONE Parser / SbmlParser object; each result must equal
the result of a fresh parser on the same input (same tree, or an exception in both)."""
from vlib import gen
from vlib.core import Check, run_cases, run_one, check_process_reports, crash_key, render, Q
from . import c19, c44

ALPHA = list('()+-*/^,.0123456789eEIxyzw_ \t<>=!&|~@#$%[]{}:;?\\\'"') + ['**', '<=', '>=', '==', '!=', 'sin(', 'sqrt(', 'pi', 'oo', 'zoo', 'nan', 'e-', '1e', 'E+', '0x', 'Piecewise(', 'Eq(', 'max(', ')))', '(((']
SEEDS = ['x+y*2', 'sin(x)**2 + cos(x)**2', '(x + 1)/(y - 2)**3', '1e-5*x', '2^3^2', '-x**-2', 'f(x, y, z)', 'sqrt(2)*I', 'Piecewise((x, x<1), (y, True))', 'x<=y', 'And(x<1, y>2)',
         '1.5e+300*x', '00012', '.5', '5.', 'a_b1', 'max(x, y, 3)', 'atan2(y, x)', 'gamma(x)', '~(x<1)', 'x | y & z', '3!', 'x**y**z', '((((x))))', '1/3 + 2/3*I', 'pi*E*oo', 'beta(x,y)']


def mutate(rng, s):
    s = list(s)
    for _ in range(rng.choice((1, 1, 2, 3, 6))):
        k = rng.random()
        i = rng.randrange(len(s) + 1)
        if k < 0.35:
            s[i:i] = list(rng.choice(ALPHA))
        elif k < 0.55 and s:
            del s[min(i, len(s) - 1)]
        elif k < 0.75 and s:
            s[min(i, len(s) - 1)] = rng.choice(ALPHA)[0]
        elif k < 0.85 and s:
            j = min(len(s), i + rng.choice((1, 2, 5)))
            s[i:i] = s[i:j] * rng.choice((1, 2, 20))
        elif k < 0.92:
            s[i:i] = list(rng.choice(('(' * rng.choice((5, 50, 500)), '-' * rng.choice((3, 40, 400)), '9' * rng.choice((30, 400)), '1e' + '9' * rng.choice((3, 8, 30)),
                                      '**' * 5, 'sin(' * rng.choice((10, 200)))))
        elif len(s) > 1:
            a, b = rng.randrange(len(s)), rng.randrange(len(s))
            s[a], s[b] = s[b], s[a]
    return ''.join(s)


class C(Check):
    prop = 'C18'

    def run(self):
        rng = self.rng
        self.rule = ('inputs: str() / sbml() of random expressions over every node class, 27 hand-written grammar seeds, 1-6 mutations each (token insert / delete / '
                     'replace / duplicate x20 / swap, 500-deep parentheses and function nests, 400-digit numbers, huge exponents), raw random bytes incl. NUL and '
                     'bytes >= 0x80; through parse (convert_xor on/off), parse_sbml and through one reused Parser / SbmlParser object for sequences of 6 '
                     'inputs (valid and invalid interleaved); violation = sanitizer report / signal / abort / confirmed hang, or a reused parser answering '
                     'differently from a fresh one; non-trivial = mutated input')
        # phase 1: printed forms from the library
        cases = []
        for k in range(self.q(300, 3000)):
            e = c19.expr(rng, rng.choice((1, 2, 3))) if rng.random() < 0.6 else c44.sb_expr(rng, 2)
            cases.append(('p%d' % k, [('let', 'e', e), ('emit', ('str', '$e')), ('emit', ('sbml', '$e'))]))
        res, _ = run_cases('asan', cases, tag='c18p', timeout=30)
        corpus = list(SEEDS)
        for cid, _ in cases:
            r = res.get(cid)
            if r is None or r.status != 'ok':
                continue
            for i in (1, 2):
                s = r.s(i)
                if s is not None and s.st == 'ok' and isinstance(s.v, str) and 0 < len(s.v) < 300:
                    corpus.append(s.v)
        self.count('corpus', len(corpus))
        # phase 2
        cases, meta = [], {}
        for k in range(self.q(1500, 80000)):
            seq = []
            for _ in range(6):
                r = rng.random()
                base = rng.choice(corpus)
                if r < 0.25:
                    seq.append(base)
                elif r < 0.9:
                    seq.append(mutate(rng, base))
                else:
                    seq.append(bytes(rng.randrange(256) for _ in range(rng.choice((1, 4, 30, 200)))).decode('latin-1'))
            sb = rng.random() < 0.3
            one = ('parse_sbml',) if sb else ('parse',)
            cx = rng.random() < 0.8
            st = [('let', 'p', ('sbml_parser_new',) if sb else ('parser_new',))]
            for s in seq:
                fresh = (one[0], Q(s)) if sb else ('parse', Q(s), cx)
                st.append(('emit', fresh))
                st.append(('emit', ('sbml_parser_parse', '$p', Q(s)) if sb else ('parser_parse', '$p', Q(s), cx)))
            cid = 'q%d' % k
            cases.append((cid, st))
            meta[cid] = (seq, st, one[0])
        res, reps = run_cases('asan', cases, tag='c18', timeout=30)
        check_process_reports(self, reps)
        seen = set()

        def viol(key, wit):
            ks = str(sorted(key.items(), key=str))
            if ks not in seen:
                seen.add(ks)
                self.violation(key, wit)
        for cid, (seq, st, fn) in meta.items():
            r = res.get(cid)
            if r is None:
                self.inconclusive += 1
                continue
            self.note_asserts(r)
            prog = [render(s) for s in st]
            if r.status == 'timeout' and self.cov.get('timeouts-re-run-alone', 0) >= 8:
                # the sequential re-runs are capped (each may take two minutes); further time-outs of this run stay undecided
                self.count('timed-out (not re-run, inconclusive)')
                self.inconclusive += 1
                continue
            if r.status == 'timeout':
                self.count('timeouts-re-run-alone')
                r2, _ = run_one('asan', cid, st, timeout=120)
                if r2 is not None and r2.status != 'timeout':
                    self.count('slow-under-load (finished when re-run alone)')
                    r = r2
            if r.status in ('crashed', 'timeout'):
                at = min(len(r.stmts), len(st) - 1)
                ck = crash_key(r) if r.status == 'crashed' else {}
                inp = seq[(at - 1) // 2] if at >= 1 else ''
                kind = ck.get('kind', 'hang')
                rep = str((r.crash or {}).get('report', '')) if isinstance(r.crash, dict) else ''
                reason = 'gmp-overflow-abort' if 'gmp: overflow in mpz type' in rep else ('cannot-allocate' if 'Cannot allocate memory' in rep or 'failed to allocate' in rep else None)
                if "not point to an object of type 'Boolean'" in str(kind):
                    reason = 'unchecked-cast-to-Boolean'
                viol(dict(clause='crash' if r.status == 'crashed' else 'hang', kind=kind if reason is None else reason, frames=ck.get('frames', [])[:2] if reason is None else [], parser=fn),
                     dict(program=[prog[0], prog[at]] if at >= 1 else prog[:1], input_length=len(inp), crash=r.crash, config='asan'))
                continue
            if r.status != 'ok':
                self.inconclusive += 1
                continue
            for j, s in enumerate(seq):
                a, b = r.s(1 + 2 * j), r.s(2 + 2 * j)
                if a is None or b is None:
                    continue
                self.evaluations += 1
                self.nontriv(s[:40])
                self.count('accepted' if a.st == 'ok' else 'rejected:' + str(getattr(a, 'ty', '')).split('::')[-1])
                same = (a.st == b.st) and (a.st != 'ok' or a.v.get('t') == b.v.get('t'))
                if not same:
                    viol(dict(clause='reuse', parser=fn, fresh=a.st, reused=b.st, position=j if j < 2 else 'later'),
                         dict(program=prog[:3 + 2 * j], input=s[:200], fresh=(a.v.get('s') if a.st == 'ok' else str(getattr(a, 'ty', ''))), reused=(b.v.get('s') if b.st == 'ok' else str(getattr(b, 'ty', ''))), config='asan'))
                    break
            if len(self.samples) < 4:
                self.sample(dict(inputs=[s[:60] for s in seq[:3]], parser=fn))
        self.min_evals = 5000
