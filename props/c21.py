"""C21 - univariate polynomial arithmetic (UIntPoly, URatPoly, UExprPoly).
Reference X: coefficient dictionaries over Python ints / Fractions (schoolbook).  Coefficients are chosen to stress the Kronecker
substitution used by UIntPoly multiplication (sizes around powers of two, mixed signs, all -(2**k))."""
from fractions import Fraction
from vlib import gen
from vlib.gen import I, FR, S, X, Y, Z
from vlib.core import Check, run_cases, run_one, check_process_reports, crash_key, render


def padd(a, b):
    r = dict(a)
    for k, v in b.items():
        r[k] = r.get(k, 0) + v
    return {k: v for k, v in r.items() if v != 0}


def pneg(a):
    return {k: -v for k, v in a.items()}


def pmul(a, b):
    r = {}
    for i, x in a.items():
        for j, y in b.items():
            r[i + j] = r.get(i + j, 0) + x * y
    return {k: v for k, v in r.items() if v != 0}


def ppow(a, n):
    r = {0: 1}
    for _ in range(n):
        r = pmul(r, a)
    return r


def peval(a, x):
    return sum(v * x ** k for k, v in a.items())


def pdiff(a):
    return {k - 1: v * k for k, v in a.items() if k > 0}


def pdivmod(a, b):
    """exact division test over Fractions: returns quotient dict or None"""
    a = {k: Fraction(v) for k, v in a.items()}
    q = {}
    db = max(b)
    while a and max(a) >= db:
        da = max(a)
        c = a[da] / b[db]
        q[da - db] = c
        for k, v in b.items():
            a[k + da - db] = a.get(k + da - db, 0) - c * v
        a = {k: v for k, v in a.items() if v != 0}
    return (q, a)


def dump_dict(t, kind):
    """dictionary of a dumped polynomial"""
    d = {}
    for m in t[2:]:
        e = int(m[1])
        if kind == 'uint':
            d[e] = int(m[2])
        elif kind == 'urat':
            a, b = gen.parse_q(m[2])
            d[e] = Fraction(a, b)
    return {k: v for k, v in d.items() if v != 0}


def coef_int(rng):
    r = rng.random()
    if r < 0.35:
        return rng.randint(-9, 9)
    if r < 0.6:
        k = rng.choice((15, 16, 31, 32, 33, 63, 64, 65, 127, 128))
        return rng.choice((1, -1)) * (2 ** k + rng.choice((-1, 0, 1)))
    if r < 0.8:
        return -(2 ** rng.choice((8, 31, 32, 63, 64, 100)))
    bits = rng.choice((20, 64, 130, 300))
    return rng.getrandbits(bits) * rng.choice((1, -1))


def rand_poly(rng, kind, allow_zero=True):
    if allow_zero and rng.random() < 0.06:
        return {}
    if rng.random() < 0.08:
        c = coef_int(rng) or 1
        return {0: c if kind == 'uint' else Fraction(c, rng.choice((1, 3, 7)))}
    deg = rng.choice((1, 2, 3, 5, 8, 12, 20, 30))
    dense = rng.random() < 0.5
    d = {}
    for k in range(deg + 1):
        if dense or rng.random() < 0.3 or k == deg:
            c = coef_int(rng)
            if kind == 'urat':
                c = Fraction(c if abs(c) < 2 ** 70 else rng.randint(-50, 50), rng.choice((1, 2, 3, 5, 12, 2 ** 20)))
            if c != 0:
                d[k] = c
    if rng.random() < 0.2:            # alternating signs
        d = {k: (abs(v) if k % 2 == 0 else -abs(v)) for k, v in d.items()}
    return d


def mk(kind, d):
    if kind == 'uint':
        return ('uintpoly', X) + tuple((k, str(v)) for k, v in sorted(d.items()))
    return ('uratpoly', X) + tuple((k, FR(Fraction(v))) for k, v in sorted(d.items()))


class C(Check):
    prop = 'C21'

    def run(self):
        rng = self.rng
        self.rule = ('pairs of UIntPoly / URatPoly (degree 0-30, sparse and dense, zero polynomial and constants as either operand, coefficients from 1 to 300 '
                     'bits around powers of two with mixed / alternating signs) through add, sub, neg, mul, pow (0-6), divides (quotient*divisor == dividend and '
                     'the boolean), eval, multieval, get_coeff, degree, diff, as_symbolic -> from_basic round trip, UIntPoly -> URatPoly; UExprPoly arithmetic with '
                     'symbolic coefficients judged through expand; every result dictionary compared with schoolbook arithmetic over Python ints / Fractions; '
                     'non-trivial = both operands non-constant or one operand zero')
        cases = []
        meta = {}
        for k in range(self.q(3000, 100000)):
            kind = rng.choice(('uint', 'uint', 'urat'))
            a, b = rand_poly(rng, kind), rand_poly(rng, kind)
            if rng.random() < 0.25 and a:
                b = pmul(a, rand_poly(rng, kind, False) or {0: 1})        # exact multiple: divides(a, b) must succeed
            n = rng.choice((0, 1, 2, 3, 6)) if (len(a) <= 4 or max(a or {0: 0}) <= 6) else rng.choice((0, 1, 2))
            x0 = rng.choice((0, 1, -1, 2, -3, 10, 2 ** 40 + 1)) if kind == 'uint' else Fraction(rng.randint(-9, 9), rng.choice((1, 2, 3)))
            p = kind
            stmts = [('let', 'a', mk(kind, a)), ('let', 'b', mk(kind, b)),
                     ('emit', (p + '_add', '$a', '$b')), ('emit', (p + '_sub', '$a', '$b')), ('emit', (p + '_mul', '$a', '$b')), ('emit', (p + '_neg', '$a')),
                     ('emit', (p + '_pow', '$a', n)), ('emit', (p + '_divides', '$a', '$b')),
                     ('emit', (p + '_eval', '$a', str(x0) if kind == 'uint' else FR(x0))), ('emit', (p + '_degree', '$a')),
                     ('emit', ('diff', '$a', X)), ('emit', (p + '_from_basic', (p + '_as_symbolic', '$a'), X)),
                     ('emit', (p + '_get_coeff', '$a', rng.choice((0, 1, 2, 5, 31)))), ('emit', (p + '_mul', '$a', '$a'))]
            if kind == 'uint':
                stmts += [('emit', ('uint_multieval', '$a', '0', '1', '-2', '7')), ('emit', ('urat_from_uint', '$a'))]
            cid = 'c%d' % k
            cases.append((cid, stmts))
            meta[cid] = (kind, a, b, n, x0, stmts)
        # UExprPoly with symbolic coefficients: judged through expand + eq
        for k in range(self.q(600, 20000)):
            def ep():
                return ('uexprpoly', X) + tuple((e, rng.choice((Y, I(2), ('add', Y, I(1)), FR(Fraction(1, 2)), ('mul', I(-3), Y), ('pow', Y, I(2)))))
                                                for e in sorted(set(rng.sample(range(0, 6), rng.choice((1, 2, 3))))))
            stmts = [('let', 'a', ep()), ('let', 'b', ep()),
                     ('emit', ('eq', ('expand', ('uexpr_as_symbolic', ('uexpr_mul', '$a', '$b'))), ('expand', ('mul', ('uexpr_as_symbolic', '$a'), ('uexpr_as_symbolic', '$b'))))),
                     ('emit', ('eq', ('expand', ('uexpr_as_symbolic', ('uexpr_add', '$a', '$b'))), ('expand', ('add', ('uexpr_as_symbolic', '$a'), ('uexpr_as_symbolic', '$b'))))),
                     ('emit', ('eq', ('expand', ('uexpr_as_symbolic', ('uexpr_sub', '$a', '$b'))), ('expand', ('sub', ('uexpr_as_symbolic', '$a'), ('uexpr_as_symbolic', '$b'))))),
                     ('emit', ('eq', ('expand', ('uexpr_as_symbolic', ('uexpr_pow', '$a', 3))), ('expand', ('pow', ('uexpr_as_symbolic', '$a'), I(3))))),
                     ('emit', ('eq', ('expand', ('uexpr_eval', '$a', ('add', Y, I(2)))), ('expand', ('subs', ('uexpr_as_symbolic', '$a'), (X, ('add', Y, I(2))))))),
                     ('emit', ('eq', ('expand', ('uexpr_as_symbolic', ('diff', '$a', X))), ('expand', ('diff', ('uexpr_as_symbolic', '$a'), X))))]
            cid = 'x%d' % k
            cases.append((cid, stmts))
            meta[cid] = ('uexpr', None, None, None, None, stmts)
        res, reps = run_cases('asan', cases, tag='c21', timeout=60)
        check_process_reports(self, reps)
        seen = set()
        for cid, (kind, a, b, n, x0, stmts) in meta.items():
            r = res.get(cid)
            if r is None:
                self.inconclusive += 1
                continue
            self.note_asserts(r)
            prog = [render(s) for s in stmts]
            if r.status == 'crashed':
                key = dict(crash_key(r), kind=kind)
                if str(key) not in seen:
                    seen.add(str(key))
                    self.violation(key, dict(program=prog, crash=r.crash, config='asan'))
                continue
            if r.status != 'ok':
                self.inconclusive += 1
                continue
            probs = []
            if kind == 'uexpr':
                names = ['mul', 'add', 'sub', 'pow', 'eval', 'diff']
                for j, nm in enumerate(names):
                    st = r.s(2 + j)
                    if st is None:
                        continue
                    self.evaluations += 1
                    if st.st == 'ok' and st.v is not True:
                        probs.append(('uexpr_' + nm, 'not equal to the expanded symbolic computation'))
                    elif st.st not in ('ok', 'exc'):
                        self.inconclusive += 1
                self.nontriv(prog[0] + prog[1])
            else:
                if (len(a) > 1 and len(b) > 1) or not a or not b:
                    self.nontriv(prog[0] + prog[1])
                want = [('add', padd(a, b)), ('sub', padd(a, pneg(b))), ('mul', pmul(a, b)), ('neg', pneg(a)), ('pow', ppow(a, n))]
                for j, (nm, w) in enumerate(want):
                    st = r.s(2 + j)
                    self.evaluations += 1
                    if st is None or st.st != 'ok':
                        probs.append((nm, 'status %s %s' % (getattr(st, 'st', None), getattr(st, 'ty', ''))))
                        continue
                    got = dump_dict(st.v['t'], kind)
                    if got != {k: v for k, v in w.items() if v != 0}:
                        dif = [(k, str(w.get(k)), str(got.get(k))) for k in sorted(set(w) | set(got)) if w.get(k, 0) != got.get(k, 0)][:3]
                        probs.append((nm, 'coefficients differ at (exp, expected, got): %s' % dif))
                st = r.s(7)      # divides
                self.evaluations += 1
                # divides_upoly(a, b): does a divide b; the quotient returned is b / a
                if not a:
                    if st is not None and st.st == 'ok' and st.v and st.v[0] is True and b:
                        probs.append(('divides', 'reports that the zero polynomial divides a non-zero one'))
                elif st is not None and st.st == 'ok':
                    q, rem = pdivmod(b, a) if b else ({}, {})
                    exact = (not rem) and (kind == 'urat' or all(Fraction(v).denominator == 1 for v in q.values()))
                    if bool(st.v[0]) != exact:
                        probs.append(('divides', 'boolean %s but exact divisibility is %s' % (st.v[0], exact)))
                    elif st.v[0] and len(st.v) > 1:
                        qd = dump_dict(st.v[1]['t'], kind)
                        if pmul(qd, a) != {k: v for k, v in b.items() if v != 0}:
                            probs.append(('divides', 'quotient * divisor != dividend'))
                elif st is not None and st.st == 'exc':
                    self.count('declined:divides')
                st = r.s(8)
                self.evaluations += 1
                if st is not None and st.st == 'ok':
                    gv = gen.exact_value(st.v['t'])
                    if gv is None or gv[1] != peval(a, x0):
                        probs.append(('eval', 'got %s expected %s' % (st.v['s'], peval(a, x0))))
                st = r.s(9)
                if st is not None and st.st == 'ok' and st.v != (max(a) if a else 0):
                    probs.append(('degree', 'got %r expected %r' % (st.v, max(a) if a else 0)))
                st = r.s(10)
                self.evaluations += 1
                if st is not None and st.st == 'ok' and st.v['t'][0] in ('UIntPoly', 'URatPoly'):
                    if dump_dict(st.v['t'], kind) != pdiff(a):
                        probs.append(('diff', 'derivative coefficients differ'))
                st = r.s(11)
                self.evaluations += 1
                if st is not None and st.st == 'ok' and dump_dict(st.v['t'], kind) != a:
                    probs.append(('from_basic', 'as_symbolic -> from_basic changed the polynomial'))
                st = r.s(13)
                self.evaluations += 1
                if st is not None and st.st == 'ok' and dump_dict(st.v['t'], kind) != pmul(a, a):
                    probs.append(('mul-self', 'a*a with both operands the same object differs'))
                if kind == 'uint':
                    st = r.s(14)
                    if st is not None and st.st == 'ok':
                        got = [int(x['t'][1]) for x in st.v['e']]
                        if got != [peval(a, v) for v in (0, 1, -2, 7)]:
                            probs.append(('multieval', 'got %s' % got[:4]))
                    st = r.s(15)
                    if st is not None and st.st == 'ok' and dump_dict(st.v['t'], 'urat') != {k: Fraction(v) for k, v in a.items()}:
                        probs.append(('urat_from_uint', 'conversion changed the coefficients'))
            for nm, what in probs:
                key = dict(clause='value', op=nm, kind=kind, zero_operand=(kind != 'uexpr' and (not a or not b)))
                if str(key) in seen:
                    continue
                seen.add(str(key))
                self.violation(key, dict(program=prog, problem=what, config='asan'))
            if not probs and len(self.samples) < 4 and kind != 'uexpr' and a and b and len(a) > 2:
                self.sample(dict(a=str(sorted(a.items()))[:200], b=str(sorted(b.items()))[:200], ops_checked=13))
        self.conversions()
        self.min_evals = 5000


# ------------------------------------------------------------------ expression -> polynomial -> expression (value oracle)
W_ = S('w')


def conv_case(rng):
    """-> (kind, generator recipe, expression recipe, label)"""
    from .c09 import poly_recipe
    r = rng.random()
    if r < 0.25:
        return 'uint', X, poly_recipe(rng, rng.choice((2, 3)), 1), 'integer polynomial expression'
    if r < 0.35:
        e = ('add',) + tuple(('mul', FR(Fraction(rng.randint(-9, 9), rng.choice((1, 2, 3, 7)))), ('pow', ('add', X, I(rng.randint(-2, 2))), I(rng.randint(0, 4)))) for _ in range(rng.choice((2, 3))))
        return 'urat', X, e, 'rational polynomial expression'
    parts_pool = [Y, Z, W_, ('mul', I(2), Y), ('mul', I(-1), Z), FR(Fraction(1, 2)), ('mul', Y, Z)]
    coefs = [I(1), Y, I(2), ('add', Y, I(1)), ('mul', I(-3), Z), ('sin', Y)]

    def parts():
        return rng.sample(parts_pool, rng.choice((0, 0, 1, 2, 2, 3)))
    if r < 0.7:            # generator x, exponents n + symbolic parts
        g = X
        def term():
            ex = [I(rng.randint(0, 4))] + parts()
            rng.shuffle(ex)
            return ('mul', rng.choice(coefs), ('pow', X, ('add',) + tuple(ex) if len(ex) > 1 else ex[0]))
        lbl = 'generator x, symbolic exponent parts'
    elif r < 0.88:         # generator 2**x
        g = ('pow', I(2), X)
        def term():
            ex = [('mul', I(rng.randint(1, 3)), X)] + parts()
            rng.shuffle(ex)
            return ('mul', rng.choice(coefs), ('pow', I(2), ('add',) + tuple(ex) if len(ex) > 1 else ex[0]))
        lbl = 'generator 2**x'
    else:                  # generator x**(1/2)
        g = ('pow', X, FR(Fraction(1, 2)))
        def term():
            return ('mul', rng.choice(coefs), ('pow', X, FR(Fraction(rng.randint(0, 7), 2))))
        lbl = 'generator x**(1/2)'
    e = ('add',) + tuple(term() for _ in range(rng.choice((1, 2, 3))))
    k = rng.random()
    if k < 0.2:
        e = ('mul', e, ('add', g, rng.choice(coefs)))
    elif k < 0.3:
        e = ('pow', e, I(2))
    return 'uexpr', g, e, lbl


def conversions(self):
    from . import _value
    rng = self.rng
    cases, meta = [], {}
    for k in range(self.q(2500, 60000)):
        kind, g, e, lbl = conv_case(rng)
        stmts = [('let', 'e', e), ('emit', '$e'), ('let', 'p', (kind + '_from_basic', '$e', g)), ('emit', (kind + '_as_symbolic', '$p')), ('emit', '$p')]
        cid = 'v%d' % k
        cases.append((cid, stmts))
        meta[cid] = (kind, lbl, stmts)
    res, reps = run_cases('asan', cases, tag='c21v', timeout=60)
    check_process_reports(self, reps)
    items = []
    seen = set()
    for cid, (kind, lbl, stmts) in meta.items():
        r = res.get(cid)
        if r is None:
            self.inconclusive += 1
            continue
        self.note_asserts(r)
        if r.status == 'crashed':
            key = dict(crash_key(r), kind=kind, clause='crash', op='from_basic')
            if str(key) not in seen:
                seen.add(str(key))
                self.violation(key, dict(program=[render(s) for s in stmts], crash=r.crash, config='asan'))
            continue
        if r.status != 'ok' or r.s(1) is None or r.s(1).st != 'ok':
            self.inconclusive += 1
            continue
        if r.s(3) is None or r.s(3).st != 'ok':
            self.count('conversion-declined:' + lbl)
            continue
        items.append((cid, r.s(1).v['t'], r.s(3).v['t'], {'x': 'pos', 'y': 'pos', 'z': 'pos', 'w': 'pos'}))
    for cid, v, d in _value.judge_items(items, self.seed, kind='pos'):
        kind, lbl, stmts = meta[cid]
        if v == 'inconclusive':
            self.inconclusive += 1
            continue
        self.evaluations += 1
        self.count('converted:' + lbl)
        if kind == 'uexpr':
            self.nontriv(render(stmts[0]))
        if v == 'diff':
            key = dict(clause='value', op='from_basic->as_symbolic', kind=kind, input=lbl)
            if str(key) in seen:
                continue
            seen.add(str(key))
            r = res[cid]
            self.violation(key, dict(program=[render(s) for s in stmts], expr=r.s(1).v['s'], back=r.s(3).v['s'], detail=str(d)[:300], config='asan'))


C.conversions = conversions
