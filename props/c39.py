"""C39 - structural queries are accurate: free_symbols (with the binding rule of Subs), has_symbol, function_symbols, atoms, coeff.
Reference: the monitor's own walk of the executor's tree dump (public accessors only)."""
import json
from fractions import Fraction
from vlib import gen, oracle_e
from vlib.gen import I, FR, CX, S, K, X, Y, Z
from vlib.core import Check, run_cases, run_one, check_process_reports, crash_key, render
from .c09 import poly_recipe

W = S('w')
UN = ['sin', 'cos', 'exp', 'log', 'sqrt', 'abs', 'gamma', 'atan', 'erf', 'conjugate', 'sign', 'floor']


def walk(t, out):
    """collect: symbols (free, by the binding rules), all symbol nodes, function-symbol nodes, constants"""
    if not isinstance(t, list) or not t or not isinstance(t[0], str):
        return set()
    h = t[0]
    if h in ('Symbol', 'Dummy'):
        out['allsyms'].add(json.dumps(t))
        return {json.dumps(t)}
    if h == 'Constant':
        out['consts'].add(json.dumps(t))
        return set()
    if h == 'Subs':
        # [Subs, arg, [Vars, v...], [Point, p...]] : the variables are bound inside arg, the points are ordinary occurrences
        inner = walk(t[1], out)
        bound = set()
        for v in t[2][1:]:
            bound |= walk(v, dict(out, allsyms=set()))      # the binder itself is not an occurrence
        free = inner - bound
        for p in t[3][1:]:
            free |= walk(p, out)
        out['has_binder'] = True
        return free
    if h == 'FunctionSymbol':
        out['funcs'].add(json.dumps(t))
    free = set()
    for a in t[1:]:
        if isinstance(a, list):
            if a and a[0] == 'T':
                free |= walk(a[1], out) | walk(a[2], out)
            else:
                free |= walk(a, out)
    return free


def rand_struct(rng, depth):
    syms = [X, Y, Z, W]
    if depth <= 0 or rng.random() < 0.15:
        return rng.choice(syms + [I(2), FR(Fraction(1, 2)), K('pi'), K('E'), CX(0, 1)])
    r = rng.random()
    sub = lambda: rand_struct(rng, depth - 1)
    if r < 0.2:
        return (rng.choice(UN), sub())
    if r < 0.35:
        return ('func', rng.choice(('f', 'g', 'h')),) + tuple(sub() for _ in range(rng.choice((1, 2, 3))))
    if r < 0.45:
        v = rng.choice(syms)
        return ('derivative', ('func', rng.choice(('f', 'g')), v, rng.choice([q for q in syms if q != v])), v)   # (Derivative::create needs a canonical argument)
    if r < 0.58:
        v = rng.choice(syms)
        point = rng.choice((rng.choice(syms), ('pow', v, I(2)), ('add', rng.choice(syms), I(1)), I(0), ('mul', rng.choice(syms), rng.choice(syms))))
        body = rng.choice((('derivative', ('func', 'f', v), v), ('derivative', ('func', 'g', v, rng.choice([q for q in syms if q != v])), v)))
        return ('subs_node', body, (v, point))
    if r < 0.66:
        v = rng.choice(syms)
        return ('subs', ('diff', ('func', 'f', ('mul', I(2), v), rng.choice(syms)), v), (v, rng.choice((rng.choice(syms), ('add', v, I(1)), I(3)))))
    if r < 0.72:
        return (rng.choice(('Lt', 'Le', 'Eq', 'Ne')), sub(), sub())
    if r < 0.78:
        return ('piecewise', (sub(), ('Lt', rng.choice(syms), I(0))), (sub(), K('true')))
    if r < 0.9:
        return (rng.choice(('add', 'mul')), sub(), sub(), sub()) if rng.random() < 0.4 else (rng.choice(('add', 'mul', 'sub', 'div')), sub(), sub())
    return ('pow', sub(), rng.choice((I(2), I(-1), FR(Fraction(1, 2)), sub())))


def lpoly(rng):
    """expanded (Laurent) polynomial in x with symbolic coefficients"""
    terms = []
    for _ in range(rng.choice((2, 3, 4, 5))):
        c = rng.choice((Y, Z, I(3), ('mul', I(2), Y), ('add', Y, I(1)), ('sin', Z), FR(Fraction(-2, 3)), ('mul', Y, Z), ('pow', Y, I(2)), ('func', 'f', Y)))
        n = rng.choice((0, 1, 2, 3, 5, -1, -2, 1, 2))
        terms.append(('mul', c, ('pow', X, I(n))))
    return ('add',) + tuple(terms)


class C(Check):
    prop = 'C39'

    def run(self):
        rng = self.rng
        self.rule = ('expressions (depth 1-4) over arithmetic, 12 functions, undefined function symbols with 1-3 arguments, Derivative nodes, Subs nodes built '
                     'directly and produced by diff+subs (bound variable also occurring in the substitution point), relationals, Piecewise; free_symbols, '
                     'has_symbol (4 symbols), function_symbols, atoms<Symbol>, atoms<FunctionSymbol>, atoms<Constant> compared with the monitor walk of the '
                     'tree dump (binding rule: variables of Subs are bound in its expression, free in its points; Derivative binds nothing); polynomials '
                     'and Laurent polynomials in x with symbolic coefficients: sum coeff(p,x,n)*x**n over n = -3..29 must be eq to p; non-trivial = '
                     'expression with a function symbol, Derivative or Subs node')
        items = []
        for k in range(self.q(8000, 250000)):
            e = rand_struct(rng, rng.choice((1, 2, 3, 3, 4)))
            stmts = [('let', 'e', e), ('emit', '$e'), ('emit', ('free_symbols', '$e')), ('emit', ('function_symbols', '$e')), ('emit', ('atoms_symbol', '$e')),
                     ('emit', ('atoms_func', '$e')), ('emit', ('atoms_const', '$e'))] + [('emit', ('has_symbol', '$e', s)) for s in (X, Y, Z, W)]
            items.append(('e%d' % k, 'struct', e, stmts))
        for k in range(self.q(2000, 50000)):
            p = lpoly(rng) if rng.random() < 0.6 else poly_recipe(rng, 2, 2)
            rec = ('add',) + tuple(('mul', ('coeff', '$p', X, I(n)), ('pow', X, I(n))) for n in range(-3, 30))
            stmts = [('let', 'p', ('expand', p)), ('emit', '$p'), ('emit', ('eq', ('expand', rec), '$p')), ('emit', ('expand', rec))]
            items.append(('p%d' % k, 'coeff', p, stmts))
        res, reps = run_cases('asan', [(c, s) for c, _, _, s in items], tag='c39')
        check_process_reports(self, reps)
        seen = set()

        def viol(key, wit):
            ks = json.dumps(key, sort_keys=True)
            if ks in seen:
                return
            seen.add(ks)
            self.violation(key, wit)
        for cid, kind, e, stmts in items:
            r = res.get(cid)
            if r is None:
                self.inconclusive += 1
                continue
            self.note_asserts(r)
            prog = [render(s) for s in stmts]
            if r.status == 'crashed':
                viol(crash_key(r), dict(program=prog, crash=r.crash, config='asan'))
                continue
            if r.status != 'ok' or r.s(1) is None or r.s(1).st != 'ok':
                if r.s(0) is not None and r.s(0).st == 'exc':
                    self.count('declined-construction')
                else:
                    self.inconclusive += 1
                continue
            if kind == 'coeff':
                se = r.s(2)
                if se is None or se.st != 'ok':
                    self.count('declined-coeff')
                    continue
                self.evaluations += 1
                self.nontriv(prog[0])
                if se.v is not True:
                    viol(dict(clause='coeff-reconstruction'), dict(program=prog, p=r.s(1).v['s'], reconstructed=r.s(3).v['s'] if r.s(3) is not None and r.s(3).st == 'ok' else None, config='asan'))
                continue
            te = r.s(1).v['t']
            out = dict(allsyms=set(), funcs=set(), consts=set())
            free = walk(te, out)
            self.evaluations += 1
            if out['funcs'] or out.get('has_binder') or 'Derivative' in json.dumps(te):
                self.nontriv(prog[0])

            def got(i):
                st = r.s(i)
                if st is None or st.st != 'ok':
                    return None
                return {json.dumps(x['t']) for x in st.v['e']}
            fs = got(2)
            if fs is not None and fs != free:
                viol(dict(clause='free_symbols', binder=bool(out.get('has_binder')), extra=len(fs - free), missing=len(free - fs)),
                     dict(program=prog, expr=r.s(1).v['s'], library=sorted(fs), walk=sorted(free), config='asan'))
            fu = got(3)
            if fu is not None and fu != out['funcs']:
                viol(dict(clause='function_symbols', binder=bool(out.get('has_binder'))), dict(program=prog, expr=r.s(1).v['s'], library=sorted(fu), walk=sorted(out['funcs']), config='asan'))
            if not out.get('has_binder'):
                a1, a2, a3 = got(4), got(5), got(6)
                if a1 is not None and a1 != out['allsyms']:
                    viol(dict(clause='atoms<Symbol>'), dict(program=prog, expr=r.s(1).v['s'], library=sorted(a1), walk=sorted(out['allsyms']), config='asan'))
                if a2 is not None and a2 != out['funcs']:
                    viol(dict(clause='atoms<FunctionSymbol>'), dict(program=prog, expr=r.s(1).v['s'], library=sorted(a2), walk=sorted(out['funcs']), config='asan'))
                if a3 is not None and a3 != out['consts']:
                    viol(dict(clause='atoms<Constant>'), dict(program=prog, expr=r.s(1).v['s'], library=sorted(a3), walk=sorted(out['consts']), config='asan'))
            for j, s in enumerate(('x', 'y', 'z', 'w')):
                st = r.s(7 + j)
                if st is not None and st.st == 'ok':
                    want = json.dumps(['Symbol', s]) in free
                    if st.v != want:
                        viol(dict(clause='has_symbol', binder=bool(out.get('has_binder')), library=st.v),
                             dict(program=prog, expr=r.s(1).v['s'], symbol=s, library=st.v, walk=want, config='asan'))
            if len(self.samples) < 5 and out.get('has_binder'):
                self.sample(dict(expr=r.s(1).v['s'], free_symbols=sorted(json.loads(x)[1] for x in free)))
        self.min_evals = 3000
