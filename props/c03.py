"""C03 - every expression the API returns is in canonical form.
The library states its canonical-form invariants as SYMENGINE_ASSERT conditions in the constructors.  Hook H1 turns each failing assertion into a
recorded event (file, line, function, condition) and lets the call continue as a release build would.  This monitor drives the mixed API workloads
of _workload.py plus the focused generators of the other monitors with the hook in recording mode and reports every distinct assertion site that
fires; independently of the hook, every emitted tree is re-checked by the monitor's own structural rules (no zero terms or numeric keys in sums,
no integer power of a product, rationals in lowest terms, no 1**x or 0**number)."""
from vlib import gen
from vlib.core import Check, run_cases, check_process_reports, crash_key, render
from . import _workload, c19, c26, c27, c28, c31


def problems(t, out, path=''):
    """independent structural rules on a dumped tree"""
    if not isinstance(t, list) or not t or not isinstance(t[0], str):
        return
    h = t[0]
    if h == 'Rational':
        from math import gcd
        n, d = int(t[1]), int(t[2])
        if d <= 1 or gcd(abs(n), d) != 1:
            out.append(('rational-not-in-lowest-terms-or-integer', path))
    if h == 'Add':
        if len(t) < 3 or (len(t) == 3 and t[1] == ['Integer', '0']):
            out.append(('sum-with-fewer-than-two-terms', path))
        for term in t[2:]:
            k, c = term[1], term[2]
            if k[0] in ('Integer', 'Rational', 'Complex'):
                out.append(('numeric-key-in-sum', path))
            if c in (['Integer', '0'],):
                out.append(('zero-coefficient-in-sum', path))
    if h == 'Mul':
        if t[1] == ['Integer', '0']:
            out.append(('zero-coefficient-product', path))
        if len(t) < 3:
            out.append(('product-without-factors', path))
        for term in t[2:]:
            b, e = term[1], term[2]
            if e == ['Integer', '0']:
                out.append(('zero-exponent-in-product', path))
            if b[0] in ('Integer', 'Rational') and e[0] == 'Integer':
                out.append(('numeric-base-with-integer-exponent-in-product', path))
            if b[0] == 'Mul' and e[0] == 'Integer':
                out.append(('integer-power-of-product-in-product', path))
    if h == 'Pow':
        b, e = t[1], t[2]
        if e in (['Integer', '0'], ['Integer', '1']):
            out.append(('power-with-exponent-0-or-1', path))
        if b == ['Integer', '1'] or (b == ['Integer', '0'] and e[0] in ('Integer', 'Rational', 'Complex', 'RealDouble', 'ComplexDouble')):
            out.append(('power-with-base-1-or-0-to-a-number', path))
        if b[0] == 'Mul' and e[0] == 'Integer':
            out.append(('integer-power-of-product', path))
        if b[0] in ('Integer', 'Rational') and e[0] == 'Integer':
            out.append(('numeric-power-not-evaluated', path))
    for i, a in enumerate(t[1:]):
        if isinstance(a, list):
            if a and a[0] == 'T':
                problems(a[1], out, path + '/' + h)
                problems(a[2], out, path + '/' + h)
            else:
                problems(a, out, path + '/' + h)


class C(Check):
    prop = 'C03'

    def run(self):
        rng = self.rng
        self.rule = ('API programs of _workload.py (construction, arithmetic, functions, expand, diff, subs incl. oo / zoo / nan, simplify, rewrites, series, solve, sets, '
                     'logic, polynomials, parse(str(e)), loads(dumps(e)), matrix expressions) run in the assertion build with hook H1 recording instead of throwing; '
                     'violation = a library canonical-form assertion fired (reported per assertion site) or an emitted tree breaks one of the monitor\'s own '
                     'structural rules; non-trivial = program with at least 5 calls that all returned')
        cases, meta = [], {}
        for k in range(self.q(8000, 250000)):
            st = _workload.program(rng)
            cid = 'w%d' % k
            cases.append((cid, st))
            meta[cid] = st
        for k in range(self.q(1500, 40000)):
            r = rng.random()
            if r < 0.35:
                e, _ = c26.expr(rng, rng.choice((1, 2, 3)), rng.choice((1, 2, 3)), 2, rng.random() < 0.3)
            elif r < 0.6:
                e = c27.to_recipe(c27.expr(rng, 2))
            elif r < 0.8:
                e = c28.f_recipe(c28.formula(rng, 2, [c28.atom(rng) for _ in range(3)]))
            else:
                e = ('series_as_basic', c31.gen_any(rng, 2), gen.X, 6)
            st = [('emit', e)]
            cid = 'g%d' % k
            cases.append((cid, st))
            meta[cid] = st
        # products that collapse to a plain number while a sum is being expanded / built (surds, complex surds, float exponents)
        from vlib.gen import I as I_, FR as FR_, F as F_, K as K_, X as X_, Y as Y_
        from fractions import Fraction as Fr
        surds = [('pow', K_('I'), FR_(Fr(1, 2))), ('pow', I_(2), FR_(Fr(1, 2))), ('pow', ('cpx', ('int', '1'), ('int', '1')), FR_(Fr(1, 2))), ('pow', I_(3), FR_(Fr(1, 3))), ('pow', K_('I'), FR_(Fr(1, 3))),
                 ('pow', X_, F_(0.5)), ('pow', X_, FR_(Fr(1, 2))), ('pow', X_, F_(1.5)), ('pow', ('add', X_, I_(1)), FR_(Fr(1, 3))), ('exp', X_)]
        for k in range(self.q(600, 12000)):
            t = rng.choice(surds)
            u = rng.choice((t, ('pow', t, I_(-1)), ('pow', t, I_(2)), ('pow', t, I_(-2)), ('mul', I_(3), t), ('div', FR_(Fr(1, 2)), t)))
            other = rng.choice((Y_, ('add', Y_, I_(1)), ('sin', Y_), ('mul', I_(2), Y_), FR_(Fr(1, 3))))
            body = ('mul', t, ('add', u, other)) if rng.random() < 0.6 else ('mul', ('add', t, other), ('add', u, other))
            st = [('emit', rng.choice((('expand', body), ('expand', ('pow', ('add', t, other), I_(rng.choice((2, 3))))), ('add', ('mul', t, u), other), ('sub', ('mul', t, u), ('mul', u, t)))))]
            cid = 'c%d' % k
            cases.append((cid, st))
            meta[cid] = st
        res, reps = run_cases('asan', cases, tag='c03', timeout=30, env_extra={'SYMENGINE_VERIF_ASSERT': 'continue'})
        check_process_reports(self, reps)
        seen = set()
        for cid, st in meta.items():
            r = res.get(cid)
            if r is None:
                self.inconclusive += 1
                continue
            prog = [render(s) for s in st]
            self.evaluations += 1
            if r.status == 'ok' and len(st) >= 5:
                self.nontriv(prog[0][:60] + str(len(st)))
            for i in sorted(r.stmts):
                for a in (r.stmts[i].asserts or []):
                    self.assert_events.append(a)
                    key = dict(clause='assertion', file=str(a.get('file', '')).split('symengine/')[-1], func=a.get('func'), cond=str(a.get('cond'))[:120])
                    ks = str(sorted(key.items()))
                    if ks in seen:
                        continue
                    seen.add(ks)
                    self.violation(key, dict(program=(prog[:2] if i >= 2 else []) + [prog[i]], event=a, config='asan', env={'SYMENGINE_VERIF_ASSERT': 'continue'}))
            if r.status == 'crashed':
                continue        # memory-safety outcomes are C40's
            for i in range(len(st)):
                s = r.s(i)
                if s is None or s.st != 'ok' or not isinstance(s.v, dict) or 't' not in s.v:
                    continue
                out = []
                problems(s.v['t'], out)
                for what, path in out[:1]:
                    key = dict(clause='structure', rule=what)
                    ks = str(sorted(key.items()))
                    if ks in seen:
                        continue
                    seen.add(ks)
                    self.violation(key, dict(program=prog[:2] + [prog[i]], result=s.v.get('s', '')[:200], where=path, config='asan'))
            if len(self.samples) < 3 and r.status == 'ok' and len(st) >= 6:
                self.sample(dict(program=prog[:3], statements=len(st), assertion_events=len(r.asserts)))
        self.min_evals = 4000
