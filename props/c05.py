"""C05 - exact number arithmetic is correct and normalised.
Oracle X: Python Fractions / Gaussian rationals.  Observation: tree dump of the result."""
from fractions import Fraction
from vlib.core import Check, run_cases, run_one, check_process_reports, crash_key
from vlib import gen

OPS = [('add', 'add', 'nadd'), ('sub', 'sub', 'nsub'), ('mul', 'mul', 'nmul'), ('div', 'div', 'ndiv')]


def expected(op, a, b):
    if op == 'add':
        return gen.g_add(a, b)
    if op == 'sub':
        return gen.g_sub(a, b)
    if op == 'mul':
        return gen.g_mul(a, b)
    if op == 'div':
        r = gen.g_div(a, b)
        if r is None:
            return 'nan' if gen.g_iszero(a) else 'zoo'
        return r
    raise ValueError(op)


def unnormalised_recipe(rng, v):
    """Recipe for value v, sometimes with a common factor / negative denominator before normalisation."""
    if v[0] == 'q':
        q = v[1]
        if rng.random() < 0.4:
            g = rng.choice((2, 3, -1, -4, 6, 2 ** 70))
            return ('rat', str(q.numerator * g), str(q.denominator * g))
        return gen.FR(q)
    return gen.CX(v[1], v[2])


def judge(t, want):
    """t: result tree.  Returns list of problems."""
    num = gen.tree_number(t)
    if num is None:
        return ['result is not a number node: %s' % t[0]]
    if want == 'zoo':
        return [] if num == ('zoo',) else ['expected zoo, got %s' % (num,)]
    if want == 'nan':
        return [] if num == ('nan',) else ['expected nan, got %s' % (num,)]
    probs = gen.normalised_problems(t)
    got = gen.exact_value(t)
    if got is None:
        probs.append('expected exact %s, got %s' % (want, num[0]))
    elif gen.g_parts(got) != gen.g_parts(want):
        probs.append('wrong value: expected %s got %s' % (want, got))
    else:
        # kind must match normal form: integer when den 1, real when im == 0
        wr, wi = gen.g_parts(want)
        kind = num[0]
        if wi == 0 and kind == 'cpx':
            probs.append('complex kind for real value')
        if wi == 0 and wr.denominator == 1 and kind != 'int':
            probs.append('non-integer kind for integer value')
    return probs


def vclass(v):
    re, im = gen.g_parts(v)
    if im != 0:
        return 'complex'
    if re.denominator != 1:
        return 'rational'
    if re == 0:
        return 'zero'
    return 'integer' if abs(re) < 2 ** 62 else 'bigint'


class C(Check):
    prop = 'C05'

    def run(self):
        rng = self.rng
        self.rule = ('cases = (operand pair, all 4 binary ops through free functions and Number:: methods) or (base, integer exponent); '
                     'small-value table enumerated exhaustively, multi-limb operands random; non-trivial = result needed '
                     'normalisation (gcd reduction, kind change to integer/real, or zoo/nan)')
        # ---- small exhaustive table
        rats = sorted({Fraction(p, q) for p in range(-4, 5) for q in range(1, 5)})
        parts = sorted({Fraction(p, q) for p in range(-2, 3) for q in (1, 2)})
        vals = [('q', r) for r in rats] + [('c', a, b) for a in parts for b in parts if b != 0]
        cases = []
        meta = {}
        cid = 0
        full = self.tier == 'thorough' or True
        for a in vals:
            for b in vals:
                cid += 1
                ra, rb = gen.value_recipe(a), gen.value_recipe(b)
                stmts = [('let', 'a', ra), ('let', 'b', rb)]
                for op, f, m in OPS:
                    stmts.append(('emit', (f, '$a', '$b')))
                    stmts.append(('emit', (m, '$a', '$b')))
                cases.append(('p%d' % cid, stmts))
                meta['p%d' % cid] = ('pair', a, b)
        for a in vals:
            for n in range(-6, 7):
                cid += 1
                stmts = [('let', 'a', gen.value_recipe(a)), ('emit', ('pow', '$a', gen.I(n))), ('emit', ('npow', '$a', gen.I(n)))]
                cases.append(('w%d' % cid, stmts))
                meta['w%d' % cid] = ('pow', a, n)
        n_small = len(cases)
        # ---- random multi-limb
        nrand = self.q(4000, 80000)
        for _ in range(nrand):
            cid += 1
            a = gen.rand_exact_value(rng, big=True)
            b = gen.rand_exact_value(rng, big=True)
            if rng.random() < 0.1:
                b = ('q', Fraction(0))
            stmts = [('let', 'a', unnormalised_recipe(rng, a)), ('let', 'b', unnormalised_recipe(rng, b))]
            for op, f, m in OPS:
                stmts.append(('emit', (f, '$a', '$b')))
                stmts.append(('emit', (m, '$a', '$b')))
            cases.append(('p%d' % cid, stmts))
            meta['p%d' % cid] = ('pair', a, b)
        for _ in range(nrand // 4):
            cid += 1
            a = gen.rand_exact_value(rng, big=rng.random() < 0.5)
            if rng.random() < 0.3:
                a = rng.choice([('q', Fraction(0)), ('q', Fraction(1)), ('q', Fraction(-1)), ('c', Fraction(0), Fraction(1)),
                                ('c', Fraction(0), Fraction(-1))])
            n = rng.randint(-40, 40)
            stmts = [('let', 'a', unnormalised_recipe(rng, a)), ('emit', ('pow', '$a', gen.I(n))), ('emit', ('npow', '$a', gen.I(n)))]
            cases.append(('w%d' % cid, stmts))
            meta['w%d' % cid] = ('pow', a, n)
        res, reps = run_cases('asan', cases, tag='c05')
        check_process_reports(self, reps)
        self.exhaustive = True
        self.notes.append('small-value table: %d cases enumerated exhaustively; %d random multi-limb cases' % (n_small, len(cases) - n_small))
        progs = dict(cases)
        for cid_, m in meta.items():
            r = res.get(cid_)
            if r is None:
                continue
            self.note_asserts(r)
            if r.status != 'ok':
                if r.status == 'crashed':
                    self.violation(crash_key(r), dict(program=[gen.recipe_str(s) for s in progs[cid_]], crash=r.crash))
                else:
                    self.inconclusive += 1
                continue
            if m[0] == 'pair':
                _, a, b = m
                idx = 2
                for op, f, mm in OPS:
                    want = expected(op, a, b)
                    for route in (f, mm):
                        self._judge_stmt(r, idx, want, route, (a, b), progs[cid_])
                        idx += 1
            else:
                _, a, n = m
                want = gen.g_pow(a, n)
                for k, route in enumerate(('pow', 'npow')):
                    self._judge_stmt(r, 1 + k, want, route, (a, n), progs[cid_])

    def _judge_stmt(self, r, idx, want, route, operands, prog):
        st = r.s(idx)
        if st is None:
            self.inconclusive += 1
            return
        self.evaluations += 1
        self.count('route:' + route)
        if st.st == 'exc':
            if st.ty == 'SymEngine::NotImplementedError':
                self.count('declined:' + route)
                return
            self.violation(dict(clause='exception', route=route, ty=st.ty),
                           dict(operands=str(operands), msg=st.msg, program=[gen.recipe_str(s) for s in prog]))
            return
        if st.st == 'assert':
            # the library's own canonical-form assertion fired while building the result of exact arithmetic on valid
            # operands: the result is not in normal form (release builds return it silently)
            self.count('assert-hook')
            ev = (st.asserts or [{}])[0]
            self.violation(dict(clause='normal-form-assertion', route=route, where='%s:%s' % (ev.get('file'), ev.get('func'))),
                           dict(operands=str(operands), expected=str(want), assertion=ev, program=[gen.recipe_str(s) for s in prog], config='asan'))
            return
        if st.st != 'ok':
            self.inconclusive += 1
            return
        t = st.v['t']
        probs = judge(t, want)
        a = operands[0]
        cls = (vclass(a), vclass(operands[1]) if isinstance(operands[1], tuple) else 'exp')
        if want in ('zoo', 'nan') or gen.tree_number(t) and gen.tree_number(t)[0] != ('cpx' if cls[0] == 'complex' else 'x'):
            self.nontriv((route, str(operands)))
        self.sample(dict(route=route, operands=str(operands), result=st.v['s']))
        if probs:
            self.violation(dict(clause='value' if any('wrong' in p or 'expected' in p for p in probs) else 'normal-form',
                                route=route, classes=list(cls), problem=probs[0].split(':')[0]),
                           dict(operands=str(operands), expected=str(want), got=st.v['s'], tree=t, problems=probs,
                                program=[gen.recipe_str(s) for s in prog], config='asan'))
