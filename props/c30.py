"""C30 - equation solving returns exactly the solution set.
Polynomials are built from a known factorisation (rational roots, irreducible quadratics, repeated roots, zero leading coefficients, degree 0) and
handed to solve in expanded and in factored form, over the complex numbers and over the reals; every member of the returned set is evaluated by
the monitor's own evaluator (50 digits) and the set is compared with the roots known from the construction (or mpmath.polyroots for random
coefficients): every member must be a root (soundness) and every root must be a member (completeness).  Rational equations: roots of the
numerator minus the roots of the denominator.  Linear trigonometric equations: members of the returned image sets for n = -8..8 against the
closed-form solutions in a window.  linsolve: A*x == b in exact rational arithmetic."""
import itertools
from fractions import Fraction
import mpmath
from mpmath import mp, mpf, mpc
from vlib import gen, oracle_e
from vlib.gen import I, FR, K, X, Y, Z
from vlib.core import Check, run_cases, run_one, check_process_reports, crash_key, render
from . import _value

R = Fraction
TOL = mpf(10) ** -22


def pmul(a, b):
    out = [R(0)] * (len(a) + len(b) - 1)
    for i, x in enumerate(a):
        for j, y in enumerate(b):
            out[i + j] += x * y
    return out


def poly_recipe(cs):
    """expanded polynomial from coefficient list (lowest first)"""
    terms = []
    for k, c in enumerate(cs):
        if c:
            terms.append(FR(c) if k == 0 else ('mul', FR(c), X if k == 1 else ('pow', X, I(k))))
    if not terms:
        return I(0)
    return terms[0] if len(terms) == 1 else ('add',) + tuple(terms)


def rand_factors(rng, maxdeg):
    """-> list of factors [(coefficient list, exact roots or None)] with total degree <= maxdeg"""
    fs = []
    deg = 0
    while deg < maxdeg:
        r = rng.random()
        if r < 0.55:
            root = R(rng.randint(-6, 6), rng.choice((1, 1, 2, 3)))
            fs.append(([-root, R(1)], [root]))
            deg += 1
            if rng.random() < 0.25 and deg < maxdeg:      # repeated root
                fs.append(([-root, R(1)], [root]))
                deg += 1
        elif r < 0.9 and deg + 2 <= maxdeg:
            b, c = R(rng.randint(-4, 4)), R(rng.randint(-5, 5), rng.choice((1, 2)))
            fs.append(([c, b, R(1)], None))
            deg += 2
        else:
            break
        if rng.random() < 0.25:
            break
    return fs


def numeric_roots(cs):
    """distinct complex roots of the polynomial (coefficient list lowest first) at 60 digits"""
    cs = list(cs)
    while cs and cs[-1] == 0:
        cs.pop()
    if len(cs) <= 1:
        return []
    with mp.workdps(80):
        rs = mpmath.polyroots([mpf(c.numerator) / c.denominator for c in reversed(cs)], maxsteps=500, extraprec=400)
        # refine + cluster (multiple roots come out with reduced accuracy)
        out = []
        for r in rs:
            if not any(abs(r - o) < mpf(10) ** -12 * max(1, abs(r)) for o in out):
                out.append(r)
        return out


def exact_roots(factors):
    """distinct roots known from the construction (mpmath values at 80 digits)"""
    out = []
    with mp.workdps(80):
        for cs, roots in factors:
            if roots is not None:
                vals = [mpf(r.numerator) / r.denominator for r in roots]
            else:
                c, b = cs[0], cs[1]
                disc = b * b - 4 * c
                d = mpmath.sqrt(mpf(disc.numerator) / disc.denominator)
                bb = mpf(b.numerator) / b.denominator
                vals = [(-bb + d) / 2, (-bb - d) / 2]
            for v in vals:
                if not any(abs(v - o) < mpf(10) ** -40 for o in out):
                    out.append(v)
    return out


def member_values(t):
    """numeric values of the members of a (union of) FiniteSet / Intersection(Reals, FiniteSet) tree; None if the tree has another shape"""
    if t[0] == 'EmptySet':
        return []
    if t[0] == 'Union':
        out = []
        for x in t[1:]:
            v = member_values(x)
            if v is None:
                return None
            out += v
        return out
    if t[0] == 'Intersection' and len(t) == 3 and ['Reals'] in t[1:]:
        other = [x for x in t[1:] if x != ['Reals']]
        v = member_values(other[0]) if other else None
        if v is None:
            return None
        with mp.workdps(60):
            return [x for x in v if abs(mpmath.im(x)) < mpf(10) ** -30]
    if t[0] != 'FiniteSet':
        return None
    with mp.workdps(60):
        return [oracle_e.Evaluator({}).ev(x) for x in t[1:]]


def _solutions_of_tree(tree, factors):
    """the roots of the factors at which the expression the library was given is defined and zero (rational roots decided exactly)"""
    from .c28 import num as exact_num, Unmodelled
    out = []
    with mp.workdps(80):
        for cs, roots in factors:
            if roots is not None:
                for q in roots:
                    try:
                        if exact_num(tree, {'x': q}) == 0:
                            v = mpf(q.numerator) / q.denominator
                            if not any(abs(v - o) < mpf(10) ** -40 for o in out):
                                out.append(v)
                    except (Unmodelled, ZeroDivisionError):
                        pass        # pole (or not modelled: then not claimed as a solution, only completeness is weakened)
                continue
            for r in exact_roots([(cs, None)]):
                # approach the candidate from a generic direction: a zero gives O(delta), a cancelled pole O(1), a pole a huge value
                try:
                    d = mpf(10) ** -30
                    v = oracle_e.Evaluator({'x': r + mpc(d, d / 3)}).ev(tree)
                except (oracle_e.Undefined, ZeroDivisionError):
                    continue
                if v is oracle_e.ZOO:
                    continue
                if abs(v) < mpf(10) ** -20 and not any(abs(r - o) < mpf(10) ** -40 for o in out):
                    out.append(r)
    return out


def compare_sets(lib, ref, real_only):
    """-> list of problems"""
    probs = []
    with mp.workdps(60):
        if real_only:
            ref = [r for r in ref if abs(mpmath.im(r)) < mpf(10) ** -30]
        for v in lib:
            if not any(abs(v - r) <= TOL * max(1, abs(r)) for r in ref):
                probs.append(('unsound', mpmath.nstr(v, 25)))
                break
        for r in ref:
            if not any(abs(v - r) <= TOL * max(1, abs(r)) for v in lib):
                probs.append(('incomplete', mpmath.nstr(r, 25)))
                break
    return probs


class C(Check):
    prop = 'C30'

    def run(self):
        rng = self.rng
        self.rule = ('polynomials of degree 0-4 built from a known factorisation (rational roots incl. repeated and zero, irreducible and reducible quadratics with '
                     'real and complex roots, zero leading coefficients, zero polynomial) and random rational coefficients, given to solve / solve_poly / '
                     'solve_poly_heuristics in expanded and factored form over the complex numbers and the reals: members evaluated at 60 digits must be '
                     'exactly the distinct roots; rational equations p/q with common factors: roots(p) minus roots(q); a*f(b*x+c) = d for f in sin, cos, tan: '
                     'members of the image sets for n = -8..8 vs closed-form solutions in |x| <= 6; linsolve on uniquely solvable 1-4 dimensional rational '
                     'systems: A*x == b exactly; non-trivial = degree >= 2 or a rational/trigonometric equation')
        cases, meta = [], {}
        k = 0
        for _ in range(self.q(3000, 100000)):
            k += 1
            r = rng.random()
            dom = rng.choice((None, None, 'reals'))
            if r < 0.55:
                # polynomial from factors
                lead = R(rng.choice((1, 1, 2, -1, 3, -2)), rng.choice((1, 1, 2)))
                fs = rand_factors(rng, rng.choice((1, 2, 3, 4, 4)))
                cs = [lead]
                for f, _ in fs:
                    cs = pmul(cs, f)
                form = rng.random()
                if form < 0.5 or not fs:
                    e = poly_recipe(cs)
                    how = 'expanded'
                else:
                    e = ('mul', FR(lead)) + tuple(poly_recipe(f) for f, _ in fs)
                    how = 'factored'
                ref = exact_roots(fs)
                fn = rng.choice(('solve', 'solve', 'solve_poly')) if how == 'expanded' else 'solve'
                kind = 'poly'
                deg = len(cs) - 1
            elif r < 0.7:
                deg = rng.choice((0, 1, 2, 3, 4))
                cs = [R(rng.randint(-9, 9), rng.choice((1, 1, 2, 3))) for _ in range(deg + 1)]
                if rng.random() < 0.15:
                    cs[-1] = R(0)
                if rng.random() < 0.1:
                    cs[0] = R(0)
                e = poly_recipe(cs)
                ref = numeric_roots(cs)
                fn = rng.choice(('solve', 'solve_poly', 'coeffs'))
                kind, how = 'poly', 'random'
            else:
                # rational equation with common factors
                fp = rand_factors(rng, rng.choice((1, 2, 3)))
                fq = rand_factors(rng, rng.choice((1, 2)))
                if fp and rng.random() < 0.7:
                    fq = fq + [rng.choice(fp)]
                if not fq or not fp:
                    continue
                P, Q = [R(1)], [R(1)]
                for f, _ in fp:
                    P = pmul(P, f)
                for f, _ in fq:
                    Q = pmul(Q, f)
                form = rng.random()
                pe = poly_recipe(P) if form < 0.5 else ('mul',) + tuple(poly_recipe(f) for f, _ in fp) if len(fp) > 1 else poly_recipe(P)
                qe = poly_recipe(Q) if rng.random() < 0.5 else ('mul',) + tuple(poly_recipe(f) for f, _ in fq) if len(fq) > 1 else poly_recipe(Q)
                e = ('div', pe, qe) if rng.random() < 0.6 else ('mul', pe, ('pow', qe, I(-1)))
                if rng.random() < 0.2:
                    e = ('add', e, I(0))
                ref = fp + fq        # candidate factors; filtered against the expression the library was given (construction cancels equal factors)
                if _has_removable(fp, fq):
                    self.count('generator-removable-singularity-skipped')
                    continue
                fn = rng.choice(('solve', 'solve', 'solve_rational'))
                kind, how, cs, deg = 'rational', 'quotient', None, len(P) - 1
                qdeg = len(Q) - 1
            if fn == 'coeffs':
                if not cs or all(c == 0 for c in cs) or cs[-1] == 0:
                    fn = 'solve'
            if fn == 'coeffs':
                call = ('solve_poly_coeffs', ('vec',) + tuple(FR(c) for c in cs)) + ((('setconst', dom),) if dom else ())
            else:
                call = (fn, '$e', X) + ((('setconst', dom),) if dom else ())
            stmts = [('let', 'e', e), ('emit', call), ('emit', '$e')]
            cid = 'p%d' % k
            cases.append((cid, stmts))
            meta[cid] = (kind, dict(how=how, fn=fn, dom=dom, ref=ref, deg=deg, qdeg=(qdeg if kind == 'rational' else 0), zero=(kind == 'poly' and all(c == 0 for c in cs))), stmts)
        # linear trigonometric equations
        for _ in range(self.q(600, 20000)):
            k += 1
            f = rng.choice(('sin', 'cos', 'tan'))
            a = R(rng.choice((1, 1, 2, -1, 3)))
            b = R(rng.choice((1, 1, 2, 3, -1)), rng.choice((1, 1, 2)))
            c = rng.choice((R(0), R(0), R(1), R(1, 2), R(-1, 3)))
            v = rng.choice((R(0), R(1, 2), R(-1, 2), R(1), R(-1), R(1, 3), R(-3, 4))) if f != 'tan' else rng.choice((R(0), R(1), R(-1), R(1, 2), R(-3)))
            dom = rng.choice((None, 'reals'))
            if dom is None and f != 'tan' and rng.random() < 0.25:
                v = rng.choice((R(5, 4), R(-2), R(3), R(-5, 4)))      # no real solutions: e^(ix) off the unit circle
            arg = ('add', ('mul', FR(b), X), FR(c)) if c else (('mul', FR(b), X) if b != 1 else X)
            e = ('sub', ('mul', FR(a), (f, arg)), FR(a * v))
            stmts = [('emit', ('solve', e, X) + ((('setconst', dom),) if dom else ()))]
            cid = 't%d' % k
            cases.append((cid, stmts))
            meta[cid] = ('trig', dict(f=f, b=b, c=c, v=v, dom=dom), stmts)
        # linear systems
        for _ in range(self.q(800, 30000)):
            k += 1
            n = rng.choice((1, 2, 2, 3, 3, 4))
            while True:
                A = [[R(rng.randint(-5, 5), rng.choice((1, 1, 2))) for _ in range(n)] for _ in range(n)]
                if _det(A) != 0:
                    break
            bvec = [R(rng.randint(-9, 9), rng.choice((1, 1, 3))) for _ in range(n)]
            syms = [X, Y, Z, ('sym', 'w')][:n]
            eqs = []
            for i in range(n):
                terms = [('mul', FR(A[i][j]), syms[j]) for j in range(n) if A[i][j]] + [FR(-bvec[i])]
                rng.shuffle(terms)
                eqs.append(('add',) + tuple(terms) if len(terms) > 1 else terms[0])
            stmts = [('emit', ('linsolve', ('vec',) + tuple(eqs), ('vec',) + tuple(syms)))]
            cid = 'l%d' % k
            cases.append((cid, stmts))
            meta[cid] = ('lin', dict(A=A, b=bvec), stmts)
        res, reps = run_cases('asan', cases, tag='c30', timeout=60)
        check_process_reports(self, reps)
        self.seen = set()
        for cid, (kind, m, stmts) in meta.items():
            r = res.get(cid)
            if r is None:
                self.inconclusive += 1
                continue
            self.note_asserts(r)
            prog = [render(s) for s in stmts]
            if r.status == 'crashed':
                self.viol(dict(crash_key(r), clause='crash', what=kind), dict(program=prog, crash=r.crash, config='asan'))
                continue
            if r.status == 'timeout':
                self.viol(dict(clause='hang', what=kind), dict(program=prog, config='asan'))
                continue
            st = r.s(1) if kind in ('poly', 'rational') else r.s(0)
            if r.status != 'ok' or st is None:
                self.inconclusive += 1
                continue
            if st.st != 'ok':
                self.count('declined:%s:%s' % (kind, str(getattr(st, 'ty', '')).split('::')[-1]))
                continue
            if kind == 'rational':
                s2 = r.s(2)
                if s2 is None or s2.st != 'ok':
                    self.inconclusive += 1
                    continue
                m['ref'] = _solutions_of_tree(s2.v['t'], m['ref'])
                m['input'] = s2.v['s']
            try:
                if kind == 'lin':
                    self.judge_lin(m, st, prog)
                elif kind == 'trig':
                    self.judge_trig(m, st, prog)
                else:
                    self.judge_poly(kind, m, st, prog)
            except (oracle_e.Unsupported, oracle_e.Undefined) as ex:
                self.count('member-not-evaluable')
        self.min_evals = 2500

    def viol(self, key, wit):
        ks = str(sorted(key.items(), key=str))
        if ks in self.seen:
            return
        self.seen.add(ks)
        self.violation(key, wit)

    def judge_poly(self, kind, m, st, prog):
        t = st.v['t']
        if m['zero']:
            # 0 == 0 : every point of the domain
            self.evaluations += 1
            want = {None: 'UniversalSet', 'reals': 'Reals'}[m['dom']]
            if t[0] != want:
                self.viol(dict(clause='zero-polynomial', fn=m['fn']), dict(program=prog, returned=st.v['s'], expected=want, config='asan'))
            return
        lib = member_values(t)
        if lib is None:
            self.count('result-not-a-finite-set:' + t[0])
            return
        self.evaluations += 1
        if m['deg'] >= 2 or kind == 'rational':
            self.nontriv(prog[0])
        probs = compare_sets(lib, m['ref'], m['dom'] == 'reals')
        for what, val in probs[:1]:
            self.viol(dict(clause=what, what=kind, form=m['how'], fn=m['fn'], domain=m['dom'] or 'complex', degree=m['deg'], cubic_or_quartic_involved=(m['qdeg'] >= 3 or (kind == 'rational' and m['deg'] >= 3))),
                      dict(program=prog, returned=st.v['s'][:400], value=val, roots=[mpmath.nstr(x, 15) for x in m['ref']], config='asan'))
        if not probs and len(self.samples) < 4 and m['deg'] >= 3:
            self.sample(dict(equation=prog[0][:200], returned=st.v['s'][:200], roots_matched=len(m['ref'])))

    def judge_lin(self, m, st, prog):
        vals = []
        for x in st.v['e']:
            t = x['t']
            if t[0] == 'Integer':
                vals.append(R(int(t[1])))
            elif t[0] == 'Rational':
                vals.append(R(int(t[1]), int(t[2])))
            else:
                self.count('linsolve-nonrational-entry')
                return
        self.evaluations += 1
        self.nontriv(prog[0])
        A, b = m['A'], m['b']
        if len(vals) != len(b) or any(sum(A[i][j] * vals[j] for j in range(len(b))) != b[i] for i in range(len(b))):
            self.viol(dict(clause='linsolve', n=len(b)), dict(program=prog, returned=[str(v) for v in vals], config='asan'))

    def judge_trig(self, m, st, prog):
        f, b, c, v, dom = m['f'], m['b'], m['c'], m['v'], m['dom']
        t = st.v['t']
        sets = _image_sets(t)
        if sets is None:
            self.count('trig-result-not-modelled:' + t[0])
            return

        def work():
            with mp.workdps(50):
                lib = []
                for sym, expr in sets:
                    for n in range(-8, 9):
                        lib.append(oracle_e.Evaluator({sym: mpf(n)}).ev(expr))
                bb, cc, vv = (mpf(q.numerator) / q.denominator for q in (b, c, v))
                ref = []
                for kk in range(-12, 13):
                    if f == 'sin':
                        us = [mpmath.asin(vv) + 2 * mpmath.pi * kk, mpmath.pi - mpmath.asin(vv) + 2 * mpmath.pi * kk]
                    elif f == 'cos':
                        us = [mpmath.acos(vv) + 2 * mpmath.pi * kk, -mpmath.acos(vv) + 2 * mpmath.pi * kk]
                    else:
                        us = [mpmath.atan(vv) + mpmath.pi * kk]
                    for u in us:
                        x = (u - cc) / bb
                        if abs(x) <= 6 and not any(abs(x - o) < mpf(10) ** -30 for o in ref):
                            ref.append(x)
                fx = {'sin': mpmath.sin, 'cos': mpmath.cos, 'tan': mpmath.tan}[f]
                unsound = [x for x in lib if abs(mpmath.im(x)) < mpf(10) ** -30 and abs(fx(bb * x + cc) - vv) > mpf(10) ** -20]
                if dom is None:
                    unsound += [x for x in lib if abs(mpmath.im(x)) >= mpf(10) ** -30 and abs(fx(bb * x + cc) - vv) > mpf(10) ** -20]
                missing = [x for x in ref if not any(abs(x - y) < mpf(10) ** -25 for y in lib)]
                # the library solves for e^(ix) and takes the argument of each root with atan2
                neg = [x for x in missing if mpmath.cos(mpmath.re(x)) < -mpf(10) ** -30]        # sign of Re e^(ix)
                return unsound, missing, neg, len(ref)
        out = _value.bounded(work, 20, None)
        if out is None:
            self.inconclusive += 1
            return
        unsound, missing, neg, nref = out
        self.evaluations += 1
        self.nontriv(prog[0])
        if unsound or missing:
            only_neg = len(neg) == len(missing)
            self.viol(dict(clause='trig', fn=f, unsound_without_missing=bool(unsound) and not missing, missing_only_where_cos_negative=only_neg and bool(missing), unit_argument_coefficient=abs(b) == 1),
                      dict(program=prog, returned=st.v['s'][:400], unsound_member=mpmath.nstr(unsound[0], 20) if unsound else None,
                           missing_solution=mpmath.nstr(missing[0], 20) if missing else None, reference_solutions_in_window=nref, config='asan'))


def _image_sets(t):
    """[(dummy name, expression tree)] of a union of image sets over the integers (printed by the library as n in (-oo, oo)); None if not of that shape"""
    if t[0] == 'EmptySet':
        return []
    if t[0] == 'ImageSet':
        if t[1][0] != 'Symbol':
            return None
        return [(t[1][1], t[2])]
    if t[0] == 'Union':
        out = []
        for x in t[1:]:
            s = _image_sets(x)
            if s is None:
                return None
            out += s
        return out
    if t[0] == 'Intersection' and len(t) == 3 and ['Reals'] in t[1:]:
        other = [x for x in t[1:] if x != ['Reals']]
        return _image_sets(other[0]) if other else None
    return None


def _mult(fs, r):
    m = 0
    with mp.workdps(80):
        for cs, _ in fs:
            val = sum((mpf(c.numerator) / c.denominator) * r ** k for k, c in enumerate(cs))
            if abs(val) < mpf(10) ** -40:
                m += 1
                if len(cs) == 3 and cs[1] * cs[1] - 4 * cs[0] * cs[2] == 0:
                    m += 1
    return m


def _has_removable(fp, fq):
    """some common zero vanishes to higher order in the numerator than in the denominator (the value there is a matter of convention)"""
    for r in exact_roots(fq):
        mq, mp_ = _mult(fq, r), _mult(fp, r)
        if mq > 0 and mp_ > mq:
            return True
    return False


def _det(A):
    n = len(A)
    if n == 1:
        return A[0][0]
    return sum((-1) ** j * A[0][j] * _det([row[:j] + row[j + 1:] for row in A[1:]]) for j in range(n))
