"""C13 - lambda double callbacks compute the expression's value.
Each case initialises one LambdaRealDoubleVisitor / LambdaComplexDoubleVisitor in the executor with 1-3 input symbols and 1-4 outputs and calls
it on several input vectors: without CSE, with CSE, and in a re-initialisation history (A, then B, then A again on the same object).  The
monitor evaluates the output trees the library was given with its own mpmath evaluator (50 digits) at the exact values of the input doubles and
compares: value (tolerance from measured conditioning), CSE on == CSE off, and bit-identical results for A before and after the detour via B."""
import struct
from fractions import Fraction
import mpmath
from mpmath import mp, mpf, mpc
from vlib import gen, oracle_e
from vlib.gen import I, FR, F, K, X, Y, Z
from vlib.core import Check, run_cases, run_one, check_process_reports, crash_key, render, Q
from . import c27, _value

R = Fraction
SYMS = [X, Y, Z]
NAMES = ['x', 'y', 'z']
VALS = [-2.5, -1.0, -0.75, 0.0, 0.25, 0.5, 1.0, 1.5, 2.0, 3.25, -0.125, 0.875]
SMOOTH1 = ['sin', 'cos', 'tan', 'exp', 'sinh', 'cosh', 'tanh', 'atan', 'asinh', 'erf', 'erfc', 'abs']
DOMAIN1 = ['log', 'sqrt', 'asin', 'acos', 'acosh', 'atanh', 'gamma', 'loggamma', 'cot', 'csc', 'sec', 'acot', 'asec', 'acsc', 'coth', 'csch', 'sech', 'acoth', 'asech', 'acsch', 'cbrt']


def h2f(s):
    return struct.unpack('<d', struct.pack('<Q', int(s, 16)))[0]


def lin(rng, syms):
    t = rng.choice(syms)
    k = rng.random()
    if k < 0.4:
        return t
    if k < 0.7:
        return ('add', t, F(rng.choice(VALS)))
    if k < 0.85:
        return ('mul', F(rng.choice((2.0, -1.0, 0.5))), t)
    return ('sub', t, rng.choice(syms))


def smooth(rng, syms, depth):
    if depth <= 0 or rng.random() < 0.2:
        return rng.choice(syms + [I(rng.choice((1, 2, 3, -1))), FR(R(rng.choice((1, -1, 3)), rng.choice((2, 3, 4)))), F(rng.choice(VALS)), K('pi'), K('E')])
    r = rng.random()
    sub = lambda: smooth(rng, syms, depth - 1)
    if r < 0.3:
        return (rng.choice(('add', 'mul', 'sub')), sub(), sub())
    if r < 0.4:
        return ('add', sub(), sub(), sub())
    if r < 0.5:
        return ('div', sub(), ('add', ('pow', sub(), I(2)), I(1)))
    if r < 0.6:
        return ('pow', sub(), I(rng.choice((2, 3, -1, -2))))
    if r < 0.66:
        return ('pow', ('add', ('pow', sub(), I(2)), I(1)), rng.choice((FR(R(1, 2)), FR(R(-1, 3)), FR(R(3, 2)), sub())))
    if r < 0.9:
        return (rng.choice(SMOOTH1), sub())
    if r < 0.96:
        return (rng.choice(DOMAIN1), sub())
    return ('atan2', sub(), sub())


def boolean(rng, syms, depth):
    if depth <= 0 or rng.random() < 0.45:
        k = rng.random()
        if k < 0.75:
            return (rng.choice(('Lt', 'Le', 'Gt', 'Ge', 'Eq', 'Ne')), lin(rng, syms), rng.choice((F(rng.choice(VALS)), lin(rng, syms))))
        if k < 0.95:
            return ('contains', rng.choice(syms), c27.to_recipe(c27.leaf(rng) if rng.random() < 0.7 else ('union', c27.leaf(rng), c27.leaf(rng))))
        return K(rng.choice(('true', 'false')))
    op = rng.choice(('logical_and', 'logical_or', 'logical_not', 'logical_xor'))
    if op == 'logical_not':
        return (op, boolean(rng, syms, depth - 1))
    return (op,) + tuple(boolean(rng, syms, depth - 1) for _ in range(rng.choice((2, 2, 3))))


def output(rng, syms):
    r = rng.random()
    if r < 0.45:
        return smooth(rng, syms, rng.choice((1, 2, 3)))
    if r < 0.6:
        nb = rng.choice((2, 3))
        brs = [(smooth(rng, syms, 1), boolean(rng, syms, 1)) for _ in range(nb - 1)] + [(smooth(rng, syms, 1), K('true'))]
        return ('piecewise',) + tuple(brs)
    if r < 0.7:
        return (rng.choice(('max', 'min')),) + tuple(smooth(rng, syms, 1) for _ in range(rng.choice((2, 3))))
    if r < 0.8:
        return (rng.choice(('sign', 'floor', 'ceiling', 'truncate', 'abs')), ('add', lin(rng, syms), FR(R(1, 3))))
    if r < 0.92:
        return boolean(rng, syms, rng.choice((0, 1, 2)))
    return ('mul', ('piecewise', (I(1), boolean(rng, syms, 0)), (I(0), K('true'))), smooth(rng, syms, 1))


class RealEvaluator(oracle_e.Evaluator):
    """the real-mode callback works in double arithmetic: a non-real intermediate value means its answer (nan) is not specified"""
    def ev(self, t):
        v = super().ev(t)
        if isinstance(v, mpc) and abs(v.imag) > mpf(10) ** -40:
            raise oracle_e.Undefined('non-real intermediate')
        return v


class CutAwareEvaluator(oracle_e.Evaluator):
    """complex mode: a function evaluated on its branch cut has a value that is a convention (signed zeros of complex double arithmetic)"""
    def ev(self, t):
        from .c12 import _on_cut
        if isinstance(t, list) and t and isinstance(t[0], str) and t[0][:1].isupper() and _on_cut(t, self.env):
            raise oracle_e.Undefined('on a branch cut')
        return super().ev(t)


def vec(xs):
    return ('vec',) + tuple(xs)


class C(Check):
    prop = 'C13'

    def run(self):
        rng = self.rng
        self.rule = ('evaluators with 1-3 inputs and 1-4 outputs drawn from: arithmetic / integer and rational powers / 12 entire and 21 domain-restricted elementary '
                     'functions / atan2 (depth <= 3), Piecewise with relational, Contains and logical conditions, max/min, sign/floor/ceiling/truncate/abs, relationals '
                     'and and/or/not/xor as outputs; 3 input vectors of dyadic values each; real mode without CSE, with CSE, and the history init(A) call init(B) call '
                     'init(A) call on one object; complex mode for the smooth outputs; value vs the monitor\'s mpmath evaluation of the library\'s own input trees '
                     '(tolerance 1e-10 relative plus measured conditioning), CSE on vs off, re-initialised vs fresh bit for bit; non-trivial = at least two outputs '
                     'sharing a subexpression or a Piecewise/logic output')
        cases, meta = [], {}
        for k in range(self.q(2500, 80000)):
            nin = rng.choice((1, 2, 2, 3))
            names = NAMES
            if rng.random() < 0.3:
                names = rng.choice((['x0', 'x1', 'x2'], ['x1', 'x0', 'y'], ['x2', 'y', 'x0']))      # the names CSE gives its temporaries
            syms = [('sym', n) for n in names[:nin]]
            nout = rng.choice((1, 2, 3, 4))
            shared_sub = smooth(rng, syms, 2)
            outs = []
            for _ in range(nout):
                o = output(rng, syms)
                if rng.random() < 0.4:
                    o = ('add', o, shared_sub) if rng.random() < 0.5 else ('mul', o, ('cos', shared_sub))
                outs.append(o)
            outsB = [output(rng, syms) for _ in range(rng.choice((1, 2)))]
            vecs = [[rng.choice(VALS) if rng.random() < 0.8 else round(rng.uniform(-3, 3) * 1024) / 1024 for _ in range(nin)] for _ in range(3)]
            calls = tuple(('call',) + tuple(v) for v in vecs)
            initA = lambda cse: ('init', vec(syms), vec('$o%d' % i for i in range(nout)), cse)
            initB = ('init', vec(syms), vec(outsB), False)
            stmts = [('let', 'o%d' % i, o) for i, o in enumerate(outs)]
            stmts += [('emit', vec('$o%d' % i for i in range(nout))),
                      ('emit', ('lambda_seq', 'real', initA(False)) + calls),
                      ('emit', ('lambda_seq', 'real', initA(True)) + calls),
                      ('emit', ('lambda_seq', 'real', initA(False), calls[0], initB, calls[0], initA(False), calls[0], initA(True), calls[0])),
                      ('emit', ('lambda_seq', 'real', initA(True), calls[0], initA(False), calls[0], ('init', vec(syms), vec(outsB), True), calls[0], initA(False), calls[1]))]
            cplx = rng.random() < 0.3
            cvecs = None
            if cplx:
                cvecs = [[(rng.choice(VALS), rng.choice(VALS)) for _ in range(nin)] for _ in range(2)]
                stmts.append(('emit', ('lambda_seq', 'complex', initA(False)) + tuple(('call',) + tuple(x for p in v for x in p) for v in cvecs)))
            cid = 'k%d' % k
            cases.append((cid, stmts))
            meta[cid] = (nin, nout, vecs, cvecs, stmts, names)
        res, reps = run_cases('asan', cases, tag='c13', timeout=60)
        check_process_reports(self, reps)
        self.seen = set()
        for cid, (nin, nout, vecs, cvecs, stmts, names) in meta.items():
            r = res.get(cid)
            if r is None:
                self.inconclusive += 1
                continue
            self.note_asserts(r)
            prog = [render(s) for s in stmts]
            if r.status == 'crashed':
                at = len(r.stmts)
                self.viol(dict(crash_key(r), clause='crash', during='construction' if at < nout else 'evaluator'), dict(program=prog[:at + 1], crash=r.crash, config='asan'))
                continue
            base = nout
            st = r.s(base)
            if r.status != 'ok' or st is None or st.st != 'ok':
                self.count('declined-construction')
                continue
            self._names = names
            trees = [x['t'] for x in st.v['e']]
            strs = [x['s'] for x in st.v['e']]
            plain = r.s(base + 1)
            if plain is None or plain.st != 'ok':
                self.count('declined-init:' + str(getattr(plain, 'ty', '')).split('::')[-1])
                continue
            got = [[h2f(x) for x in call] for call in plain.v['calls']]
            special = any(t[0] in ('Piecewise', 'And', 'Or', 'Not', 'Xor', 'Contains', 'StrictLessThan', 'LessThan', 'Equality', 'Unequality') for t in trees)
            if special or nout >= 2:
                self.nontriv(prog[0] + prog[-1][:40])
            # (a) value
            for vi, v in enumerate(vecs):
                for oi, t in enumerate(trees):
                    ref = _value.bounded(lambda: self.reference(t, v), 10, None)
                    if ref is None:
                        self.count('reference-undefined-or-unsupported')
                        continue
                    val, slack = ref
                    g = got[vi][oi]
                    self.evaluations += 1
                    if g != g or g in (float('inf'), float('-inf')):
                        if abs(val) < 1e300:
                            self.viol(dict(clause='value', kind='non-finite', top=t[0]), dict(program=prog[:nout] + [prog[base + 1]], output=strs[oi], inputs=v, library=repr(g), reference=mpmath.nstr(val, 17), config='asan'))
                        continue
                    if abs(mpf(g) - val) > mpf(10) ** -10 * max(1, abs(val)) + slack:
                        self.viol(dict(clause='value', kind='finite', top=t[0]), dict(program=prog[:nout] + [prog[base + 1]], output=strs[oi], inputs=v, library=repr(g), reference=mpmath.nstr(val, 17), slack=mpmath.nstr(slack, 5), config='asan'))
            # (b) CSE on == CSE off
            cse = r.s(base + 2)
            if cse is not None and cse.st == 'ok':
                gc = [[h2f(x) for x in call] for call in cse.v['calls']]
                for vi in range(len(vecs)):
                    for oi in range(nout):
                        a, b = got[vi][oi], gc[vi][oi]
                        self.evaluations += 1
                        if not _close(a, b):
                            self.viol(dict(clause='cse', top=trees[oi][0]), dict(program=prog[:nout] + [prog[base + 2]], output=strs[oi], inputs=vecs[vi], without_cse=repr(a), with_cse=repr(b), config='asan'))
            elif cse is not None:
                self.viol(dict(clause='cse-declines', ty=str(getattr(cse, 'ty', ''))), dict(program=prog[:nout] + [prog[base + 2]], config='asan'))
            # (c) re-initialisation
            hist = r.s(base + 3)
            if hist is not None and hist.st == 'ok':
                calls = [[h2f(x) for x in call] for call in hist.v['calls']]
                self.evaluations += 1
                if not _same(calls[0], got[0]) or not _same(calls[2], got[0]):
                    self.viol(dict(clause='reinit', which='A after B'), dict(program=prog[:nout] + [prog[base + 3]], fresh=[repr(x) for x in got[0]], first=[repr(x) for x in calls[0]], after_detour=[repr(x) for x in calls[2]], config='asan'))
                if cse is not None and cse.st == 'ok' and not _same(calls[3], [h2f(x) for x in cse.v['calls'][0]]):
                    self.viol(dict(clause='reinit', which='A with cse after A without'), dict(program=prog[:nout] + [prog[base + 3]], config='asan'))
            hist2 = r.s(base + 4)
            if hist2 is not None and hist2.st == 'ok':
                calls2 = [[h2f(x) for x in call] for call in hist2.v['calls']]
                self.evaluations += 1
                if not _same(calls2[1], got[0]) or not _same(calls2[3], got[1]):
                    self.viol(dict(clause='reinit', which='A without cse after an init with cse'), dict(program=prog[:nout] + [prog[base + 4]], fresh=[repr(x) for x in got[0]], after_cse_init=[repr(x) for x in calls2[1]], config='asan'))
            # (d) complex mode
            if cvecs is not None:
                cs = r.s(base + 5)
                if cs is not None and cs.st == 'ok':
                    for vi, v in enumerate(cvecs):
                        for oi, t in enumerate(trees):
                            ref = _value.bounded(lambda: self.reference(t, [mpc(a, b) for a, b in v], cplx=True), 10, None)
                            if ref is None:
                                continue
                            val, slack = ref
                            g = cs.v['calls'][vi][oi]
                            gz = mpc(h2f(g[0]), h2f(g[1]))
                            self.evaluations += 1
                            if not (mpmath.isfinite(gz.real) and mpmath.isfinite(gz.imag)):
                                continue
                            if abs(gz - val) > mpf(10) ** -10 * max(1, abs(val)) + slack:
                                self.viol(dict(clause='value-complex', top=t[0]), dict(program=prog[:nout] + [prog[base + 5]], output=strs[oi], inputs=str(v), library=str(gz), reference=mpmath.nstr(val, 17), config='asan'))
                else:
                    self.count('complex-declined:' + str(getattr(cs, 'ty', '')).split('::')[-1])
            if len(self.samples) < 4 and nout >= 2 and special:
                self.sample(dict(outputs=strs[:3], inputs=vecs[0], results=[repr(x) for x in got[0]][:3]))
        self.min_evals = 5000

    def reference(self, tree, v, cplx=False):
        """(value, slack) or None: value of the output tree at the exact input doubles; slack from the change under a 1e-13 relative input perturbation"""
        try:
            with mp.workdps(50):
                env = {n: (x if cplx else mpf(x)) for n, x in zip(self._names, v)}
                val = self._ev(tree, env, real=not cplx)
                if val is None:
                    return None
                if not cplx and isinstance(val, mpc):
                    if abs(val.imag) > mpf(10) ** -30:
                        return None            # not a real number: the real evaluator's answer is not specified
                    val = val.real
                slack = mpf(0)
                for sgn in (1, -1):
                    env2 = {n: x * (1 + sgn * mpf(10) ** -13) + sgn * mpf(10) ** -15 for n, x in env.items()}
                    try:
                        val2 = self._ev(tree, env2, real=not cplx)
                    except (oracle_e.Unsupported, oracle_e.Undefined, ZeroDivisionError, ValueError, OverflowError, TypeError):
                        return None        # the point sits on the edge of the domain
                    if val2 is None:
                        return None
                    d = abs(val2 - val)
                    if d >= 1:
                        return None            # a jump under perturbation = discontinuity / pole at the point: not judged
                    slack = max(slack, 1000 * d)
                # conditioning with respect to rounding inside the expression: the same evaluation in 16-digit arithmetic
                try:
                    with mp.workdps(16):
                        v16 = self._ev(tree, {n: +x for n, x in env.items()}, real=not cplx)
                    if v16 is None:
                        return None
                    d = abs(v16 - val)
                    if d >= 1:
                        return None
                    slack = max(slack, 1000 * d)
                except (oracle_e.Unsupported, oracle_e.Undefined, ZeroDivisionError, ValueError, OverflowError, TypeError):
                    return None
                return +val, slack
        except (oracle_e.Unsupported, oracle_e.Undefined, ZeroDivisionError, ValueError, OverflowError, TypeError):
            return None

    @staticmethod
    def _ev(tree, env, real=False):
        ev = RealEvaluator(env) if real else CutAwareEvaluator(env)
        if tree[0] in ('And', 'Or', 'Not', 'Xor', 'Contains', 'StrictLessThan', 'LessThan', 'Equality', 'Unequality', 'BooleanAtom'):
            return mpf(1) if ev.truth(tree) else mpf(0)
        v = ev.ev(tree)
        if v is oracle_e.ZOO or isinstance(v, bool):
            return None
        return v

    def viol(self, key, wit):
        ks = str(sorted(key.items(), key=str))
        if ks in self.seen:
            return
        self.seen.add(ks)
        self.violation(key, wit)


def _same(a, b):
    return len(a) == len(b) and all(struct.pack('<d', x) == struct.pack('<d', y) or (x != x and y != y) for x, y in zip(a, b))


def _close(a, b):
    if a != a and b != b:
        return True
    if a == b:
        return True
    if a != a or b != b or a in (float('inf'), float('-inf')) or b in (float('inf'), float('-inf')):
        return False
    return abs(a - b) <= 1e-9 * max(1.0, abs(a), abs(b))
