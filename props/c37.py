"""C37 - common-subexpression elimination is a faithful factoring.
The monitor substitutes the replacement pairs back into the reduced expressions (last to first, on tree dumps, without the library) and
compares the value with the original inputs (oracle E); it also checks freshness and ordering of the replacement symbols and that one
reduced expression is returned per input."""
from fractions import Fraction
from vlib import gen, oracle_e
from vlib.gen import I, FR, CX, S, K, X, Y, Z
from vlib.core import Check, run_cases, run_one, check_process_reports, crash_key, render
from ._vp import tree_subst
from . import _value
from .c07 import _shape


def planted(rng):
    """1-6 expressions sharing sub-terms"""
    syms = [X, Y, Z, S('w')]
    s = lambda: rng.choice(syms)
    base = [('add', s(), s()), ('mul', s(), s()), ('sin', ('add', s(), I(1))), ('pow', s(), I(2)), ('add', s(), s(), s()), ('mul', ('pow', s(), I(2)), s()),
            ('exp', ('mul', I(2), s())), ('sub', s(), s()), ('pow', ('add', s(), s()), FR(Fraction(1, 2))), ('func', 'f', s(), s()), ('mul', s(), s(), s()),
            ('mul', ('pow', s(), I(3)), s(), s()), ('log', ('add', s(), I(2))), ('div', s(), ('add', s(), I(1)))]
    commons = [rng.choice(base) for _ in range(rng.choice((1, 2, 3)))]
    if rng.random() < 0.3:
        a, b = s(), s()
        commons += [('sub', a, b), ('sub', b, a)]          # negated commons
    if rng.random() < 0.3:
        a, b, c, d = s(), s(), s(), s()
        commons += [('add', a, b, c), ('add', a, b, d)]    # common sub-sums
    if rng.random() < 0.25:
        commons.append(rng.choice((S('x0'), S('x1'), ('add', S('x0'), X))))   # names that look like the generated ones
    out = []
    for _ in range(rng.choice((1, 2, 2, 3, 4, 6))):
        k = rng.random()
        c1, c2 = rng.choice(commons), rng.choice(commons)
        if k < 0.3:
            out.append(('add', c1, ('mul', c2, s())))
        elif k < 0.5:
            out.append(('mul', c1, ('sin', c2)))
        elif k < 0.7:
            out.append((rng.choice(('sin', 'cos', 'exp', 'log')), ('add', c1, c2)))
        elif k < 0.85:
            out.append(('pow', ('add', c1, I(1)), rng.choice((I(2), FR(Fraction(1, 2)), I(-1)))))
        else:
            out.append(('add', ('mul', I(2), c1), ('pow', c1, I(2)), ('func', 'g', c1)))
    return out


def back_substitute(v):
    """reduced trees with every replacement symbol expanded (last definition first)"""
    defs = [(r[0], r[1]) for r in v['repl']]
    outs = []
    for t in v['reduced']:
        for sym, body in reversed(defs):
            t = tree_subst(t, sym[1], body)
        outs.append(t)
    return outs


class C(Check):
    prop = 'C37'

    def run(self):
        rng = self.rng
        self.rule = ('lists of 1-6 expressions with planted sharing (common sub-trees, common sub-sums a+b+c / a+b+d, common sub-products with powers, negated '
                     'commons a-b / b-a, functions of commons, inputs that already contain symbols named x0, x1); cse output substituted back by the monitor '
                     '(last to first) and compared by value with each input at 3 generic complex points; replacement symbols must be fresh, defined once and '
                     'only mention earlier ones; one reduced expression per input; non-trivial = at least one replacement was introduced')
        items = []
        for k in range(self.q(5000, 150000)):
            exprs = planted(rng)
            stmts = [('let', 'v', ('vec',) + tuple(exprs)), ('emit', '$v'), ('emit', ('cse', '$v'))]
            items.append(('e%d' % k, exprs, stmts))
        res, reps = run_cases('asan', [(c, s) for c, _, s in items], tag='c37')
        check_process_reports(self, reps)
        tojudge = []
        meta = {}
        for cid, exprs, stmts in items:
            r = res.get(cid)
            if r is None:
                self.inconclusive += 1
                continue
            self.note_asserts(r)
            prog = [render(s) for s in stmts]
            if r.status == 'crashed':
                self.violation(crash_key(r), dict(program=prog, crash=r.crash, config='asan'))
                continue
            si, sc = r.s(1), r.s(2)
            if r.status != 'ok' or si is None or sc is None or si.st != 'ok':
                self.inconclusive += 1
                continue
            if sc.st != 'ok':
                if sc.st == 'exc':
                    self.violation(dict(clause='raised', ty=str(sc.ty)), dict(program=prog, msg=sc.msg, config='asan'))
                else:
                    self.inconclusive += 1
                continue
            v = sc.v
            ins = [x['t'] for x in si.v['e']]
            self.evaluations += 1
            if v['repl']:
                self.nontriv(prog[0])
                self.count('replacements', len(v['repl']))
            # (d) one output per input
            if len(v['reduced']) != len(ins):
                self.violation(dict(clause='output-count'), dict(program=prog, n_in=len(ins), n_out=len(v['reduced']), config='asan'))
                continue
            # (b) fresh, defined once   (c) bodies mention only earlier symbols
            names = [rp[0][1] for rp in v['repl']]
            insyms = set()
            for t in ins:
                insyms |= oracle_e.symbols_of(t)
            bad = None
            if len(set(names)) != len(names):
                bad = 'replacement symbol defined twice'
            elif insyms & set(names):
                bad = 'replacement symbol %s already occurs in the inputs' % sorted(insyms & set(names))
            else:
                for i, rp in enumerate(v['repl']):
                    later = set(names[i:]) & oracle_e.symbols_of(rp[1])
                    if later:
                        bad = 'body of %s mentions %s (itself or a later replacement)' % (names[i], sorted(later))
                        break
            if bad:
                self.violation(dict(clause='replacement-structure', what=bad.split(' ')[0] + ' ' + bad.split(' ')[1] + ' ' + bad.split(' ')[2]),
                               dict(program=prog, problem=bad, replacements=[(n, rp[2]) for n, rp in zip(names, v['repl'])], config='asan'))
                continue
            outs = back_substitute(v)
            for j, (a, b) in enumerate(zip(ins, outs)):
                tojudge.append(('%s:%d' % (cid, j), a, b, None))
            meta[cid] = (exprs, stmts)
            if len(self.samples) < 5 and len(v['repl']) >= 2:
                self.sample(dict(inputs=[x['s'] for x in si.v['e']], replacements=[(n, rp[2]) for n, rp in zip(names, v['repl'])]))
        cands = set()
        for key, verdict, d in _value.judge_items(tojudge, self.seed):
            self.count('verdict:' + verdict)
            if verdict in ('inconclusive', 'unsupported'):
                self.inconclusive += 1
            elif verdict == 'diff':
                cands.add(key.split(':')[0])
        seen = set()
        for cid in sorted(cands)[:30]:
            exprs, stmts = meta[cid]
            r, _ = run_one('asan', 'c', stmts)
            if r is None or r.status != 'ok' or r.s(1) is None or r.s(2) is None or r.s(2).st != 'ok':
                self.inconclusive += 1
                continue
            ins = [x['t'] for x in r.s(1).v['e']]
            outs = back_substitute(r.s(2).v)
            vs = _value.judge_items([('k%d' % j, a, b, None) for j, (a, b) in enumerate(zip(ins, outs))], self.seed + 7)
            badj = [int(k[1:]) for k, verdict, d in vs if verdict == 'diff']
            if not badj:
                self.inconclusive += 1
                continue
            key = dict(clause='value', shape=gen.recipe_str(_shape(exprs[badj[0]]))[:120])
            if str(key) in seen:
                continue
            seen.add(str(key))
            self.violation(key, dict(program=[render(s) for s in stmts], wrong_output_index=badj[0],
                                     replacements=[rp[2] for rp in r.s(2).v['repl']], detail=[d for k, verdict, d in vs if verdict == 'diff'][:1], config='asan'))
        self.min_evals = 1500
