"""C19 - serialization round-trips exactly.
Every generated expression e is dumped and loaded by the real library in the executor; the monitor compares the complete tree dump (public
accessors; doubles as bit patterns), the hash and the printed form of loads(dumps(e)) with those of e, asks the library for eq both ways, and
compares the object-sharing census (distinct nodes reached / distinct objects) before and after.  A type that declines to serialise must
throw, never produce bytes that load to something else."""
import json
from fractions import Fraction
from vlib import gen
from vlib.gen import I, FR, CX, F, S, K, X, Y, Z
from vlib.core import Check, run_cases, run_one, check_process_reports, crash_key, render, Q
from . import c27

R = Fraction
F1 = ['sin', 'cos', 'tan', 'cot', 'csc', 'sec', 'asin', 'acos', 'asec', 'acsc', 'atan', 'acot', 'sinh', 'cosh', 'tanh', 'coth', 'csch', 'sech',
      'asinh', 'acosh', 'atanh', 'acoth', 'acsch', 'asech', 'abs', 'sign', 'floor', 'ceiling', 'truncate', 'conjugate', 'gamma', 'loggamma', 'erf', 'erfc',
      'lambertw', 'dirichlet_eta', 'digamma', 'trigamma', 'primepi', 'primorial', 'unevaluated_expr', 'log', 'zeta', 'exp', 'sqrt']
F2 = ['atan2', 'lowergamma', 'uppergamma', 'beta', 'polygamma', 'kronecker_delta', 'log', 'zeta']
FLOATS = gen.FLOATS + [1.0000000000000002, 4.9406564584124654e-324, 1.7976931348623157e308, 2.2250738585072014e-308, 0.1 + 0.2]
NONFIN = gen.NONFINITE_FLOATS


def number(rng):
    r = rng.random()
    if r < 0.2:
        return I(rng.choice(gen.SMALL_INTS))
    if r < 0.35:
        return I(rng.choice(gen.BIG_INTS) * rng.choice((1, -1)))
    if r < 0.5:
        return FR(rng.choice(gen.SMALL_RATS + [R(2 ** 70 + 1, 3 ** 40), R(-1, 10 ** 25)]))
    if r < 0.62:
        a, b = rng.choice(gen.GAUSS)
        return CX(a, b)
    if r < 0.8:
        return F(rng.choice(FLOATS))
    if r < 0.85:
        return F(rng.choice(NONFIN))
    if r < 0.93:
        return ('cdbl', rng.choice(FLOATS + NONFIN[:2]), rng.choice(FLOATS))
    return K(rng.choice(('oo', '-oo', 'zoo', 'nan', 'pi', 'E', 'EulerGamma', 'Catalan', 'GoldenRatio', 'I')))


def atom(rng):
    r = rng.random()
    if r < 0.45:
        return rng.choice((X, Y, Z, S('w'), S('a_long_symbol_name_with_unicode_α'), S(''), S('x y'), S('"q"'), S('a<b&c')))
    return number(rng)


def boolean(rng, depth):
    r = rng.random()
    if depth <= 0 or r < 0.4:
        k = rng.random()
        if k < 0.6:
            return (rng.choice(('Lt', 'Le', 'Eq', 'Ne', 'Gt', 'Ge')), expr(rng, depth - 1), expr(rng, depth - 1))
        if k < 0.85:
            return ('contains', rng.choice((X, Y)), c27.to_recipe(c27.leaf(rng)))
        return K(rng.choice(('true', 'false')))
    op = rng.choice(('logical_and', 'logical_or', 'logical_not', 'logical_xor'))
    if op == 'logical_not':
        return (op, boolean(rng, depth - 1))
    return (op, boolean(rng, depth - 1), boolean(rng, depth - 1))


def expr(rng, depth):
    if depth <= 0 or rng.random() < 0.18:
        return atom(rng)
    r = rng.random()
    sub = lambda: expr(rng, depth - 1)
    if r < 0.25:
        return (rng.choice(('add', 'mul')),) + tuple(sub() for _ in range(rng.choice((2, 2, 3, 4))))
    if r < 0.35:
        return ('pow', sub(), rng.choice((I(2), I(-1), FR(R(1, 2)), FR(R(-2, 3)), sub())))
    if r < 0.55:
        return (rng.choice(F1), sub())
    if r < 0.63:
        return (rng.choice(F2), sub(), sub())
    if r < 0.68:
        return (rng.choice(('max', 'min')), sub(), sub(), sub())
    if r < 0.74:
        return ('func', rng.choice(('f', 'g', 'some_function')),) + tuple(sub() for _ in range(rng.choice((1, 2, 3))))
    if r < 0.79:
        v = rng.choice((X, Y))
        return ('derivative', ('func', 'f', v, Z), v) if rng.random() < 0.5 else ('diff', ('func', 'g', ('mul', I(2), v)), v)
    if r < 0.83:
        v = rng.choice((X, Y))
        return ('subs_node', ('derivative', ('func', 'f', v), v), (v, rng.choice((I(0), ('add', v, I(1)), Z))))
    if r < 0.9:
        return ('piecewise', (sub(), boolean(rng, 1)), (sub(), K('true')))
    if r < 0.94:
        return ('levi_civita', sub(), sub(), sub())
    return ('mul', sub(), ('add', sub(), F(rng.choice(FLOATS))))


def shared(rng):
    """expression in which the same object occurs at several places"""
    return [('let', 's', expr(rng, 2)), ('let', 'e', rng.choice((('add', ('sin', '$s'), ('pow', '$s', I(2)), ('mul', I(3), ('cos', '$s'))),
                                                                   ('func', 'f', '$s', '$s', ('exp', '$s')),
                                                                   ('piecewise', ('$s', ('Lt', X, I(0))), (('neg', '$s'), K('true'))))))]


def multi_complex(rng):
    """several distinct non-integer complex constants in one expression (their real / imaginary parts are temporaries while dumping)"""
    cs = []
    for _ in range(rng.choice((2, 3, 4, 6))):
        if rng.random() < 0.5:
            cs.append(('cdbl', rng.choice(FLOATS), rng.choice(FLOATS)))
        else:
            cs.append(CX(R(rng.randint(-9, 9), rng.choice((2, 3, 5, 7))), R(rng.randint(1, 9), rng.choice((2, 3, 5, 7)))))
    syms = [X, Y, Z, S('w'), S('u'), S('v')]
    terms = [('mul', c, syms[i % len(syms)]) if rng.random() < 0.6 else ('sin', ('add', c, syms[i % len(syms)])) for i, c in enumerate(cs)]
    return ('func', 'f') + tuple(terms) if rng.random() < 0.5 else ('add',) + tuple(terms)


def set_expr(rng):
    e = c27.expr(rng, rng.choice((0, 1, 2)))
    return c27.to_recipe(e)


class C(Check):
    prop = 'C19'
    configs = ['asan', 'rel']     # the plain build reuses freed addresses at once (ASan quarantines them), which matters for the archive's object tracking

    def run(self):
        rng = self.rng
        self.rule = ('expressions of depth <= 4 over integers (small and multi-limb), rationals, complex, RealDouble (subnormals, extremes, signed zero, inf, nan), '
                     'ComplexDouble, oo/-oo/zoo/nan, the six constants, symbols (empty, spaces, quotes, non-ASCII), sums, products, powers, 45 one-argument and 8 '
                     'two-argument function classes, max/min, levi_civita, undefined functions, Derivative, Subs, Piecewise, relationals, and/or/not/xor, Contains, '
                     'intervals / finite sets / number sets / unions / intersections / complements, Dummy symbols, expressions with deliberately shared '
                     'sub-objects: loads(dumps(e)) must have the same tree dump (doubles bit for bit), hash and string, be eq both ways, and must not reach more '
                     'distinct objects than e did; non-trivial = depth >= 2')
        cases, meta = [], {}
        for k in range(self.q(8000, 250000)):
            r = rng.random()
            if r < 0.7:
                pre = [('let', 'e', expr(rng, rng.choice((0, 1, 2, 2, 3, 3, 4))))]
                kind = 'expr'
            elif r < 0.78:
                pre = [('let', 'e', boolean(rng, 2))]
                kind = 'boolean'
            elif r < 0.85:
                pre = [('let', 'e', set_expr(rng))]
                kind = 'set'
            elif r < 0.9:
                pre = [('let', 'e', multi_complex(rng))]
                kind = 'multi-complex'
            elif r < 0.94:
                pre = [('let', 'd', ('dummy', Q('t')) if rng.random() < 0.5 else ('dummy',)), ('let', 'e', ('add', ('sin', '$d'), ('mul', '$d', X), ('pow', '$d', I(2))))]
                kind = 'dummy'
            else:
                pre = shared(rng)
                kind = 'shared'
            stmts = pre + [('emit', '$e'), ('let', 'r', ('roundtrip', '$e')), ('emit', '$r'), ('emit', ('eq', '$e', '$r')), ('emit', ('eq', '$r', '$e')),
                           ('emit', ('sharing', '$e')), ('emit', ('sharing', '$r')), ('emit', ('eq', ('roundtrip', '$r'), '$e'))]
            cid = 'e%d' % k
            cases.append((cid, stmts))
            meta[cid] = (kind, len(pre), stmts)
        self.seen = set()
        for cfg in self.configs:
            res, reps = run_cases(cfg, cases, tag='c19' + cfg, timeout=60)
            check_process_reports(self, reps)
            self.judge(cfg, res, meta)
        self.min_evals = 5000

    def judge(self, cfg, res, meta):
        for cid, (kind, npre, stmts) in meta.items():
            r = res.get(cid)
            if r is None:
                self.inconclusive += 1
                continue
            self.note_asserts(r)
            prog = [render(s) for s in stmts[:npre]]
            if r.status == 'crashed' and len(r.stmts) < npre:
                self.count('crash-while-constructing-the-input (judged by C40)')
                continue
            if r.status == 'crashed':
                self.viol(dict(crash_key(r), clause='crash', what=kind, build=cfg), dict(program=[render(s) for s in stmts][:len(r.stmts) + 1], crash=r.crash, config=cfg))
                continue
            se = r.s(npre)
            if r.status != 'ok' or se is None or se.st != 'ok':
                if r.s(npre - 1) is not None and r.s(npre - 1).st == 'exc':
                    self.count('declined-construction')
                else:
                    self.inconclusive += 1
                continue
            top = se.v['t'][0]
            sr = r.s(npre + 2)
            if sr is None or sr.st != 'ok':
                st_l = r.s(npre + 1)
                ty = str(getattr(st_l, 'ty', '')).split('::')[-1] if st_l is not None else '?'
                self.count('serialization-declined:%s' % ty)
                continue
            self.evaluations += 1
            if json.dumps(se.v['t']).count('[') >= 6:
                self.nontriv(prog[-1])
            probs = []
            if norm(sr.v['t']) != norm(se.v['t']):
                probs.append(('tree', _first_diff(norm(se.v['t']), norm(sr.v['t']))))
            if sr.v.get('h') != se.v.get('h'):
                probs.append(('hash', '%s -> %s' % (se.v.get('h'), sr.v.get('h'))))
            if sr.v.get('s') != se.v.get('s'):
                probs.append(('str', '%s -> %s' % (se.v.get('s', '')[:80], sr.v.get('s', '')[:80])))
            nan_inside = 'NaN' in json.dumps(se.v['t'])
            for off, nm in ((3, 'eq(e, r)'), (4, 'eq(r, e)'), (7, 'eq(roundtrip(r), e)')):
                q = r.s(npre + off)
                if q is not None and q.st == 'ok' and q.v is not True and not nan_inside:
                    probs.append(('eq', nm + ' is false'))
            a, b = r.s(npre + 5), r.s(npre + 6)
            if a is not None and b is not None and a.st == 'ok' and b.st == 'ok':
                if b.v['classes'] != a.v['classes']:
                    probs.append(('sharing', 'distinct sub-expressions %s -> %s' % (a.v['classes'], b.v['classes'])))
                elif b.v['ptrs'] > a.v['ptrs']:
                    probs.append(('sharing', 'objects %s -> %s for %s distinct sub-expressions' % (a.v['ptrs'], b.v['ptrs'], a.v['classes'])))
            for what, detail in probs[:1]:
                self.viol(dict(clause=what, top=top, what=kind, build=cfg), dict(program=prog + [render(('emit', ('roundtrip', '$e')))], original=se.v['s'][:200], loaded=sr.v['s'][:200], detail=str(detail)[:300], config=cfg))
            if not probs and len(self.samples) < 5 and kind in ('shared', 'set', 'expr') and json.dumps(se.v['t']).count('[') >= 10:
                self.sample(dict(expr=se.v['s'][:200], kind=kind, objects=a.v if a is not None and a.st == 'ok' else None))

    def viol(self, key, wit):
        ks = str(sorted(key.items(), key=str))
        if ks in self.seen:
            return
        self.seen.add(ks)
        self.violation(key, wit)


def norm(t):
    """tree dump with the terms of sums and products in a canonical order (their dictionary order is an implementation detail that a reload may change)"""
    if isinstance(t, list):
        ch = [norm(x) for x in t]
        if ch and ch[0] in ('Add', 'Mul'):
            return ch[:2] + sorted(ch[2:], key=json.dumps)
        return ch
    return t


def _first_diff(a, b, path=''):
    if type(a) != type(b):
        return '%s: %s vs %s' % (path, str(a)[:60], str(b)[:60])
    if isinstance(a, list):
        if len(a) != len(b):
            return '%s: arity %d vs %d (%s)' % (path, len(a), len(b), a[0] if a else '')
        for i, (x, y) in enumerate(zip(a, b)):
            d = _first_diff(x, y, path + '/' + (str(a[0]) if i else '') + str(i))
            if d:
                return d
        return None
    return None if a == b else '%s: %s vs %s' % (path, a, b)
