"""C20 - deserializing untrusted bytes is memory-safe.
Phase 1 dumps a corpus of valid expressions with the real library.  Phase 2 feeds mutations of those byte strings (bit flips, byte
substitutions with boundary values, truncations, splices between two dumps, duplicated / removed ranges, overwritten length and type-code
fields) to loads() in the ASan+UBSan build, with assertions recording but not throwing (what a release build does), and then prints, hashes,
compares, evaluates, expands and re-serialises whatever came back.  The oracle is the sanitizer / signal / hang monitor: an exception is a
correct outcome, any report, abort or hang is a violation."""
import random
from vlib.core import Check, run_cases, check_process_reports, crash_key, render, Q
from . import c19


def mutate(rng, b, other):
    b = bytearray(b)
    n = len(b)
    k = rng.random()
    if n == 0:
        return bytes(b)
    if k < 0.25:
        for _ in range(rng.choice((1, 1, 2, 4))):
            i = rng.randrange(n)
            b[i] ^= 1 << rng.randrange(8)
    elif k < 0.45:
        for _ in range(rng.choice((1, 1, 2, 3))):
            b[rng.randrange(n)] = rng.choice((0, 1, 2, 0x7f, 0x80, 0xff, 0xfe, rng.randrange(256)))
    elif k < 0.55:
        b = b[:rng.randrange(n)]
    elif k < 0.65:
        i = rng.randrange(n)
        j = min(n, i + rng.choice((1, 2, 4, 8, 16)))
        b = b[:i] + b[i:j] * rng.choice((2, 3, 50)) + b[j:]
    elif k < 0.73:
        i = rng.randrange(n)
        j = min(n, i + rng.choice((1, 2, 4, 8)))
        b = b[:i] + b[j:]
    elif k < 0.85 and other:
        i, j = rng.randrange(n), rng.randrange(len(other))
        b = b[:i] + bytearray(other[j:])
    elif k < 0.95:
        # overwrite an aligned little-endian 8-byte field (counts, sizes, ids) with a boundary value
        i = rng.randrange(0, max(1, n - 8))
        v = rng.choice((0, 1, 0xffffffffffffffff, 0x7fffffffffffffff, 0x8000000000000000, 0xffffffff, 0x100000000, 1 << 40, n, n * 8))
        b[i:i + 8] = v.to_bytes(8, 'little')
    else:
        i = rng.randrange(n)
        b[i:i + 1] = bytes(rng.randrange(256) for _ in range(rng.choice((1, 3, 9))))
    return bytes(b)


# assertions record but do not throw; a length field of a few GB is refused at once (counted) instead of being memset for minutes
ENV = {'SYMENGINE_VERIF_ASSERT': 'continue',
       'ASAN_OPTIONS': 'abort_on_error=0:exitcode=88:detect_leaks=1:detect_stack_use_after_return=1:allocator_may_return_null=1:malloc_context_size=8:max_allocation_size_mb=512'}


class C(Check):
    prop = 'C20'

    def run(self):
        rng = self.rng
        self.rule = ('corpus: dumps() of 400-4000 expressions over every serialisable node class (generator of C19) plus DenseMatrix dumps; 4000-400000 mutants (bit '
                     'flips, boundary-value bytes, truncation, splicing two dumps, duplicated / deleted ranges, 8-byte fields overwritten with 0 / 2^63 / 2^64-1 / '
                     'length-derived values, random insertions) and fully random byte strings given to Basic::loads under ASan+UBSan with assertions not throwing; '
                     'every object returned is printed, hashed, compared, evaluated, expanded and re-serialised; violation = sanitizer report, signal, abort or '
                     'hang; non-trivial = mutant that loads() accepted')
        # phase 1: corpus
        cases = []
        for k in range(self.q(400, 4000)):
            r = rng.random()
            e = c19.expr(rng, rng.choice((1, 2, 2, 3, 3))) if r < 0.75 else (c19.boolean(rng, 2) if r < 0.87 else c19.set_expr(rng))
            cases.append(('d%d' % k, [('let', 'e', e), ('emit', ('dumps', '$e'))]))
        res, reps = run_cases('asan', cases, tag='c20d', timeout=60)
        corpus = []
        for cid, _ in cases:
            r = res.get(cid)
            if r is not None and r.status == 'ok' and r.s(1) is not None and r.s(1).st == 'ok':
                corpus.append(bytes.fromhex(r.s(1).v))
        if len(corpus) < 50:
            raise RuntimeError('corpus too small: %d' % len(corpus))
        self.count('corpus', len(corpus))
        # phase 2: mutants
        cases, meta = [], {}
        for k in range(self.q(4000, 400000)):
            if rng.random() < 0.04:
                m = bytes(rng.randrange(256) for _ in range(rng.choice((0, 1, 8, 40, 200))))
            else:
                base = rng.choice(corpus)
                m = mutate(rng, base, rng.choice(corpus))
                if rng.random() < 0.2:
                    m = mutate(rng, m, None)
            stmts = [('let', 'r', ('loads', Q(m.hex()))), ('emit', '$r'), ('emit', ('eq', '$r', '$r')), ('emit', ('eval_double', '$r')), ('emit', ('expand', '$r')),
                     ('emit', ('eq', ('roundtrip', '$r'), '$r')), ('emit', ('free_symbols', '$r')), ('emit', ('latex', '$r'))]
            cid = 'm%d' % k
            cases.append((cid, stmts))
            meta[cid] = (m, stmts)
        res, reps = run_cases('asan', cases, tag='c20', timeout=15, env_extra=ENV)
        check_process_reports(self, reps)
        seen = set()
        for cid, (m, stmts) in meta.items():
            r = res.get(cid)
            if r is None:
                self.inconclusive += 1
                continue
            self.note_asserts(r)
            self.evaluations += 1
            if r.status == 'crashed' and str(crash_key(r).get('kind', '')).startswith('asan:allocator'):
                # a count field asked for more memory than ASan is willing to hand out: a normal build throws std::bad_alloc / std::length_error here
                self.count('allocation-refused (exception in a normal build)')
                continue
            if r.status == 'timeout' and self.cov.get('timeouts-re-run-alone', 0) >= 8:
                # the sequential re-runs are capped (each may take two minutes); further time-outs of this run stay undecided
                self.count('timed-out (not re-run, inconclusive)')
                self.inconclusive += 1
                continue
            if r.status == 'timeout':
                self.count('timeouts-re-run-alone')
                # a time-out under 16-fold load is not a verdict: run the case again on its own with a generous limit
                from vlib.core import run_one
                r2, _ = run_one('asan', cid + 'r', stmts, timeout=120, env_extra=ENV)
                if r2 is None or r2.status != 'timeout':
                    self.count('slow-under-load (finished when re-run alone)')
                    if r2 is None or r2.status != 'crashed':
                        continue
                    r = r2
                else:
                    r = r2
            if r.status == 'crashed' and str(crash_key(r).get('kind', '')).startswith('asan:allocator'):
                self.count('allocation-refused (exception in a normal build)')
                continue
            if r.status == 'crashed' or r.status == 'timeout':
                at = len(r.stmts)
                key = dict(crash_key(r), clause='crash') if r.status == 'crashed' else dict(clause='hang')
                key['during'] = 'loads' if at == 0 else 'use-of-loaded-object'
                if str(key) not in seen:
                    seen.add(str(key))
                    self.violation(key, dict(program=[render(s) for s in stmts[:at + 1]], bytes=len(m), crash=r.crash, config='asan', env={'SYMENGINE_VERIF_ASSERT': 'continue'}))
                continue
            s0 = r.s(0)
            if s0 is not None and s0.st == 'ok':
                self.count('accepted')
                self.nontriv(m.hex()[:64])
                if len(self.samples) < 4 and r.s(1) is not None and r.s(1).st == 'ok':
                    self.sample(dict(mutant_bytes=len(m), loaded_as=r.s(1).v['s'][:120]))
            elif s0 is not None:
                self.count('rejected:' + str(getattr(s0, 'ty', '')).split('::')[-1])
        self.min_evals = 2000
