"""C33 - the prime sieve yields exactly the primes after any call history.
Each case is a history of generate_primes / iterator / clear / set_sieve_size / set_clear calls executed in the real library
(ASan + UBSan watching the valarray/vector indexing); every returned prime vector / iterator output is compared with a simple
Eratosthenes sieve in the monitor.  Cases start by forcing a known global state so that they replay in a fresh process."""
import itertools
from vlib.core import Check, run_cases, run_one, check_process_reports, crash_key, render

_MAXREF = 2200000
_sieve = None


def ref_primes():
    global _sieve
    if _sieve is None:
        n = _MAXREF
        bs = bytearray([1]) * (n + 1)
        bs[0] = bs[1] = 0
        i = 2
        while i * i <= n:
            if bs[i]:
                bs[i * i::i] = bytearray(len(range(i * i, n + 1, i)))
            i += 1
        _sieve = [i for i in range(n + 1) if bs[i]]
    return _sieve


def digest(v):
    h = 1469598103934665603
    for x in v:
        h = ((h ^ x) * 1099511628211) & 0xFFFFFFFFFFFFFFFF
    return '%016x' % h


def primes_upto(limit):
    import bisect
    p = ref_primes()
    return p[:bisect.bisect_right(p, limit)]


def boundary_limits(size_k):
    """limits around the segment boundaries for a sieve of size_k kilobytes"""
    seg = size_k * 1024 * 8
    out = []
    for base in (30, 2 * seg + 30, 2 * seg, 4 * seg + 30, 2 * seg + 31):
        for d in (-2, -1, 0, 1, 2, 3):
            if base + d >= 0:
                out.append(base + d)
    return out


TINY = [0, 1, 2, 3, 4, 28, 29, 30, 31, 32, 100, 120, 121, 122, 168, 169, 170, 961, 962, 1000]


class C(Check):
    prop = 'C33'

    def gen_history(self, rng, length):
        k = rng.choice((1, 1, 2, 3, 32))
        clr = rng.random() < 0.5
        ops = [('sieve_set_clear', clr), ('sieve_set_size', k), ('sieve_clear',)]
        iters = []
        nit = 0
        lims = TINY + boundary_limits(k) + [rng.randrange(0, 40000) for _ in range(4)]
        biglim = [x for x in boundary_limits(k) if x <= 600000] or [1000]
        for _ in range(length):
            r = rng.random()
            if r < 0.35:
                lim = rng.choice(lims) if rng.random() < 0.7 else rng.choice(biglim)
                ops.append(('sieve_generate', lim))
            elif r < 0.5 and nit < 4:
                name = 'it%d' % nit
                nit += 1
                lim = rng.choice((None, rng.choice(lims), rng.choice(TINY)))
                ops.append(('let', name, ('sieve_iter',) if lim is None else ('sieve_iter', lim)))
                iters.append(name)
            elif r < 0.8 and iters:
                ops.append(('sieve_next', '$' + rng.choice(iters), rng.choice((1, 1, 3, 11, 40, 200, 1200))))
            elif r < 0.85 and iters:
                it = rng.choice(iters)
                iters.remove(it)
                ops.append(('drop', it))
            elif r < 0.9:
                ops.append(('sieve_clear',))
            elif r < 0.95:
                k = rng.choice((1, 2, 3, 32))
                lims = TINY + boundary_limits(k) + [rng.randrange(0, 40000) for _ in range(4)]
                biglim = [x for x in boundary_limits(k) if x <= 600000] or [1000]
                ops.append(('sieve_set_size', k))
            else:
                ops.append(('sieve_set_clear', rng.random() < 0.5))
        return ops

    def enum_histories(self, maxlen, take):
        """All op sequences of length <= maxlen over a 9-letter alphabet (after the state-setting prefix)."""
        seg1 = 8192 * 2
        alpha = [('sieve_generate', 31), ('sieve_generate', seg1 + 31), ('sieve_generate', 2 * seg1 + 40),
                 ('let', 'a', ('sieve_iter', seg1 + 100)), ('sieve_next', '$a', 7), ('sieve_next', '$a', 1900), ('drop', 'a'),
                 ('sieve_clear',), ('sieve_set_clear', False)]
        out = []
        for n in range(1, maxlen + 1):
            for seq in itertools.product(range(len(alpha)), repeat=n):
                ops = [('sieve_set_clear', True), ('sieve_set_size', 1), ('sieve_clear',)]
                alive = False
                ok = True
                for i in seq:
                    op = alpha[i]
                    if op[0] == 'let':
                        alive = True
                    elif op[0] == 'sieve_next' and not alive:
                        ok = False
                        break
                    elif op[0] == 'drop':
                        if not alive:
                            ok = False
                            break
                        alive = False
                    ops.append(op)
                if ok:
                    out.append(ops)
        if take is not None and len(out) > take:
            out = self.rng.sample(out, take)
        return out

    def judge(self, ops, res):
        """Replay the history on the model.  Returns (list of problems, n_outputs_checked, state signature set)."""
        probs = []
        iters = {}
        checked = 0
        states = set()
        k, clr = 32, True
        for i, op in enumerate(ops):
            st = res.s(i)
            if st is None:
                break
            head = op[0]
            if head == 'sieve_set_size':
                k = op[1]
            elif head == 'sieve_set_clear':
                clr = op[1]
            if st.st == 'harness':
                probs.append(dict(clause='harness', at=i, msg=st.msg))
                break
            if st.st == 'exc':
                probs.append(dict(clause='exception', at=i, op=head, ty=st.ty))
                continue
            if st.st != 'ok':
                probs.append(dict(clause='status:' + str(st.st), at=i, op=head))
                continue
            if head == 'sieve_generate':
                want = primes_upto(op[1])
                got = st.v
                checked += 1
                states.add((k, clr, min(op[1] // 16384, 40)))
                if got['n'] != len(want) or got['h'] != digest(want) or not got['inc']:
                    det = dict(clause='generate', at=i, limit=op[1], want_n=len(want), got_n=got['n'], increasing=got['inc'], last=got['last'])
                    probs.append(det)
            elif head == 'let':
                iters[op[1]] = dict(limit=(op[2][1] if len(op[2]) > 1 else 0), idx=0)
            elif head == 'drop':
                iters.pop(op[1], None)
            elif head == 'sieve_next':
                it = iters[op[1][1:]]
                got = st.v['p']
                P = ref_primes()
                want = []
                for _ in range(op[2]):
                    nxt = P[it['idx']]
                    if it['limit'] > 0 and nxt > it['limit']:
                        want.append(it['limit'] + 1)      # documented: past the limit the iterator answers limit + 1
                    else:
                        want.append(nxt)
                        it['idx'] += 1
                checked += 1
                if got != want:
                    j = next((x for x in range(min(len(got), len(want))) if got[x] != want[x]), min(len(got), len(want)))
                    probs.append(dict(clause='iterator', at=i, limit=it['limit'], first_bad=j, want=want[max(0, j - 2):j + 3], got=got[max(0, j - 2):j + 3]))
        return probs, checked, states

    def run(self):
        rng = self.rng
        self.rule = ('histories of generate_primes / Sieve::iterator next_prime (several live iterators, bounded and unbounded) / clear / '
                     'set_sieve_size(1,2,3,32) / set_clear with limits on and around the segment boundaries 2*8192*k*j + 30 +- {0,1,2}, squares of '
                     'primes and tiny limits; each case first forces a known global state; every returned vector and iterator output '
                     'is compared with an Eratosthenes sieve in the monitor; plus all op sequences of length <= 3 (quick: sample; thorough: <= 4, '
                     'complete) over a 9-letter alphabet; non-trivial = history with >= 2 value-returning calls of which one crosses a segment boundary or '
                     'follows a clear/size change')
        ref_primes()
        hist = []
        enum = self.enum_histories(self.q(3, 4), self.q(1500, None))
        self.exhaustive = False
        self.count('enumerated_histories', len(enum))
        for ops in enum:
            hist.append(ops)
        for _ in range(self.q(2500, 60000)):
            hist.append(self.gen_history(rng, rng.choice((3, 6, 10, 20, 40))))
        cases = [('h%d' % i, ops) for i, ops in enumerate(hist)]
        res, reps = run_cases('asan', cases, tag='c33', timeout=60)
        check_process_reports(self, reps)
        allstates = set()
        cands = []
        for cid, ops in cases:
            r = res.get(cid)
            if r is None:
                self.inconclusive += 1
                continue
            self.note_asserts(r)
            if r.status == 'timeout':
                self.inconclusive += 1
                continue
            if r.status == 'crashed':
                cands.append((cid, ops, 'crash'))
                continue
            probs, checked, states = self.judge(ops, r)
            self.evaluations += 1
            self.count('outputs_checked', checked)
            allstates |= states
            if checked >= 2:
                self.nontriv([render(o) for o in ops])
            if probs:
                cands.append((cid, ops, probs))
            elif len(self.samples) < 4 and len(ops) > 8:
                self.sample(dict(history=[render(o) for o in ops[:14]], outputs_checked=checked))
        self.cov['distinct_states'] = len(allstates)
        # confirmation in a fresh process + shrinking of the history
        keys_done = set()
        pre_done = {}
        for cid, ops, why in cands[:200]:
            pk = str(sorted(self._key(ops, why if isinstance(why, list) else [dict(clause='crash')]).items()))
            pre_done[pk] = pre_done.get(pk, 0) + 1
            if pre_done[pk] > 2 or len(keys_done) >= 8:
                continue      # same provisional key already confirmed and shrunk twice
            bad = self._fails(ops)
            if bad is None:
                self.inconclusive += 1
                continue
            small = self._shrink(ops)
            bad = self._fails(small) or bad
            key = self._key(small, bad)
            ks = str(sorted(key.items()))
            if ks in keys_done:
                continue
            keys_done.add(ks)
            self.violation(key, dict(program=[render(o) for o in small], problems=bad if isinstance(bad, list) else str(bad), config='asan'))
        self.min_evals = 500

    def _fails(self, ops):
        r, _ = run_one('asan', 'c', ops, timeout=60)
        if r is None:
            return None
        if r.status == 'crashed':
            return [dict(clause='crash', kind=r.crash['kind'], frames=r.crash['frames'][:3])]
        if r.status != 'ok':
            return None
        probs, _, _ = self.judge(ops, r)
        return probs or None

    def _shrink(self, ops):
        cur = list(ops)
        changed = True
        budget = 60
        while changed and budget > 0:
            changed = False
            for i in range(len(cur) - 1, -1, -1):
                if budget <= 0:
                    break
                cand = cur[:i] + cur[i + 1:]
                # keep well-formed: no use of dropped / undefined iterators
                defined = set()
                ok = True
                for op in cand:
                    if op[0] == 'let':
                        defined.add(op[1])
                    elif op[0] == 'drop':
                        if op[1] not in defined:
                            ok = False
                        defined.discard(op[1])
                    elif op[0] == 'sieve_next' and op[1][1:] not in defined:
                        ok = False
                if not ok or not cand:
                    continue
                budget -= 1
                if self._fails(cand):
                    cur = cand
                    changed = True
        return cur

    def _key(self, ops, bad):
        first = bad[0] if isinstance(bad, list) and bad else {}
        key = dict(clause=first.get('clause', 'unknown'))
        if key['clause'] == 'crash':
            key['kind'] = first.get('kind')
            key['frames'] = first.get('frames')
        heads = [o[0] for o in ops]
        key['uses_iterator'] = 'sieve_next' in heads
        sizes = [o[1] for o in ops if o[0] == 'sieve_set_size']
        key['sieve_size'] = sizes[-1] if sizes else 32
        return key
