"""C38 - finite-difference weights are exact on polynomials of degree < grid size.
Oracle X: sum_i w[k][i] * g_i**j == j!/(j-k)! * a**(j-k) over Fractions for every monomial j < len(grid) and order k <= maxorder;
symbolic grids are judged through the mpmath evaluator at random points."""
import itertools
from fractions import Fraction
from math import factorial
from mpmath import mpf
from vlib.core import Check, run_cases, run_one, check_process_reports, crash_key, render
from vlib import gen, oracle_e
from vlib.gen import FR, S


def falling(j, k):
    return factorial(j) // factorial(j - k) if j >= k else 0


def judge_exact(grid, maxd, around, weights):
    """weights: list of exact values (Fractions) in the library layout w[i + k*n]. Returns list of problems."""
    n = len(grid)
    probs = []
    if len(weights) != n * (maxd + 1):
        return ['wrong result length %d (expected %d)' % (len(weights), n * (maxd + 1))]
    for k in range(maxd + 1):
        for j in range(n):
            lhs = sum(weights[i + k * n] * grid[i] ** j for i in range(n))
            rhs = Fraction(falling(j, k)) * (around ** (j - k) if j >= k else 0)
            if lhs != rhs:
                probs.append('order %d monomial x^%d: sum = %s, derivative = %s' % (k, j, lhs, rhs))
                if len(probs) > 3:
                    return probs
    return probs


def stmt(grid, maxd, around):
    return ('emit', ('fdiff_weights', ('vec',) + tuple(grid), maxd, around))


class C(Check):
    prop = 'C38'

    def run(self):
        rng = self.rng
        self.rule = ('grids of 1-9 distinct rationals (unsorted, negative, clustered; centre on/off/outside the grid), max order 0..len+1; all grids '
                     'of size <= 4 over {-2..2} with centres in {-1, 0, 1/2} enumerated completely in both tiers; symbolic grids x0 + k*h judged by '
                     'mpmath at random points; exactness checked on the whole monomial basis for every order; non-trivial = grid size >= 3 and '
                     'max order >= 1')
        cases = []
        meta = {}
        cid = 0
        # exhaustive small grids
        for n in (1, 2, 3, 4):
            for g in itertools.permutations(range(-2, 3), n):
                if n >= 3 and g[0] > g[-1]:
                    continue   # mirror images kept once for the larger sizes (order still unsorted)
                for a in (Fraction(0), Fraction(-1), Fraction(1, 2)):
                    maxd = min(n, 3)
                    cid += 1
                    grid = [Fraction(x) for x in g]
                    cases.append(('e%d' % cid, [stmt([FR(x) for x in grid], maxd, FR(a))]))
                    meta['e%d' % cid] = ('exact', grid, maxd, a)
        self.exhaustive = True
        self.notes.append('exhaustive sub-space: %d grids over {-2..2}, size <= 4' % len(cases))
        for _ in range(self.q(2500, 80000)):
            n = rng.choice((1, 2, 3, 3, 4, 5, 5, 6, 7, 9))
            pool = set()
            style = rng.random()
            while len(pool) < n:
                if style < 0.4:
                    pool.add(Fraction(rng.randint(-6, 6)))
                elif style < 0.8:
                    pool.add(Fraction(rng.randint(-12, 12), rng.choice((1, 2, 3, 4, 7))))
                else:
                    pool.add(Fraction(1000 + rng.randint(-5, 5), 1000))    # clustered
            grid = list(pool)
            rng.shuffle(grid)
            r = rng.random()
            a = rng.choice(grid) if r < 0.4 else (Fraction(rng.randint(-20, 20), rng.choice((1, 2, 3))) if r < 0.9 else Fraction(10 ** 6))
            maxd = rng.randint(0, n + 1)
            cid += 1
            cases.append(('r%d' % cid, [stmt([FR(x) for x in grid], maxd, FR(a))]))
            meta['r%d' % cid] = ('exact', grid, maxd, a)
        for _ in range(self.q(150, 3000)):
            n = rng.choice((2, 3, 3, 4))
            ks = rng.sample(range(-4, 5), n)
            grid = [('add', S('x0'), ('mul', FR(k), S('h'))) for k in ks]
            around = rng.choice((S('x0'), ('add', S('x0'), ('mul', FR(Fraction(1, 2)), S('h'))), S('a')))
            maxd = rng.randint(0, n - 1)
            cid += 1
            cases.append(('s%d' % cid, [stmt(grid, maxd, around)]))
            meta['s%d' % cid] = ('sym', grid, maxd, around)
        res, reps = run_cases('asan', cases, tag='c38')
        check_process_reports(self, reps)
        progs = dict(cases)
        for c, m in meta.items():
            r = res.get(c)
            if r is None:
                continue
            self.note_asserts(r)
            if r.status == 'crashed':
                self.violation(crash_key(r), dict(program=[render(s) for s in progs[c]], crash=r.crash, config='asan'))
                continue
            st = r.s(0)
            if r.status != 'ok' or st is None:
                self.inconclusive += 1
                continue
            if st.st == 'exc':
                # the function has no documented failure mode: every generated grid has pairwise distinct points
                self.count('raised:' + str(st.ty))
                self.evaluations += 1
                self.violation(dict(clause='raised-on-valid-grid', kind=m[0], ty=str(st.ty)),
                               dict(program=[render(s) for s in progs[c]], msg=st.msg, config='asan'))
                continue
            if st.st != 'ok':
                self.inconclusive += 1
                continue
            probs = self._judge(m, st.v)
            self.evaluations += 1
            if probs is None:
                self.inconclusive += 1
                continue
            n = len(m[1])
            if n >= 3 and m[2] >= 1:
                self.nontriv(render(progs[c][0]))
            if not probs:
                if len(self.samples) < 4 and n >= 3 and c.endswith('3'):
                    self.sample(dict(call=render(progs[c][0]), weights=[e['s'] for e in st.v['e']][:12]))
                continue
            # confirm in a fresh process
            r2, _ = run_one('asan', 'c', progs[c])
            if r2 is None or r2.status != 'ok' or r2.s(0) is None or r2.s(0).st != 'ok':
                self.inconclusive += 1
                continue
            probs2 = self._judge(m, r2.s(0).v)
            if not probs2:
                self.inconclusive += 1
                continue
            self.violation(dict(clause='exactness', kind=m[0], grid_size=n, centre_on_grid=(m[0] == 'exact' and m[3] in m[1])),
                           dict(program=[render(s) for s in progs[c]], problems=probs2[:4], weights=[e['s'] for e in r2.s(0).v['e']][:20], config='asan'))
        self.min_evals = 1000

    def _judge(self, m, v):
        if m[0] == 'exact':
            _, grid, maxd, a = m
            ws = []
            for e in v['e']:
                x = gen.exact_value(e['t'])
                if x is None or x[0] != 'q':
                    return ['non-rational weight %s' % e.get('s')]
                ws.append(x[1])
            return judge_exact(grid, maxd, a, ws)
        _, grid, maxd, around = m
        n = len(grid)
        if len(v['e']) != n * (maxd + 1):
            return ['wrong result length']
        env = {'x0': oracle_e.rand_point(self.rng, 'real'), 'h': oracle_e.rand_point(self.rng, 'pos'), 'a': oracle_e.rand_point(self.rng, 'real')}
        try:
            g = [oracle_e.evaluate(x, env, 60) for x in grid]
            a = oracle_e.evaluate(around, env, 60)
            w = [oracle_e.evaluate(e['t'], env, 60) for e in v['e']]
        except Exception:
            return None
        probs = []
        from mpmath import mp
        with mp.workdps(60):
            for k in range(maxd + 1):
                for j in range(n):
                    lhs = sum(w[i + k * n] * g[i] ** j for i in range(n))
                    rhs = falling(j, k) * (a ** (j - k) if j >= k else 0)
                    scale = max(abs(rhs), max(abs(w[i + k * n] * g[i] ** j) for i in range(n)), mpf(1))
                    if abs(lhs - rhs) > scale * mpf(10) ** -30:
                        probs.append('order %d monomial x^%d: sum = %s, derivative = %s at %s' % (k, j, lhs, rhs, {q: str(z) for q, z in env.items()}))
        return probs
