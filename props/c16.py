"""C16 - printing is a function of the value and parse(str(e)) == e.
(a) expressions that are eq (same operands combined in different orders) print identically; (b) str(e) parses back to an expression
eq to e.  A failed round trip is classified by oracle E: a different value means the printer/parser pair mis-handles precedence,
signs or literals; the same value with a different structure is reported as such (canonical-form issue surfacing through the text)."""
from fractions import Fraction
from vlib import gen, oracle_e
from vlib.gen import I, FR, CX, F, S, K, X, Y, Z
from vlib.core import render, run_cases
from ._vp import VPCheck

UN = ['sin', 'cos', 'tan', 'cot', 'sec', 'csc', 'asin', 'acos', 'atan', 'acot', 'asec', 'acsc', 'sinh', 'cosh', 'tanh', 'coth', 'sech', 'csch', 'asinh', 'acosh',
      'atanh', 'acoth', 'asech', 'acsch', 'exp', 'log', 'sqrt', 'abs', 'gamma', 'erf', 'erfc', 'sign', 'floor', 'ceiling', 'loggamma', 'lambertw', 'cbrt']
FLOATS = [0.5, 2.5, -2.5, 0.1, 1e-5, 1e20, 123456789.125, 3.0, -0.75, 1e-300, 0.001, 1234.5]


def special(rng):
    """shapes where printing needs care"""
    s = lambda: rng.choice((X, Y, Z))
    q = lambda: FR(rng.choice((Fraction(1, 2), Fraction(-1, 2), Fraction(2, 3), Fraction(-3, 2), Fraction(1, 3))))
    t = rng.randrange(22)
    if t == 0:
        return ('neg', ('add', s(), s()))
    if t == 1:
        return ('neg', ('pow', s(), I(2)))
    if t == 2:
        return ('pow', ('neg', s()), I(2))
    if t == 3:
        return ('pow', s(), ('neg', s()))
    if t == 4:
        return ('pow', s(), ('pow', s(), s()))
    if t == 5:
        return ('pow', ('pow', s(), s()), s())
    if t == 6:
        return ('pow', I(2), q())
    if t == 7:
        return ('pow', FR(Fraction(1, 2)), s())
    if t == 8:
        return ('div', s(), ('mul', s(), s()))
    if t == 9:
        return ('mul', ('div', s(), s()), s())
    if t == 10:
        a, b = rng.choice(gen.GAUSS)
        return ('mul', CX(a, b), s())
    if t == 11:
        return ('neg', K('I'))
    if t == 12:
        a, b = rng.choice(gen.GAUSS)
        return ('pow', CX(a, b), rng.choice((s(), q())))
    if t == 13:
        return ('mul', F(rng.choice(FLOATS)), s())
    if t == 14:
        return ('add', F(rng.choice(FLOATS)), ('mul', F(rng.choice(FLOATS)), s()))
    if t == 15:
        return ('pow', ('add', s(), I(1)), q())
    if t == 16:
        return ('mul', I(-1), ('pow', ('add', s(), s()), I(-1)))
    if t == 17:
        return ('sub', s(), ('mul', FR(Fraction(2, 3)), ('pow', s(), q())))
    if t == 18:
        return ('pow', ('mul', I(2), s()), ('neg', q()))
    if t == 19:
        return ('mul', ('add', s(), s()), ('pow', ('sub', s(), s()), I(-2)))
    if t == 20:
        return ('pow', ('mul', FR(Fraction(-2, 3)), s()), I(3))
    return ('add', ('mul', CX(0, 1), s()), ('mul', CX(Fraction(1, 2), Fraction(-1, 3)), ('pow', s(), I(2))))


def boolean(rng):
    s = lambda: rng.choice((X, Y, Z))
    rel = lambda: (rng.choice(('Lt', 'Le', 'Gt', 'Ge', 'Eq', 'Ne')), gen.rand_arith(rng, 1, consts=False, complex_=False), gen.rand_arith(rng, 1, consts=False, complex_=False))
    t = rng.randrange(5)
    if t == 0:
        return rel()
    if t == 1:
        return ('logical_and', rel(), rel())
    if t == 2:
        return ('logical_or', rel(), ('logical_not', rel()))
    if t == 3:
        return ('logical_xor', rel(), rel())
    return ('logical_not', rel())


def _n15tree(t):
    """dump tree with every double leaf replaced by its 15-significant-digit decimal text"""
    from vlib.core import bits_to_float
    if isinstance(t, list):
        if t and t[0] == 'RealDouble':
            return ['RealDouble', '%.15g' % bits_to_float(t[1])]
        if t and t[0] == 'ComplexDouble':
            return ['ComplexDouble', '%.15g' % bits_to_float(t[1]), '%.15g' % bits_to_float(t[2])]
        return [_n15tree(a) for a in t]
    return t


def _has_special_double(t):
    from vlib.core import bits_to_float
    import math
    if isinstance(t, list):
        if t and t[0] in ('RealDouble', 'ComplexDouble'):
            for b in t[1:]:
                x = bits_to_float(b)
                if x == 0 or math.isinf(x) or math.isnan(x):
                    return True
            return False
        return any(_has_special_double(a) for a in t)
    return False


def _norm15(t):
    import json

    def srt(t):
        if isinstance(t, list):
            t = [srt(a) for a in t]
            if t and t[0] in ('Add', 'Mul'):
                return t[:2] + sorted(t[2:], key=lambda x: json.dumps(x))
        return t
    return json.dumps(srt(_n15tree(t)))


class C(VPCheck):
    prop = 'C16'

    def run(self):
        rng = self.rng
        self.rule = ('expressions in the parseable fragment: random arithmetic with 37 one-argument functions, 22 printing-sensitive templates (-(x+y), -x**2, '
                     '(-x)**2, x**-y, x**(y**z) vs (x**y)**z, 2**(-1/2), (1/2)**x, x/(y*z) vs x/y*z, Gaussian coefficients, -I, complex bases, floats 1e-5 / '
                     '1e+20 / 123456789.125), relationals and And/Or/Not/Xor; (a) two builds of the same operands in different orders that are eq must print '
                     'identically, (b) parse(str(e)) must be eq to e; failures classified by value with mpmath; non-trivial = printed text contains a '
                     'parenthesis or a unary minus')
        items = []
        self.pairs = []
        for k in range(self.q(9000, 250000)):
            r = rng.random()
            if r < 0.45:
                e = special(rng)
                if rng.random() < 0.5:
                    e = (rng.choice(('add', 'mul', 'sub', 'div')), e, rng.choice((special(rng), X, I(2), FR(Fraction(-1, 3)))))
            elif r < 0.9:
                e = gen.rand_arith(rng, rng.choice((2, 3)), unary=UN, p_unary=0.25, floats=rng.random() < 0.2)
            else:
                e = boolean(rng)
            items.append(self.make(e, 'e%d' % k))
            if r < 0.9 and rng.random() < 0.15 and isinstance(e, tuple) and e[0] in ('add', 'mul') and len(e) >= 3:
                args = list(e[1:])
                rng.shuffle(args)
                self.pairs.append(('p%d' % k, e, (e[0],) + tuple(args)))
        self.vp_execute(items, 'c16')
        self.run_pairs()
        self.min_evals = 2500

    def make(self, e, cid):
        stmts = [('let', 'e', e), ('emit', '$e'), ('let', 's', ('str', '$e')), ('emit', ('parse', '$s')), ('emit', ('eq', ('parse', '$s'), '$e')), ('emit', '$s')]
        it = dict(cid=cid, stmts=stmts, at=3, spec=None, recipe=e, label='roundtrip', kind='complex')
        it['rebuild'] = lambda r2: self.make(r2, 'k')
        return it

    def result_tree(self, it, st):
        r = it['_res']
        se = r.s(1)
        if se is None or se.st != 'ok':
            return None
        it['spec'] = se.v['t']
        text = r.s(5).v if r.s(5) is not None and r.s(5).st == 'ok' else ''
        it['text'] = text
        it['nontrivial'] = '(' in text or '-' in text
        return st.v['t']

    def extra_checks(self, it, r):
        sq = r.s(4)
        if sq is not None and sq.st == 'ok' and sq.v is False:
            a, b = it['spec'], it['_rawtree']
            if _norm15(a) == _norm15(b):
                self.count('float-printed-to-15-digits')     # doubles are printed with 15 significant digits: equal up to that is a faithful round trip
                return
            if _has_special_double(a):
                self.count('zero-or-nonfinite-double-in-input')     # +-0.0, inf, nan doubles: text cannot carry them back (C06's domain)
                return
            from .c11 import norm_full
            it['_noteq'] = 're-canonicalised' if norm_full(_n15tree(a)) == norm_full(_n15tree(b)) else True

    def on_exception(self, it, st):
        if str(st.ty).endswith('NotImplementedError'):
            return      # arithmetic between number kinds the library declines (counted by the driver), not a syntax problem
        self.violation(dict(clause='str-does-not-parse', ty=str(st.ty).split('::')[-1], outer=it['recipe'][0]),
                       dict(program=[render(s) for s in it['stmts']], msg=st.msg, config='asan'))

    def vp_execute(self, items, tag):
        VPCheck.vp_execute(self, items, tag)
        # round trips that kept the value but not the structure
        seen = set()
        for it in items:
            if it.get('_noteq') and it['cid'] not in getattr(self, '_value_bad', set()):
                key = dict(clause='roundtrip-not-eq-same-value', outer=it['recipe'][0])
                if it['_noteq'] == 're-canonicalised':
                    key = dict(clause='roundtrip-not-eq-same-value', family='re-canonicalised')
                ks = str(sorted(key.items()))
                self.count('roundtrip-structure-differs')
                if ks in seen:
                    continue
                seen.add(ks)
                self.violation(key, dict(program=[render(s) for s in it['stmts']], text=it.get('text'), parsed=it.get('_str'), config='asan'))

    def key_of(self, it, detail):
        self._value_bad = getattr(self, '_value_bad', set())
        self._value_bad.add(it['cid'])
        k = VPCheck.key_of(self, it, detail)
        k['clause'] = 'roundtrip-changes-value'
        return k

    def run_pairs(self):
        cases = []
        for cid, a, b in self.pairs:
            cases.append((cid, [('let', 'a', a), ('let', 'b', b), ('emit', ('eq', '$a', '$b')), ('emit', ('str', '$a')), ('emit', ('str', '$b'))]))
        res, _ = run_cases('asan', cases, tag='c16p')
        for cid, stmts in cases:
            r = res.get(cid)
            if r is None or r.status != 'ok' or any(r.s(i) is None or r.s(i).st != 'ok' for i in (2, 3, 4)):
                continue
            if r.s(2).v is True:
                self.evaluations += 1
                self.count('eq-pairs-printed')
                if r.s(3).v != r.s(4).v:
                    self.violation(dict(clause='equal-expressions-print-differently'),
                                   dict(program=[render(s) for s in stmts], str_a=r.s(3).v, str_b=r.s(4).v, config='asan'))
