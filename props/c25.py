"""C25 - CSR matrices stay canonical and agree with dense ones.
Each case is a history: a CSR matrix built from COO triples (duplicates are summed) followed by set() updates and operations; the monitor
keeps a dense model (Gaussian rationals / symbolic entries) in lock-step and checks, after every step, (S) an independent canonical-format
check of the raw arrays (p, j, x) returned by as_vectors(), is_canonical() agreeing with it, and the whole grid of get(i, j)."""
import json
from fractions import Fraction
from vlib import gen
from vlib.gen import I, FR, CX, S, X, Y
from vlib.core import Check, run_cases, run_one, check_process_reports, crash_key, render
from .c24 import G, ZERO, ONE, mmul, madd, transpose, rand_entry

R = Fraction


def canonical_problem(v):
    """independent check of the documented CSR canonical format on the arrays"""
    rows, cols, p, j = v['r'], v['c'], v['p'], v['j']
    if len(p) != rows + 1:
        return 'row pointer has %d entries for %d rows' % (len(p), rows)
    if p[0] != 0:
        return 'p[0] = %d' % p[0]
    if p[-1] != len(j) or len(j) != len(v['x']):
        return 'p[rows] = %d but %d column indices / %d values' % (p[-1], len(j), len(v['x']))
    for r in range(rows):
        if p[r] > p[r + 1]:
            return 'row pointer decreases at row %d' % r
        cs = j[p[r]:p[r + 1]]
        for a, b in zip(cs, cs[1:]):
            if a >= b:
                return 'column indices of row %d not strictly increasing: %s' % (r, cs)
        if cs and cs[-1] >= cols:
            return 'column index %d out of range in row %d' % (cs[-1], r)
    return None


def csr_dense(v):
    """dense matrix (exact entries or None) from the raw arrays"""
    rows, cols = v['r'], v['c']
    M = [[ZERO] * cols for _ in range(rows)]
    for r in range(rows):
        for k in range(v['p'][r], v['p'][r + 1]):
            x = gen.exact_value(v['x'][k])
            M[r][v['j'][k]] = None if x is None else G(x[1], x[2] if x[0] == 'c' else 0)
    return M


def mkcoo(r, c, triples):
    return ('csr_from_coo', r, c, tuple(str(t[0]) for t in triples), tuple(str(t[1]) for t in triples), tuple(t[2].recipe() for t in triples))


def rand_coo(rng, r, c, kind, density=None):
    density = rng.choice((0.0, 0.2, 0.5, 0.8, 1.0)) if density is None else density
    tr = []
    for i in range(r):
        for j in range(c):
            if rng.random() < density:
                v = rand_entry(rng, kind)
                if v.iszero() and rng.random() < 0.7:
                    v = ONE
                tr.append((i, j, v))
                if rng.random() < 0.15:          # duplicate entry: must be summed
                    tr.append((i, j, rand_entry(rng, kind)))
                if rng.random() < 0.05:          # duplicates cancelling to zero
                    tr.append((i, j, -v))
    rng.shuffle(tr)
    return tr


def model_of(r, c, triples):
    M = [[ZERO] * c for _ in range(r)]
    for i, j, v in triples:
        M[i][j] = M[i][j] + v
    return M


class C(Check):
    prop = 'C25'

    def run(self):
        rng = self.rng
        self.rule = ('histories on CSR matrices up to 6x6: construction from shuffled COO triples with duplicate (summed) and cancelling entries, densities 0-100%, '
                     '1-25 set() updates (insert, overwrite, set to zero), then add / mul / elementwise_mul / scalar mul / transpose / conjugate / submatrix / '
                     'scale rows / scale columns / diagonal between independently built matrices incl. empty rows and cancelling sums; after every step the raw '
                     '(p, j, x) arrays must pass an independent canonical-format check, is_canonical() must agree, and every get(i, j) must equal the dense '
                     'model kept by the monitor; jacobian compared with the dense jacobian; non-trivial = history with >= 3 steps on a matrix with >= 2 rows')
        cases = []
        meta = {}
        for k in range(self.q(2500, 80000)):
            kind = rng.choice(('int', 'int', 'rat', 'gauss'))
            r, c = rng.randint(1, 6), rng.randint(1, 6)
            tr = rand_coo(rng, r, c, kind)
            M = model_of(r, c, tr)
            stmts = [('let', 'A', mkcoo(r, c, tr)), ('emit', '$A'), ('emit', ('csr_is_canonical', '$A'))]
            steps = [('coo', [row[:] for row in M])]
            for _ in range(rng.choice((0, 1, 3, 8, 25))):
                i, j = rng.randrange(r), rng.randrange(c)
                v = ZERO if rng.random() < 0.3 else rand_entry(rng, kind)
                M[i][j] = v
                stmts += [('let', 'A', ('csr_set', '$A', i, j, v.recipe())), ('emit', '$A'), ('emit', ('csr_is_canonical', '$A'))]
                steps.append(('set', [row[:] for row in M]))
            # binary / unary operations with a second matrix
            c2 = rng.randint(1, 5)
            trB = rand_coo(rng, c, c2, kind)
            B = model_of(c, c2, trB)
            trC = rand_coo(rng, r, c, kind)
            Cm = model_of(r, c, trC)
            if rng.random() < 0.3:
                trC = [(i, j, -v) for i, j, v in [(i, j, M[i][j]) for i in range(r) for j in range(c) if not M[i][j].iszero()]]   # A + (-A): all cancels
                Cm = model_of(r, c, trC)
            s = rand_entry(rng, kind)
            r0, c0 = rng.randrange(r), rng.randrange(c)
            r1, c1 = rng.randrange(r0, r), rng.randrange(c0, c)
            nz = lambda: G(rng.choice((1, -1, 2, 3, -4)))        # (a zero scaling factor is documented to raise)
            sr = [[nz()] for _ in range(r)]
            sc = [[nz()] for _ in range(c)]
            from .c24 import mk as mkd
            msub = [[x - y for x, y in zip(ra, rb)] for ra, rb in zip(M, Cm)]
            ops = [(('csr_binop_add', '$A', mkcoo(r, c, trC)), madd(M, Cm)), (('csr_binop_sub', '$A', mkcoo(r, c, trC)), msub),
                   (('csr_binop_mul', '$A', mkcoo(r, c, trC)), [[x * y for x, y in zip(ra, rb)] for ra, rb in zip(M, Cm)]),
                   (('csr_add', '$A', mkcoo(r, c, trC)), madd(M, Cm)), (('csr_mul', '$A', mkcoo(c, c2, trB)), mmul(M, B)),
                   (('csr_elementwise_mul', '$A', mkcoo(r, c, trC)), [[x * y for x, y in zip(a, b)] for a, b in zip(M, Cm)]),
                   (('csr_mul_scalar', '$A', s.recipe()), [[x * s for x in row] for row in M]),
                   (('csr_transpose', '$A'), transpose(M)), (('csr_conjugate', '$A'), [[x.conj() for x in row] for row in M]),
                   (('csr_conjugate_transpose', '$A'), [[x.conj() for x in row] for row in transpose(M)]),
                   (('csr_submatrix', '$A', r0, c0, r1, c1), [row[c0:c1 + 1] for row in M[r0:r1 + 1]]),
                   (('csr_scale_rows_', '$A', mkd(sr)), [[x * sr[i][0] for x in row] for i, row in enumerate(M)]),
                   (('csr_scale_columns_', '$A', mkd(sc)), [[x * sc[j][0] for j, x in enumerate(row)] for row in M]),
                   (('csr_binop_add', '$A', '$A'), madd(M, M)), (('csr_binop_sub', '$A', '$A'), [[ZERO] * c for _ in range(r)])]
            for ex, want in ops:
                stmts += [('let', 'T', ex), ('emit', '$T'), ('emit', ('csr_is_canonical', '$T'))]
                steps.append((ex[0], want))
            stmts += [('emit', ('csr_diagonal_', '$A')), ('emit', ('csr_add_scalar', '$A', s.recipe()))]
            cid = 'h%d' % k
            cases.append((cid, stmts))
            meta[cid] = (stmts, steps, M, s, r, c)
        # jacobian: CSR vs dense
        jcases = []
        for k in range(self.q(300, 8000)):
            syms = [S(n) for n in ('x', 'y', 'z')]
            ex = [gen.rand_arith(rng, 2, unary=('sin', 'exp'), p_unary=0.2, complex_=False) if rng.random() < 0.8 else rng.choice((I(0), I(3), syms[0])) for _ in range(rng.randint(1, 4))]
            stmts = [('let', 'J', ('csr_jacobian', ('vec',) + tuple(ex), ('vec',) + tuple(syms))), ('emit', '$J'), ('emit', ('csr_is_canonical', '$J')),
                     ('emit', ('csr_to_dense', '$J')), ('emit', ('d_jacobian', ('vec',) + tuple(ex), ('vec',) + tuple(syms)))]
            jcases.append(('j%d' % k, stmts))
        res, reps = run_cases('asan', cases + jcases, tag='c25', timeout=60)
        check_process_reports(self, reps)
        self.seen = set()
        for cid, (stmts, steps, M, s, r_, c_) in meta.items():
            r = res.get(cid)
            if r is None:
                self.inconclusive += 1
                continue
            self.note_asserts(r)
            prog = [render(x) for x in stmts]
            if r.status == 'crashed':
                idx = len(r.stmts)
                self.report(dict(crash_key(r), op=(render(stmts[idx])[:30] if idx < len(stmts) else '?')), dict(program=prog[:idx + 1][-6:], crash=r.crash, config='asan'))
                continue
            if r.status != 'ok':
                self.inconclusive += 1
                continue
            if len(steps) >= 3 and r_ >= 2:
                self.nontriv(prog[0])
                if len(self.samples) < 3:
                    self.sample(dict(history=[p_[:160] for p_ in prog[:1] + [x for x in prog if x.startswith('(let')][1:8]], steps=len(steps), shape=[r_, c_]))
            pos = 1
            for si, (name, want) in enumerate(steps):
                if name in ('coo', 'set'):
                    sv, sc = r.s(pos), r.s(pos + 1)
                    pos += 3 if True else 0
                    if name == 'coo':
                        pos = 3
                else:
                    sv, sc = r.s(pos + 1), r.s(pos + 2)
                    pos += 3
                # (statement layout: [let A, emit A, emit canon] then per set: [let A, emit A, emit canon]; per op: [let T, emit T, emit canon])
            # simpler and robust: walk the statements and pair every "(emit $X)" of a CSR value with the following is_canonical
            self.walk(r, stmts, steps, prog)
            # diagonal and add_scalar (dense results)
            st = r.s(len(stmts) - 2)
            if st is not None and st.st == 'ok':
                from .c24 import decode
                rr, cc, D, exact, nonfin = decode(st.v)
                want = [[M[i][i]] for i in range(min(r_, c_))]
                self.evaluations += 1
                if D != want:
                    self.report(dict(clause='value', op='csr_diagonal'), dict(program=prog[:1] + prog[-2:-1], got=str(D)[:200], expected=str(want)[:200], config='asan'))
            st = r.s(len(stmts) - 1)
            if st is not None and st.st == 'ok':
                from .c24 import decode
                rr, cc, D, exact, nonfin = decode(st.v)
                want = [[x + s for x in row] for row in M]
                self.evaluations += 1
                if D != want:
                    self.report(dict(clause='value', op='csr_add_scalar'), dict(program=prog[:1] + prog[-1:], got=str(D)[:200], expected=str(want)[:200], config='asan'))
        for cid, stmts in jcases:
            r = res.get(cid)
            if r is None or r.status != 'ok':
                if r is not None and r.status == 'crashed':
                    self.report(dict(crash_key(r), op='csr_jacobian'), dict(program=[render(x) for x in stmts], crash=r.crash, config='asan'))
                continue
            sv, sc, sd, sj = r.s(1), r.s(2), r.s(3), r.s(4)
            if any(x is None or x.st != 'ok' for x in (sv, sc, sd, sj)):
                continue
            self.evaluations += 1
            cp = canonical_problem(sv.v)
            if cp or sc.v is not True:
                self.report(dict(clause='not-canonical', op='csr_jacobian'), dict(program=[render(x) for x in stmts], problem=cp, is_canonical=sc.v, config='asan'))
            if json.dumps(sd.v['e']) != json.dumps(sj.v['e']):
                self.report(dict(clause='value', op='csr_jacobian'), dict(program=[render(x) for x in stmts], config='asan'))
        self.min_evals = 5000

    def report(self, key, wit):
        ks = str(sorted((k, str(v)) for k, v in key.items()))
        if ks in self.seen:
            return
        self.seen.add(ks)
        self.violation(key, wit)

    def walk(self, r, stmts, steps, prog):
        """pair each emitted CSR value with its model"""
        k = 0
        for i, stx in enumerate(stmts):
            if stx[0] == 'emit' and stx[1] in ('$A', '$T') and k < len(steps):
                name, want = steps[k]
                k += 1
                sv, sc = r.s(i), r.s(i + 1)
                if sv is None:
                    continue
                self.evaluations += 1
                self.count('step:' + name)
                ctx = prog[max(0, i - 1):i + 1]
                if sv.st != 'ok':
                    slet = r.s(i - 1)
                    if slet is not None and slet.st == 'exc' and str(slet.ty).endswith('NotImplementedError'):
                        self.count('declined-not-implemented:' + name)      # CSR member functions that are stubs
                    elif slet is not None and slet.st == 'exc':
                        self.report(dict(clause='raised', op=name, ty=str(slet.ty)), dict(program=prog[:1] + ctx, msg=slet.msg, config='asan'))
                    continue
                v = sv.v
                cp = canonical_problem(v)
                if cp:
                    self.report(dict(clause='not-canonical', op=name, what=cp.split(' ')[0] + ' ' + cp.split(' ')[1]), dict(program=prog[:1] + ctx, problem=cp, arrays=dict(p=v['p'], j=v['j']), config='asan'))
                    continue
                if sc is not None and sc.st == 'ok' and sc.v is not True:
                    self.report(dict(clause='is_canonical-disagrees', op=name), dict(program=prog[:1] + ctx, arrays=dict(p=v['p'], j=v['j']), config='asan'))
                got = csr_dense(v)
                if (v['r'], v['c']) != (len(want), len(want[0]) if want else v['c']) or got != want:
                    self.report(dict(clause='value', op=name), dict(program=prog[:1] + ctx, got=str(got)[:300], expected=str(want)[:300], config='asan'))
                # (explicit zeros - cancelling duplicates, set to zero - are not excluded by the documented canonical format: counted only)
                if any(gen.exact_value(x) == ('q', Fraction(0)) for x in v['x']):
                    self.count('explicit-zero-stored:' + name)
