"""C34 - property queries under assumptions are sound.
A definite answer (true/false) is refuted only by a decidable witness: an assignment satisfying the assumptions at which the value of
the expression - computed exactly over Gaussian rationals when possible, otherwise by mpmath with a wide margin - has the opposite
property.  The oracle is sound by construction and intentionally incomplete; everything else is inconclusive."""
import json
from fractions import Fraction
from mpmath import mp, mpf, mpc
import mpmath
from vlib import gen, oracle_e
from vlib.gen import I, FR, CX, S, K, X, Y
from vlib.core import Check, run_cases, run_one, check_process_reports, crash_key, render
from . import _value

QUERIES = ['is_zero', 'is_nonzero', 'is_positive', 'is_negative', 'is_nonnegative', 'is_nonpositive', 'is_real', 'is_integer', 'is_complex', 'is_finite',
           'is_infinite', 'is_even', 'is_odd', 'is_algebraic', 'is_transcendental']
NOASSUM = ['is_rational', 'is_irrational']
R = Fraction
# assumption set -> (exact pool, extra numeric pool)
POOLS = {
    (): ([(R(1), R(1)), (R(0), R(-1, 2)), (R(2), R(0)), (R(-1, 2), R(0)), (R(0), R(0)), (R(3), R(-2))], ['sqrt2', 'pi', 'ipi']),
    ('real',): ([(R(-2), 0), (R(-1, 2), 0), (R(0), 0), (R(1, 2), 0), (R(7, 3), 0), (R(1), 0), (R(3), 0)], ['sqrt2', '-sqrt2', 'pi', '-e']),
    ('positive',): ([(R(1, 2), 0), (R(1), 0), (R(7, 3), 0), (R(2), 0), (R(10), 0)], ['sqrt2', 'pi']),
    ('negative',): ([(R(-1, 2), 0), (R(-1), 0), (R(-7, 3), 0), (R(-2), 0)], ['-sqrt2', '-e']),
    ('nonnegative',): ([(R(0), 0), (R(1, 2), 0), (R(1), 0), (R(3), 0)], ['sqrt2']),
    ('nonpositive',): ([(R(0), 0), (R(-1, 2), 0), (R(-1), 0), (R(-3), 0)], ['-sqrt2']),
    ('integer',): ([(R(-3), 0), (R(-1), 0), (R(0), 0), (R(1), 0), (R(2), 0), (R(4), 0)], []),
    ('integer', 'positive'): ([(R(1), 0), (R(2), 0), (R(3), 0), (R(6), 0)], []),
    ('integer', 'negative'): ([(R(-1), 0), (R(-2), 0), (R(-5), 0)], []),
    ('rational',): ([(R(-2), 0), (R(-1, 2), 0), (R(0), 0), (R(7, 3), 0), (R(1), 0)], []),
    ('real', 'nonzero'): ([(R(-2), 0), (R(-1, 2), 0), (R(1, 2), 0), (R(3), 0)], ['sqrt2', '-e']),
    ('nonzero',): ([(R(1), R(1)), (R(0), R(-1, 2)), (R(2), R(0)), (R(-1, 2), R(0))], ['sqrt2', 'ipi']),
    ('zero',): ([(R(0), 0)], []),
}
IRR = {'sqrt2': lambda: mp.sqrt(2), '-sqrt2': lambda: -mp.sqrt(2), 'pi': lambda: +mp.pi, '-e': lambda: -mp.e, 'ipi': lambda: mpc(0, mp.pi)}


# ------------------------------------------------------------------ exact evaluation over Gaussian rationals
class NotExact(Exception):
    pass


def cmul(a, b):
    return (a[0] * b[0] - a[1] * b[1], a[0] * b[1] + a[1] * b[0])


def cinv(a):
    d = a[0] * a[0] + a[1] * a[1]
    if d == 0:
        raise NotExact('division by zero')
    return (a[0] / d, -a[1] / d)


def cpow(a, n):
    if n < 0:
        a, n = cinv(a), -n
    r = (R(1), R(0))
    for _ in range(n):
        r = cmul(r, a)
    return r


def exact(t, env):
    h = t[0]
    if h == 'Integer':
        return (R(int(t[1])), R(0))
    if h == 'Rational':
        return (R(int(t[1]), int(t[2])), R(0))
    if h == 'Complex':
        a, b = gen.parse_q(t[1]), gen.parse_q(t[2])
        return (R(*a), R(*b))
    if h == 'Symbol':
        if t[1] not in env:
            raise NotExact('symbol')
        return env[t[1]]
    if h == 'Add':
        r = exact(t[1], env)
        for term in t[2:]:
            v = cmul(exact(term[1], env), exact(term[2], env))
            r = (r[0] + v[0], r[1] + v[1])
        return r
    if h == 'Mul':
        r = exact(t[1], env)
        for term in t[2:]:
            ex = term[2]
            if ex[0] != 'Integer' or abs(int(ex[1])) > 12:
                raise NotExact('exponent')
            r = cmul(r, cpow(exact(term[1], env), int(ex[1])))
        return r
    if h == 'Pow':
        ex = t[2]
        if ex[0] != 'Integer' or abs(int(ex[1])) > 12:
            raise NotExact('exponent')
        return cpow(exact(t[1], env), int(ex[1]))
    if h == 'Abs':
        v = exact(t[1], env)
        if v[1] != 0:
            raise NotExact('abs of complex')
        return (abs(v[0]), R(0))
    if h == 'Sign':
        v = exact(t[1], env)
        if v[1] != 0:
            raise NotExact('sign of complex')
        return (R((v[0] > 0) - (v[0] < 0)), R(0))
    if h == 'Conjugate':
        v = exact(t[1], env)
        return (v[0], -v[1])
    raise NotExact(h)


def props_exact(v):
    a, b = v
    real = b == 0
    integer = real and a.denominator == 1
    return dict(is_zero=(a == 0 and b == 0), is_nonzero=not (a == 0 and b == 0), is_positive=real and a > 0, is_negative=real and a < 0,
                is_nonnegative=real and a >= 0, is_nonpositive=real and a <= 0, is_real=real, is_integer=integer, is_complex=True, is_finite=True,
                is_infinite=False, is_even=integer and a.numerator % 2 == 0, is_odd=integer and a.numerator % 2 == 1, is_algebraic=True,
                is_transcendental=False, is_rational=real, is_irrational=False)


def refute_numeric(q, ans, w):
    """True if the definite answer `ans` of query q is contradicted, with margin, by the numeric value w."""
    m = mpf(10) ** -10
    isreal = isinstance(w, mpf) or (isinstance(w, mpc) and w.imag == 0)
    re = w.real if isinstance(w, mpc) else w
    im = w.imag if isinstance(w, mpc) else mpf(0)
    if not (mp.isfinite(re) and mp.isfinite(im)):
        return False
    if q == 'is_zero':
        return ans and abs(w) > m
    if q == 'is_nonzero':
        return (not ans) and abs(w) > m
    if q == 'is_real':
        return (ans and abs(im) > m) or ((not ans) and isreal)
    if q in ('is_positive', 'is_negative', 'is_nonnegative', 'is_nonpositive'):
        sgn = 1 if q in ('is_positive', 'is_nonnegative') else -1
        if ans:
            return abs(im) > m or sgn * re < -m
        return isreal and sgn * re > m
    if q == 'is_integer':
        return ans and (abs(im) > m or abs(re - mp.nint(re)) > m)
    if q in ('is_even', 'is_odd'):
        if not ans:
            return False
        if abs(im) > m or abs(re - mp.nint(re)) > m:
            return True
        return (int(mp.nint(re)) % 2 == 0) != (q == 'is_even')
    return False


# ------------------------------------------------------------------ structural definition of is_polynomial
def is_poly(t, vars_):
    def has(t):
        return bool(oracle_e.symbols_of(t) & vars_)
    h = t[0]
    if not has(t):
        return True
    if h == 'Symbol':
        return True
    if h == 'Add':
        return all(is_poly(term[1], vars_) for term in t[2:])
    if h == 'Mul':
        for term in t[2:]:
            if not is_poly(['Pow', term[1], term[2]] if term[2] != ['Integer', '1'] else term[1], vars_):
                return False
        return True
    if h == 'Pow':
        if has(t[2]):
            return False
        if not has(t[1]):
            return True
        return t[2][0] == 'Integer' and int(t[2][1]) >= 0 and is_poly(t[1], vars_)
    return False


def expr(rng, depth, syms):
    if depth <= 0 or rng.random() < 0.2:
        return rng.choice(syms + syms + [I(0), I(1), I(-1), I(2), I(-3), FR(R(1, 2)), FR(R(-2, 3)), CX(0, 1), CX(1, -1), K('pi'), K('E'), I(4)])
    r = rng.random()
    sub = lambda: expr(rng, depth - 1, syms)
    if r < 0.28:
        return (rng.choice(('add', 'add', 'sub')), sub(), sub())
    if r < 0.52:
        return ('mul', sub(), sub())
    if r < 0.68:
        return ('pow', sub(), rng.choice((I(2), I(3), I(-1), I(-2), I(4), FR(R(1, 2)), FR(R(1, 3)), I(0), rng.choice(syms))))
    if r < 0.74:
        return ('div', sub(), sub())
    if r < 0.92:
        return (rng.choice(('abs', 'sign', 'conjugate', 'exp', 'log', 'sin', 'cos', 'sqrt', 'abs', 'floor', 'ceiling')), sub())
    return ('neg', sub())


class C(Check):
    prop = 'C34'

    def run(self):
        rng = self.rng
        self.rule = ('expressions (depth 1-3) over + - * / integer, rational and symbolic powers, abs, sign, conjugate, exp, log, sin, cos, sqrt, floor, ceiling, '
                     'exact and Gaussian leaves, pi, E; 1-2 symbols each under one of 13 consistent assumption sets; 15 queries with assumptions + is_rational, '
                     'is_irrational + is_polynomial; every definite answer is tested against all assignments from the pool its assumptions allow (exact '
                     'Gaussian-rational evaluation decides every property; irrational/complex pool values decide sign/zero/real/integer claims by mpmath '
                     'with margin 1e-10); is_polynomial against the structural definition; non-trivial = definite answer on an expression containing a symbol')
        items = []
        for k in range(self.q(6000, 150000)):
            nsym = rng.choice((1, 1, 2))
            names = ['x', 'y'][:nsym]
            syms = [S(n) for n in names]
            e = expr(rng, rng.choice((1, 2, 2, 3)), syms)
            amap = {n: rng.choice(list(POOLS)) for n in names}
            if rng.random() < 0.3:
                # sign reasoning on linear combinations / products of same-kind symbols (non-strict assumptions, negative coefficients, zero constant)
                kind = rng.choice([k for k in POOLS if k and k != ('zero',)] + [('nonpositive',), ('nonnegative',)])
                amap = {n: (kind if rng.random() < 0.8 else rng.choice(list(POOLS))) for n in names}
                cf = lambda: rng.choice((I(-1), I(-1), I(1), I(2), I(-2), FR(R(-1, 2)), FR(R(1, 3))))
                terms = [('mul', cf(), sy) for sy in syms]
                if rng.random() < 0.3:
                    terms.append(rng.choice((I(1), I(-1), I(0), FR(R(1, 2)))))
                e = ('add',) + tuple(terms) if len(terms) > 1 else terms[0]
                if rng.random() < 0.25:
                    e = ('mul', cf()) + tuple(syms)
                if rng.random() < 0.15:
                    e = (rng.choice(('abs', 'exp', 'neg')), e)
            alist = tuple((kind, S(n)) for n in names for kind in amap[n])
            stmts = [('let', 'e', e), ('let', 'a', ('assume',) + alist), ('emit', '$e')]
            stmts += [('emit', (q, '$e', '$a')) for q in QUERIES] + [('emit', (q, '$e')) for q in NOASSUM]
            stmts += [('emit', ('is_polynomial', '$e') + tuple(syms[:1])), ('emit', ('is_polynomial', '$e') + tuple(syms))]
            items.append(('e%d' % k, e, amap, stmts))
        res, reps = run_cases('asan', [(c, s) for c, _, _, s in items], tag='c34')
        check_process_reports(self, reps)
        seen = set()
        for cid, e, amap, stmts in items:
            r = res.get(cid)
            if r is None:
                self.inconclusive += 1
                continue
            self.note_asserts(r)
            prog = [render(s) for s in stmts[:3]]
            if r.status == 'crashed':
                self.violation(crash_key(r), dict(program=[render(s) for s in stmts], crash=r.crash, config='asan'))
                continue
            se = r.s(2)
            if r.status != 'ok' or se is None or se.st != 'ok':
                self.inconclusive += 1
                continue
            te = se.v['t']
            answers = {}
            for j, q in enumerate(QUERIES + NOASSUM):
                st = r.s(3 + j)
                if st is not None and st.st == 'ok' and st.v in ('true', 'false'):
                    answers[q] = (st.v == 'true')
                elif st is not None and st.st == 'exc':
                    self.count('declined:' + q)
            self.evaluations += 1
            hassym = bool(oracle_e.symbols_of(te))
            if answers and hassym:
                self.nontriv(prog[0] + prog[1])
            for q in answers:
                self.count('definite:' + q)
            # is_polynomial
            names = sorted(amap)
            for j, vs in enumerate((names[:1], names)):
                st = r.s(3 + len(QUERIES) + len(NOASSUM) + j)
                if st is not None and st.st == 'ok' and isinstance(st.v, bool):
                    try:
                        want = is_poly(te, set(vs))
                    except Exception:
                        continue
                    self.count('is_polynomial-checked')
                    if st.v != want:
                        key = dict(clause='is_polynomial', library=st.v, outer=te[0])
                        if json.dumps(key) not in seen:
                            seen.add(json.dumps(key))
                            self.violation(key, dict(program=prog + [render(stmts[3 + len(QUERIES) + len(NOASSUM) + j])], expr=se.v['s'], library=st.v,
                                                     structural_definition=want, config='asan'))
            if not answers:
                continue
            # assignments
            wit = self.refute(te, amap, answers)
            for q, detail in wit:
                # is_rational / is_irrational take no assumptions: only judged on symbol-free expressions
                if q in NOASSUM and hassym:
                    continue
                key = dict(clause='unsound-answer', query=q, answer=answers[q], outer=te[0],
                           assumptions=','.join('+'.join(amap[n]) or 'none' for n in names) if hassym else 'n/a')
                ks = json.dumps(key, sort_keys=True)
                if ks in seen:
                    continue
                seen.add(ks)
                self.violation(key, dict(program=prog + ['(emit (%s $e $a))' % q], expr=se.v['s'], answer=answers[q], witness=detail, config='asan'))
            if len(self.samples) < 6 and hassym and len(answers) >= 6:
                self.sample(dict(expr=se.v['s'], assumptions={n: list(a) for n, a in amap.items()}, definite={q: a for q, a in answers.items()}))
        self.min_evals = 2000

    def refute(self, te, amap, answers):
        names = sorted(amap)
        out = []
        done = set()
        import itertools
        pools = [POOLS[amap[n]][0] for n in names]
        for combo in itertools.islice(itertools.product(*pools), 40):
            env = {n: (R(v[0]), R(v[1])) for n, v in zip(names, combo)}
            try:
                v = exact(te, env)
            except NotExact:
                break
            except ZeroDivisionError:
                continue
            p = props_exact(v)
            self.count('exact-assignments')
            for q, a in answers.items():
                if q in p and p[q] != a and q not in done:
                    done.add(q)
                    out.append((q, dict(assignment={n: str(env[n]) for n in names}, exact_value='%s + %s*I' % v, property_value=p[q])))
        # numeric pool (irrational / complex values, and everything the exact evaluator cannot do)
        npools = []
        for n in names:
            ex, irr = POOLS[amap[n]]
            npools.append([('q', v) for v in ex] + [('i', k) for k in irr])
        num_q = [q for q in answers if q not in done and q in ('is_zero', 'is_nonzero', 'is_real', 'is_positive', 'is_negative', 'is_nonnegative', 'is_nonpositive',
                                                              'is_integer', 'is_even', 'is_odd')]
        if num_q:
            for combo in itertools.islice(itertools.product(*npools), 30):
                def val(c):
                    if c[0] == 'q':
                        a, b = c[1]
                        return mpf(a.numerator) / a.denominator if b == 0 else mpc(mpf(R(a).numerator) / R(a).denominator, mpf(R(b).numerator) / R(b).denominator)
                    return IRR[c[1]]()
                try:
                    w = _value.bounded(lambda: self._numeval(te, names, combo, val), seconds=5, default=None)
                except Exception:
                    continue
                if w is None:
                    continue
                self.count('numeric-assignments')
                for q in num_q:
                    if q in done:
                        continue
                    with mp.workdps(60):
                        if refute_numeric(q, answers[q], w[0]) and refute_numeric(q, answers[q], w[1]):
                            done.add(q)
                            out.append((q, dict(assignment={n: str(c[1]) for n, c in zip(names, combo)}, value=mp.nstr(w[0], 20))))
        return out

    def _numeval(self, te, names, combo, val):
        res = []
        for dps in (60, 120):
            with mp.workdps(dps):
                env = {n: val(c) for n, c in zip(names, combo)}
                v = oracle_e.Evaluator(env).ev(te)
                if isinstance(v, bool) or oracle_e.kind_of(v) != 'finite':
                    return None
                res.append(v)
        return res
