"""C09 - expand: value-preserving, complete, idempotent, decides polynomial identity.
(a) value by oracle E; (b) structural completeness by an independent walk of the result tree; (c) idempotence by the library's eq;
(d) exact monomial dictionaries over Gaussian rationals computed by the monitor (schoolbook) for polynomial inputs."""
from fractions import Fraction
from vlib import gen
from vlib.gen import I, FR, CX, S, X, Y, Z
from ._vp import VPCheck
from vlib.core import render

SYMS = ('x', 'y', 'z', 'w')


# ------------------------------------------------------------------ exact polynomial reference (Gaussian rational coefficients)
class NotPoly(Exception):
    pass


def cmul(a, b):
    return (a[0] * b[0] - a[1] * b[1], a[0] * b[1] + a[1] * b[0])


def padd(p, q):
    r = dict(p)
    for m, c in q.items():
        v = r.get(m, (Fraction(0), Fraction(0)))
        v = (v[0] + c[0], v[1] + c[1])
        if v == (0, 0):
            r.pop(m, None)
        else:
            r[m] = v
    return r


def pmul(p, q):
    r = {}
    for m1, c1 in p.items():
        for m2, c2 in q.items():
            m = tuple(a + b for a, b in zip(m1, m2))
            c = cmul(c1, c2)
            v = r.get(m, (Fraction(0), Fraction(0)))
            v = (v[0] + c[0], v[1] + c[1])
            if v == (0, 0):
                r.pop(m, None)
            else:
                r[m] = v
    return r


def pconst(re, im=Fraction(0)):
    return {(0,) * len(SYMS): (Fraction(re), Fraction(im))} if (re, im) != (0, 0) else {}


def ppow(p, n):
    r = pconst(1)
    for _ in range(n):
        r = pmul(r, p)
    return r


def _q(s):
    a, b = gen.parse_q(s)
    return Fraction(a, b)


def polydict(t):
    """Monomial dictionary of a recipe or of a dump tree; raises NotPoly."""
    h = t[0]
    if h in ('int', 'Integer'):
        return pconst(int(t[1]))
    if h in ('rat', 'Rational'):
        return pconst(Fraction(int(t[1]), int(t[2])))
    if h == 'cpx':
        a, b = polydict(t[1]), polydict(t[2])
        z = (0,) * len(SYMS)
        return padd(a, pmul(b, pconst(0, 1)))
    if h == 'Complex':
        return pconst(_q(t[1]), _q(t[2]))
    if h in ('sym', 'Symbol'):
        if t[1] not in SYMS:
            raise NotPoly(t[1])
        m = tuple(1 if s == t[1] else 0 for s in SYMS)
        return {m: (Fraction(1), Fraction(0))}
    if h == 'add':
        r = {}
        for a in t[1:]:
            r = padd(r, polydict(a))
        return r
    if h == 'sub':
        return padd(polydict(t[1]), pmul(pconst(-1), polydict(t[2])))
    if h == 'neg':
        return pmul(pconst(-1), polydict(t[1]))
    if h == 'mul':
        r = pconst(1)
        for a in t[1:]:
            r = pmul(r, polydict(a))
        return r
    if h in ('pow', 'Pow'):
        e = t[2]
        if e[0] not in ('int', 'Integer') or int(e[1]) < 0:
            raise NotPoly('exponent')
        return ppow(polydict(t[1]), int(e[1]))
    if h == 'Add':
        r = polydict(t[1])
        for term in t[2:]:
            r = padd(r, pmul(polydict(term[1]), polydict(term[2])))
        return r
    if h == 'Mul':
        r = polydict(t[1])
        for term in t[2:]:
            e = term[2]
            if e[0] != 'Integer' or int(e[1]) < 0:
                raise NotPoly('exponent')
            r = pmul(r, ppow(polydict(term[1]), int(e[1])))
        return r
    raise NotPoly(h)


# ------------------------------------------------------------------ structural completeness (S)
def unexpanded(t, top=True):
    """Returns a description of the first product / positive integer power of a sum found outside function arguments, or None."""
    h = t[0]
    if h == 'Add':
        for term in t[2:]:
            # term = [T, key, coef]: key may be a Mul / Pow / anything
            r = unexpanded(term[1], False)
            if r:
                return r
        return None
    if h == 'Mul':
        nsum = 0
        for term in t[2:]:
            base, ex = term[1], term[2]
            if base[0] == 'Add' and ex[0] == 'Integer' and int(ex[1]) > 0:
                return 'sum raised to %s inside a product' % ex[1]
            r = unexpanded(base, False) if base[0] in ('Mul', 'Pow') else None
            if r:
                return r
        # a numeric coefficient times a sum is also a product of a sum unless the library keeps 2*(x+y) form: it does not after expand
        return None
    if h == 'Pow':
        base, ex = t[1], t[2]
        if base[0] == 'Add' and ex[0] == 'Integer' and int(ex[1]) > 0:
            return 'sum raised to positive integer %s' % ex[1]
        if base[0] in ('Mul',):
            return unexpanded(base, False)
        return None
    return None


# ------------------------------------------------------------------ generators
def coef(rng):
    r = rng.random()
    if r < 0.5:
        return I(rng.choice((1, 2, 3, -1, -2, 5, 7, -3)))
    if r < 0.75:
        return FR(rng.choice((Fraction(1, 2), Fraction(-2, 3), Fraction(3, 4), Fraction(5, 2), Fraction(-1, 3))))
    if r < 0.9:
        a, b = rng.choice(gen.GAUSS)
        return CX(a, b)
    return I(rng.choice((10 ** 20 + 1, -(2 ** 70), 12345678901234567)))


def poly_recipe(rng, depth, nsym):
    syms = [S(s) for s in SYMS[:nsym]]
    if depth <= 0 or rng.random() < 0.12:
        return rng.choice(syms) if rng.random() < 0.7 else coef(rng)
    r = rng.random()
    sub = lambda: poly_recipe(rng, depth - 1, nsym)
    if r < 0.35:
        return ('add',) + tuple(sub() for _ in range(rng.choice((2, 2, 3))))
    if r < 0.45:
        return ('sub', sub(), sub())
    if r < 0.75:
        return ('mul',) + tuple(sub() for _ in range(rng.choice((2, 2, 3))))
    if r < 0.8:
        return ('neg', sub())
    if r < 0.88:
        return ('mul', coef(rng), sub())
    return ('pow', sub(), I(rng.choice((2, 2, 3, 3, 4, 0, 1, 5))))


def general_recipe(rng, depth, nsym):
    """sums/products/integer powers incl. negative powers, opaque atoms"""
    syms = [S(s) for s in SYMS[:nsym]]
    atoms = syms + [('sin', syms[0]), ('func', 'f', ('add', syms[0], syms[-1])), ('exp', syms[0]), ('pow', syms[0], FR(Fraction(1, 2))),
                    ('log', ('add', syms[0], I(1))), ('cos', ('mul', ('add', syms[0], I(1)), ('add', syms[-1], I(2))))]
    if depth <= 0 or rng.random() < 0.12:
        return rng.choice(atoms) if rng.random() < 0.75 else coef(rng)
    r = rng.random()
    sub = lambda: general_recipe(rng, depth - 1, nsym)
    if r < 0.33:
        return ('add',) + tuple(sub() for _ in range(rng.choice((2, 2, 3))))
    if r < 0.4:
        return ('sub', sub(), sub())
    if r < 0.7:
        return ('mul',) + tuple(sub() for _ in range(rng.choice((2, 2, 3))))
    if r < 0.75:
        return ('neg', sub())
    if r < 0.8:
        return ('div', sub(), sub())
    return ('pow', sub(), I(rng.choice((2, 3, -1, -2, 4, -3, 2, 3))))


class C(VPCheck):
    prop = 'C09'

    def run(self):
        rng = self.rng
        self.rule = ('sums/products/integer powers (-3..5, binomials up to power 30 in thorough) nested to depth 4 over 1-4 symbols with integer, rational, '
                     'Gaussian and multi-limb coefficients and opaque atoms (sin, f(x+y), exp, sqrt, log); judged by value (mpmath), by an '
                     'independent structural walk (no product / positive integer power of a sum outside function arguments), idempotence, and for '
                     'polynomial inputs by exact monomial dictionaries (schoolbook over Gaussian rationals) incl. the decision of equality for '
                     'planted equal/unequal pairs; non-trivial = input containing a product or power of a sum')
        items = []
        n = self.q(5000, 150000)
        self.poly_items = {}
        for k in range(n):
            nsym = rng.choice((1, 2, 2, 3, 4))
            if k % 2 == 0:
                rcp = poly_recipe(rng, rng.choice((2, 3, 3, 4)), nsym)
                ispoly = True
            else:
                rcp = general_recipe(rng, rng.choice((2, 3, 3)), nsym)
                ispoly = False
            if rng.random() < 0.03:
                a, b = (coef(rng), S('x')), (coef(rng), S('y'))
                rcp = ('pow', ('add', ('mul',) + a, ('mul',) + b, coef(rng)), I(rng.choice(self.q((6, 8, 10), (12, 20, 30)))))
                ispoly = True
            items.append(self.make(rcp, 'e%d' % k, ispoly))
        # planted equal / unequal polynomial pairs
        self.pairs = []
        for k in range(self.q(600, 15000)):
            nsym = rng.choice((1, 2, 3))
            p = poly_recipe(rng, 3, nsym)
            r = rng.random()
            if r < 0.5:
                q = shuffle_recipe(p, rng)            # equal by construction
            elif r < 0.8:
                q = ('add', shuffle_recipe(p, rng), ('mul', I(rng.choice((1, -1))), rng.choice((S('x'), I(1), ('mul', S('x'), S('y'))))))
            else:
                q = poly_recipe(rng, 3, nsym)
            stmts = [('let', 'p', ('expand', p)), ('let', 'q', ('expand', q)), ('emit', ('eq', '$p', '$q')), ('emit', ('eq', '$q', '$p'))]
            self.pairs.append(('q%d' % k, p, q, stmts))
        self.vp_execute(items, 'c09')
        self.run_pairs()
        self.min_evals = 1500

    def make(self, rcp, cid, ispoly=False):
        stmts = [('let', 'e', rcp), ('let', 'r', ('expand', '$e')), ('emit', '$r'), ('emit', ('eq', ('expand', '$r'), '$r'))]
        heads = gen.recipe_str(rcp)
        nt = ('(pow (add' in heads or '(pow (sub' in heads or ('(mul' in heads and '(add' in heads))
        it = dict(cid=cid, stmts=stmts, at=2, spec=rcp, recipe=rcp, label='expand', nontrivial=nt, kind='complex', ispoly=ispoly)
        it['rebuild'] = lambda r2: self.make(r2, 'k', False)
        return it

    def extra_checks(self, it, r):
        tree = it['_tree']
        prog = [render(s) for s in it['stmts']]
        bad = unexpanded(tree)
        if bad:
            self.count('structural-hit')
            self.violation(dict(clause='not-fully-expanded', what=bad.split(' to ')[0]), dict(program=prog, result=it['_str'], problem=bad, config='asan'))
        st = r.s(3)
        if st is not None and st.st == 'ok' and st.v is False:
            self.violation(dict(clause='not-idempotent'), dict(program=prog, result=it['_str'], config='asan'))
        if it.get('ispoly'):
            try:
                want = polydict(it['recipe'])
            except NotPoly:
                return
            self.count('poly-dict-checked')
            try:
                got = polydict(tree)
            except NotPoly as ex:
                self.violation(dict(clause='polynomial-result-not-polynomial'), dict(program=prog, result=it['_str'], problem=str(ex), config='asan'))
                return
            if got != want:
                diff = [(m, str(want.get(m)), str(got.get(m))) for m in set(want) | set(got) if want.get(m) != got.get(m)][:3]
                self.violation(dict(clause='polynomial-coefficients'), dict(program=prog, result=it['_str'], differing_monomials=diff, config='asan'))

    def run_pairs(self):
        from vlib.core import run_cases
        res, _ = run_cases('asan', [(c, s) for c, _, _, s in self.pairs], tag='c09p')
        for cid, p, q, stmts in self.pairs:
            r = res.get(cid)
            if r is None or r.status != 'ok' or r.s(2) is None or r.s(2).st != 'ok' or r.s(3) is None or r.s(3).st != 'ok':
                self.inconclusive += 1
                continue
            try:
                same = polydict(p) == polydict(q)
            except NotPoly:
                continue
            self.evaluations += 1
            self.count('pairs-equal' if same else 'pairs-unequal')
            if r.s(2).v != same or r.s(3).v != same:
                self.violation(dict(clause='identity-decision', equal_as_polynomials=same),
                               dict(program=[render(s) for s in stmts], eq_pq=r.s(2).v, eq_qp=r.s(3).v, config='asan'))


def shuffle_recipe(r, rng):
    """Same polynomial, different construction: permute operands of add/mul, distribute one product."""
    if isinstance(r, tuple) and r and r[0] in ('add', 'mul'):
        args = [shuffle_recipe(a, rng) for a in r[1:]]
        rng.shuffle(args)
        if r[0] == 'mul' and len(args) == 2 and isinstance(args[1], tuple) and args[1][0] == 'add' and rng.random() < 0.5:
            return ('add',) + tuple(('mul', args[0], t) for t in args[1][1:])
        return (r[0],) + tuple(args)
    if isinstance(r, tuple) and r and r[0] in ('sub', 'neg', 'pow'):
        return (r[0],) + tuple(shuffle_recipe(a, rng) if isinstance(a, tuple) and a[0] not in ('int',) else a for a in r[1:])
    return r
