"""C02 - __cmp__ is a strict total order consistent with eq; ordered containers behave as sets keyed by eq."""
import numpy as np
from vlib.core import Check, run_cases, run_one, check_process_reports, crash_key
from vlib import gen
from . import _order


class C(Check):
    prop = 'C02'

    def run(self):
        rng = self.rng
        self.rule = ('universes of 30-70 expressions per kind mix (all number kinds incl. signed zeros, inf/NaN doubles, oo/zoo/nan, '
                     'symbols, dummies, sums/products/powers, functions, sets, booleans, relationals, Piecewise, polynomials, matrix '
                     'expressions); the full n x n matrices of __cmp__, eq and RCPBasicKeyLess are computed by the executor and every '
                     'pair and triple is judged (numpy); non-trivial = universe member pairs sharing a type code')
        nu = self.q(250, 5000)
        cases, meta = _order.make_cases(rng, nu, self.q(45, 70))
        res, reps = run_cases('asan', cases, tag='c02')
        check_process_reports(self, reps)
        progs = dict(cases)
        for cid, u in meta.items():
            r = res.get(cid)
            if r is None:
                continue
            self.note_asserts(r)
            if r.status == 'crashed':
                self.violation(crash_key(r), dict(program=[gen.recipe_str(s) for s in progs[cid]], crash=r.crash))
                continue
            st = r.s(len(u))
            if r.status != 'ok' or st is None or st.st != 'ok':
                self.inconclusive += 1
                continue
            v, dropped = _order.drop_asserting(st.v)
            if dropped:
                self.count('members-dropped-for-assertion-hook', dropped)
                self.inconclusive += dropped
            n, M, E, L, H = _order.matrices(v)
            idx = v['idx']
            self.evaluations += n * n
            self.count('universes')
            self.count('triples-judged', n * n * n)
            heads = [u[i][0] for i in idx]
            for a in range(n):
                for b in range(a + 1, n):
                    if heads[a] == heads[b]:
                        self.nontriv((gen.recipe_str(u[idx[a]]), gen.recipe_str(u[idx[b]])))
            if len(self.samples) < 5 and n >= 3:
                self.sample(dict(a=gen.recipe_str(u[idx[0]]), b=gen.recipe_str(u[idx[1]]), cmp_ab=int(M[0, 1]), cmp_ba=int(M[1, 0]), eq=bool(E[0, 1])))
            Mi = M.astype(np.int32)
            # range / totality
            bad = np.argwhere((Mi < -1) | (Mi > 1))
            for i, j in bad[:3]:
                self._report('cmp-range-or-exception', u, idx, [i, j], dict(value=int(M[i, j])))
            if len(bad):
                continue
            # reflexive
            for i in np.argwhere(np.diag(Mi) != 0)[:3]:
                self._report('cmp-reflexive', u, idx, [int(i[0])], dict(value=int(M[i[0], i[0]])))
            # cmp == 0 <=> eq
            for i, j in np.argwhere((Mi == 0) != E)[:6]:
                if i != j:
                    self._report('cmp-zero-iff-eq', u, idx, [i, j], dict(cmp=int(M[i, j]), eq=bool(E[i, j])))
            # antisymmetry
            for i, j in np.argwhere(Mi != -Mi.T)[:6]:
                if i < j:
                    self._report('cmp-antisymmetric', u, idx, [i, j], dict(cmp_ij=int(M[i, j]), cmp_ji=int(M[j, i])))
            # transitivity (incl. through equality)
            Lt = (Mi == -1)
            Le = (Mi <= 0)
            comp = (Lt.astype(np.int32) @ Le.astype(np.int32)) > 0   # a<b<=c
            viol = comp & ~Lt
            comp2 = (Le.astype(np.int32) @ Lt.astype(np.int32)) > 0  # a<=b<c
            viol |= comp2 & ~Lt
            for a, c_ in np.argwhere(viol)[:4]:
                # find the middle element
                mids = np.argwhere((Lt[a, :] & Le[:, c_]) | (Le[a, :] & Lt[:, c_]))
                b = int(mids[0][0])
                self._report('cmp-transitive', u, idx, [int(a), b, int(c_)], dict(cmp_ab=int(M[a, b]), cmp_bc=int(M[b, c_]), cmp_ac=int(M[a, c_])))
            # RCPBasicKeyLess: strict weak order whose equivalence is eq
            for i in np.argwhere(np.diag(L))[:2]:
                self._report('less-irreflexive', u, idx, [int(i[0])], {})
            for i, j in np.argwhere(L & L.T)[:4]:
                if i < j:
                    self._report('less-asymmetric', u, idx, [i, j], {})
            equiv = ~L & ~L.T
            for i, j in np.argwhere(equiv != (E | E.T))[:6]:
                if i < j:
                    self._report('less-equivalence-is-eq', u, idx, [i, j], dict(less_ij=bool(L[i, j]), less_ji=bool(L[j, i]), eq=bool(E[i, j])))
            Li = L.astype(np.int32)
            tv = ((Li @ Li) > 0) & ~L
            for a, c_ in np.argwhere(tv)[:3]:
                b = int(np.argwhere(L[a, :] & L[:, c_])[0][0])
                self._report('less-transitive', u, idx, [int(a), b, int(c_)], {})
            # container level: set_basic size equals number of eq classes and iteration is insertion-order independent
            classes = self._classes(E | E.T, n)
            if v['set_size'] is not None and v['set_size'] != classes:
                self._container('ordered-container-size', u, idx, E, dict(set_size=v['set_size'], classes=classes), progs[cid])
            elif not v['set_order_indep']:
                self._container('ordered-container-order-dependent', u, idx, E, {}, progs[cid])
        self.min_evals = 1000

    @staticmethod
    def _classes(Eq, n):
        seen = [-1] * n
        c = 0
        for i in range(n):
            if seen[i] >= 0:
                continue
            seen[i] = c
            for j in range(i + 1, n):
                if Eq[i, j] and seen[j] < 0:
                    seen[j] = c
            c += 1
        return c

    def _container(self, clause, u, idx, E, extra, prog):
        self.violation(dict(clause=clause), dict(program=[gen.recipe_str(s) for s in prog], config='asan', **extra))

    def _report(self, clause, u, idx, members, extra):
        members = [int(m) for m in members]
        recs = [u[idx[m]] for m in members]
        prog = _order.minimal_program(u, [idx[m] for m in members])
        r, _ = run_one('asan', 'confirm', prog)
        ok = r is not None and r.status == 'ok' and r.s(len(members)) is not None and r.s(len(members)).st == 'ok'
        if ok:
            n, M, E, L, H = _order.matrices(r.s(len(members)).v)
            ok = (n == len(members)) and self._holds(clause, M.astype(np.int32), E, L)
        if not ok:
            self.inconclusive += 1
            return
        kinds = sorted(_order.kind_of_recipe(x) for x in recs)
        self.violation(dict(clause=clause, kinds=kinds),
                       dict(members=[gen.recipe_str(x) for x in recs], program=[gen.recipe_str(s) for s in prog], config='asan', **extra))

    @staticmethod
    def _holds(clause, M, E, L):
        """Is the violation still present in the minimal re-run?"""
        n = M.shape[0]
        if clause == 'cmp-range-or-exception':
            return bool(((M < -1) | (M > 1)).any())
        if clause == 'cmp-reflexive':
            return bool((np.diag(M) != 0).any())
        if clause == 'cmp-zero-iff-eq':
            return bool((((M == 0) != E) & ~np.eye(n, dtype=bool)).any())
        if clause == 'cmp-antisymmetric':
            return bool((M != -M.T).any())
        if clause == 'cmp-transitive':
            Lt, Le = (M == -1), (M <= 0)
            v = (((Lt.astype(np.int32) @ Le.astype(np.int32)) > 0) | ((Le.astype(np.int32) @ Lt.astype(np.int32)) > 0)) & ~Lt
            return bool(v.any())
        if clause == 'less-irreflexive':
            return bool(np.diag(L).any())
        if clause == 'less-asymmetric':
            return bool((L & L.T).any())
        if clause == 'less-equivalence-is-eq':
            return bool(((~L & ~L.T) != (E | E.T)).any())
        if clause == 'less-transitive':
            Li = L.astype(np.int32)
            return bool((((Li @ Li) > 0) & ~L).any())
        return False
