"""C12 - double-precision evaluation is accurate.
Reference: the library's own tree evaluated by mpmath at 50 digits; conditioning measured by evaluating the same tree at 53 bits with
mpmath (a model of IEEE arithmetic with correctly rounded operations).  eval_double, its single-dispatch and visitor variants,
eval_complex_double and evalf(<= 53 bits) must agree with the reference within rounding on well-conditioned trees."""
import multiprocessing as mp_
from fractions import Fraction
import mpmath
from mpmath import mp, mpf, mpc
from vlib.core import Check, run_cases, run_one, check_process_reports, crash_key, resource_crash, render, NCPU, bits_to_float
from vlib import gen, oracle_e
from vlib.gen import I, FR, CX, S, K
from . import _value
from .c10 import _subnodes

F1 = ['sin', 'cos', 'tan', 'cot', 'sec', 'csc', 'asin', 'acos', 'atan', 'acot', 'asec', 'acsc', 'sinh', 'cosh', 'tanh', 'coth', 'sech', 'csch',
      'asinh', 'acosh', 'atanh', 'acoth', 'asech', 'acsch', 'exp', 'log', 'sqrt', 'cbrt', 'abs', 'gamma', 'loggamma', 'erf', 'erfc', 'floor', 'ceiling',
      'truncate', 'sign', 'conjugate', 'lambertw']
CONSTS = ['pi', 'E', 'EulerGamma', 'Catalan', 'GoldenRatio']


def leaf(rng, cplx):
    r = rng.random()
    if r < 0.35:
        return I(rng.choice((1, 2, 3, -1, -2, 5, 7, 10, -3, 12)))
    if r < 0.7:
        return FR(Fraction(rng.randint(-20, 20) or 1, rng.choice((2, 3, 4, 5, 7, 8, 9, 11))))
    if r < 0.9:
        return K(rng.choice(CONSTS))
    if cplx:
        a, b = rng.choice(gen.GAUSS)
        return CX(a, b)
    return I(rng.choice((100, -7, 13)))


def tree(rng, depth, cplx):
    if depth <= 0 or rng.random() < 0.15:
        return leaf(rng, cplx)
    r = rng.random()
    sub = lambda: tree(rng, depth - 1, cplx)
    if r < 0.45:
        return (rng.choice(F1), sub())
    if r < 0.55:
        return ('add', sub(), sub())
    if r < 0.65:
        return ('mul', sub(), sub())
    if r < 0.72:
        return ('div', sub(), sub())
    if r < 0.8:
        return ('pow', sub(), rng.choice((I(2), I(-1), FR(Fraction(1, 2)), FR(Fraction(1, 3)), FR(Fraction(-3, 2)), I(3), sub())))
    if r < 0.85:
        return ('atan2', sub(), sub())
    if r < 0.9:
        return (rng.choice(('max', 'min')),) + tuple(sub() for _ in range(rng.choice((2, 3))))
    if r < 0.94:
        return ('piecewise', (sub(), (rng.choice(('Lt', 'Le', 'Gt', 'Ge')), sub(), sub())), (sub(), K('true')))
    if r < 0.97:
        # first argument kept small: lowergamma/uppergamma of a large integer order expand recursively into that many terms
        return (rng.choice(('beta', 'lowergamma', 'uppergamma')), rng.choice((I(1), I(2), I(3), I(5), FR(Fraction(1, 2)), FR(Fraction(5, 2)), FR(Fraction(7, 3)))), ('abs', sub()))
    return ('sub', sub(), sub())


def _judge(args):
    cid, te, outs, cplx = args
    try:
        r = _value.bounded(lambda: _judge_inner(te, outs, cplx), seconds=20, default=('inconclusive', 'oracle timeout'))
        return (cid,) + tuple(r)
    except oracle_e.Unsupported as ex:
        return cid, 'unsupported', str(ex)
    except oracle_e.Undefined as ex:
        return cid, 'inconclusive', 'undefined: %s' % ex
    except (ZeroDivisionError, OverflowError, ValueError, mpmath.libmp.NoConvergence, TypeError) as ex:
        return cid, 'inconclusive', 'oracle: %s' % type(ex).__name__


def _judge_inner(te, outs, cplx):
    with mp.workdps(50):
        hi = oracle_e.Evaluator({}).ev(te)
    if oracle_e.kind_of(hi) != 'finite' or isinstance(hi, bool):
        return 'inconclusive', 'non-finite reference'
    with mp.workprec(53):
        try:
            lo = oracle_e.Evaluator({}).ev(te)
        except Exception:
            return 'inconclusive', 'double-precision model failed'
    if oracle_e.kind_of(lo) != 'finite':
        return 'inconclusive', 'double-precision model non-finite'
    with mp.workdps(50):
        scale = abs(hi)
        if scale < mpf(10) ** -290 or scale > mpf(10) ** 290:
            return 'inconclusive', 'range'
        cond = abs(mpmath.mpmathify(lo) - hi) / scale
        if cond > mpf(10) ** -10:
            return 'inconclusive', 'ill-conditioned (model error %s)' % mp.nstr(cond, 3)
        tol = mpf(10) ** -12 + 200 * cond
        real_ok = True
        # the real evaluators need every intermediate value to be real; no evaluator is judged when an argument sits on a branch cut
        for sub in _subnodes(te):
            v = oracle_e.Evaluator({}).ev(sub)
            if isinstance(v, bool):
                continue
            if oracle_e.kind_of(v) != 'finite':
                return 'inconclusive', 'non-finite intermediate'
            if abs(v) > mpf(10) ** 300 or (v != 0 and abs(v) < mpf(10) ** -300):
                return 'inconclusive', 'intermediate value outside the range of a double (overflow / underflow is the documented behaviour of double evaluation)'
            if isinstance(v, mpc) and abs(v.imag) > mpf(10) ** -40:
                real_ok = False
            if _on_cut(sub):
                return 'inconclusive', 'argument of %s on a branch cut' % sub[0]
        probs = []
        vals = {}
        for name, val in outs.items():
            if val is None:
                continue
            if name in ('eval_double', 'eval_double_sd', 'eval_double_vp', 'evalf_real'):
                if not real_ok:
                    continue
                got = mpf(val)
                vals[name] = got
                ref = hi.real if isinstance(hi, mpc) else hi
                if not mp.isfinite(got) or abs(got - ref) > tol * scale:
                    probs.append('%s = %s, reference %s (tolerance %s)' % (name, mp.nstr(got, 17), mp.nstr(ref, 20), mp.nstr(tol, 3)))
            else:
                got = mpc(val[0], val[1])
                if not (mp.isfinite(got.real) and mp.isfinite(got.imag)) or abs(got - hi) > tol * scale:
                    probs.append('%s = %s, reference %s (tolerance %s)' % (name, mp.nstr(got, 17), mp.nstr(hi, 20), mp.nstr(tol, 3)))
        rv = [vals[k] for k in ('eval_double', 'eval_double_sd', 'eval_double_vp') if k in vals]
        if len(rv) >= 2 and max(rv) - min(rv) > max(4 * mpf(2) ** -52, tol / 10) * max(abs(x) for x in rv):
            probs.append('real evaluators disagree: %s' % [mp.nstr(x, 17) for x in rv])
    if probs:
        return 'diff', probs
    return 'ok', len([v for v in outs.values() if v is not None])


def _on_cut(t, env=None):
    """t = dump node; True when its argument lies (to 1e-30) on the branch cut of the function: the value there is a convention and the
    function is discontinuous, so the point is not 'well-conditioned'."""
    h = t[0]
    eps = mpf(10) ** -30

    def arg(i=1):
        return oracle_e.Evaluator(env or {}).ev(t[i])

    def re_im(v):
        return (v.real, v.imag) if isinstance(v, mpc) else (v, mpf(0))
    try:
        if h in ('ASin', 'ACos', 'ATanh'):
            x, y = re_im(arg())
            return abs(y) < eps and abs(x) > 1 - eps
        if h in ('ASec', 'ACsc', 'ACoth'):
            x, y = re_im(arg())
            return abs(y) < eps and abs(x) < 1 + eps
        if h == 'ACosh':
            x, y = re_im(arg())
            return abs(y) < eps and x < 1 + eps
        if h == 'ASech':
            x, y = re_im(arg())
            return abs(y) < eps and (x < eps or x > 1 - eps)
        if h in ('ATan', 'ACot', 'ASinh'):
            x, y = re_im(arg())
            return abs(x) < eps and (abs(y) > 1 - eps or (h == 'ACot' and abs(y) < 1 + eps))
        if h == 'ACsch':
            x, y = re_im(arg())
            return abs(x) < eps and abs(y) < 1 + eps
        if h in ('Log', 'LogGamma'):
            # complex double arithmetic reaches a negative real through values like c - 0.0*I, which land on the other side of the cut
            x, y = re_im(arg())
            return abs(y) < eps and x < eps
        if h == 'Pow':
            if t[2][0] == 'Integer':
                return False
            x, y = re_im(arg(1))
            return abs(y) < eps and x < eps
        if h == 'LambertW':
            x, y = re_im(arg())
            return abs(y) < eps and x < -mpf(1) / mp.e + eps
        if h == 'ATan2':
            x, y = re_im(arg(2))
            x2, y2 = re_im(arg(1))
            return abs(x2) < eps and x < eps
        if h == 'Mul':
            for term in t[2:]:
                if term[2][0] != 'Integer':
                    x, y = re_im(oracle_e.Evaluator(env or {}).ev(term[1]))
                    if abs(y) < eps and x < eps:
                        return True
            return False
    except Exception:
        return False
    return False


def numval(st):
    """decode an emitted double / list of doubles / number tree into python floats"""
    if st is None or st.st != 'ok':
        return None
    v = st.v
    if isinstance(v, dict) and v.get('k') == 'd':
        return bits_to_float(v['x'])
    if isinstance(v, list):
        return [bits_to_float(x['x']) for x in v]
    if isinstance(v, dict) and 't' in v:
        t = v['t']
        if t[0] == 'RealDouble':
            return bits_to_float(t[1])
        if t[0] == 'ComplexDouble':
            return [bits_to_float(t[1]), bits_to_float(t[2])]
        if t[0] in ('Integer', 'Rational'):
            x = gen.exact_value(t)
            return float(x[1])
    return None


class C(Check):
    prop = 'C12'
    OPS = [('eval_double', ('eval_double', '$e')), ('eval_double_sd', ('eval_double_sd', '$e')), ('eval_double_vp', ('eval_double_vp', '$e')),
           ('eval_complex_double', ('eval_complex_double', '$e')), ('evalf_real', ('evalf', '$e', 53, 'real')),
           ('evalf_complex', ('evalf', '$e', 53, 'complex'))]

    def make(self, e):
        return [('let', 'e', e), ('emit', '$e')] + [('emit', op) for _, op in self.OPS]

    def run(self):
        rng = self.rng
        self.rule = ('numeric trees (depth 1-3) over 39 one-argument functions, arithmetic, rational and symbolic powers, atan2, max/min, Piecewise with '
                     'relational conditions, beta / incomplete gamma, exact leaves (integers, rationals, 5 constants, Gaussian rationals); each tree is '
                     'evaluated by eval_double, eval_double_single_dispatch, eval_double_visitor_pattern, eval_complex_double, evalf(53 bits, real and '
                     'complex) and compared with a 50-digit mpmath evaluation of the same tree; tolerance 1e-12 + 200 x the error of a 53-bit mpmath '
                     'evaluation (ill-conditioned trees are inconclusive); real evaluators judged only when every intermediate value is real; '
                     'non-trivial = tree with at least two function applications')
        items = []
        for k in range(self.q(24000, 400000)):
            cplx = rng.random() < 0.3
            e = tree(rng, rng.choice((1, 2, 2, 3)), cplx)
            items.append(('e%d' % k, e, cplx))
        res, reps = run_cases('asan', [(cid, self.make(e)) for cid, e, _ in items], tag='c12')
        check_process_reports(self, reps)
        tojudge = []
        meta = {}
        for cid, e, cplx in items:
            r = res.get(cid)
            if r is None:
                self.inconclusive += 1
                continue
            self.note_asserts(r)
            if r.status == 'crashed' and resource_crash(r):
                self.count('resource-limit (astronomically large integer)')
                continue
            if r.status == 'crashed':
                self.violation(crash_key(r), dict(program=[render(s) for s in self.make(e)], crash=r.crash, config='asan'))
                continue
            se = r.s(1)
            if r.status != 'ok' or se is None or se.st != 'ok':
                self.inconclusive += 1
                continue
            te = se.v['t']
            if gen.tree_number(te) is not None:
                self.count('collapsed-to-number')
                continue
            outs = {}
            for j, (name, _) in enumerate(self.OPS):
                st = r.s(2 + j)
                if st is not None and st.st == 'exc':
                    self.count('declined:%s:%s' % (name, str(st.ty).split('::')[-1]))
                outs[name] = numval(st)
                if outs[name] is not None:
                    self.count('evaluated:' + name)
            if all(v is None for v in outs.values()):
                continue
            tojudge.append((cid, te, outs, cplx))
            meta[cid] = (e, cplx)
        ctx = mp_.get_context('fork')
        with ctx.Pool(NCPU, initializer=_value.limit_worker_memory) as pool:
            out = pool.map(_judge, tojudge, chunksize=max(1, len(tojudge) // (NCPU * 8)))
        cands = []
        for cid, v, d in out:
            self.evaluations += 1
            self.count('verdict:' + v)
            e, cplx = meta[cid]
            s = gen.recipe_str(e)
            if s.count('(') >= 4:
                self.nontriv(s)
            for h in set(_heads(e)):
                self.count('node:' + h)
            if v == 'ok':
                if len(self.samples) < 6 and self.evaluations % 401 == 0:
                    self.sample(dict(tree=s, evaluators_checked=d))
                continue
            if v in ('inconclusive', 'unsupported'):
                self.inconclusive += 1
                if v == 'unsupported':
                    self.count('oracle-unsupported:' + str(d)[:40])
                continue
            cands.append((cid, e, cplx, d))
        seen = set()
        for cid, e, cplx, d in cands[:40]:
            r, _ = run_one('asan', 'c', self.make(e))
            if r is None or r.status != 'ok' or r.s(1) is None or r.s(1).st != 'ok':
                self.inconclusive += 1
                continue
            outs = {name: numval(r.s(2 + j)) for j, (name, _) in enumerate(self.OPS)}
            _, v, d2 = _judge(('k', r.s(1).v['t'], outs, cplx))
            if v != 'diff':
                self.inconclusive += 1
                continue
            heads = sorted(set(_heads(e)))
            which = sorted({p.split(' ')[0] for p in d2})
            key = dict(clause='value', evaluators=','.join(which), outer=e[0])
            ks = str(sorted(key.items()))
            if ks in seen:
                continue
            seen.add(ks)
            self.violation(key, dict(program=[render(s) for s in self.make(e)], problems=d2[:4], nodes=heads, config='asan'))
        self.min_evals = 1500


def _heads(r):
    if isinstance(r, tuple) and r and isinstance(r[0], str):
        yield r[0]
        for a in r[1:]:
            yield from _heads(a)
