"""Generic driver for value-preservation monitors: run programs, judge (spec recipe vs result tree) with oracle E in parallel,
confirm candidates in fresh processes (one batch), shrink only the first member of each key, report."""
from vlib.core import Check, run_cases, run_one, check_process_reports, crash_key, resource_crash, render, NCPU
from vlib import gen, shrink
from . import _value
from .c07 import _shape


def tree_subst(t, name, repl):
    """Replace ['Symbol', name] leaves of a dump tree by repl (a recipe or tree)."""
    if isinstance(t, (list, tuple)):
        if len(t) >= 2 and t[0] in ('Symbol', 'sym') and t[1] == name:
            return repl
        return [t[0]] + [tree_subst(a, name, repl) if isinstance(a, (list, tuple)) else a for a in t[1:]]
    return t


def tree_subst_map(t, mapping):
    """Simultaneous replacement of Symbol leaves of a dump tree (names -> recipes/trees)."""
    if isinstance(t, (list, tuple)):
        if len(t) >= 2 and t[0] in ('Symbol', 'sym') and t[1] in mapping:
            return mapping[t[1]]
        return [t[0]] + [tree_subst_map(a, mapping) if isinstance(a, (list, tuple)) else a for a in t[1:]]
    return t


def recipe_subst(r, mapping):
    """Simultaneous syntactic substitution of ('sym', name) leaves in a recipe."""
    if isinstance(r, tuple) and r and isinstance(r[0], str):
        if r[0] == 'sym' and r[1] in mapping:
            return mapping[r[1]]
        if r[0] in ('int', 'rat', 'real', 'const', 'cdbl'):
            return r
        return (r[0],) + tuple(recipe_subst(a, mapping) if isinstance(a, tuple) else a for a in r[1:])
    return r


class VPCheck(Check):
    """Subclasses build items = dict(cid, stmts, at (index of the emitted result), spec (recipe with the value the result must have),
    post (optional fn(result_tree) -> tree to evaluate), kind ('complex'|'real'|'pos'), kinds (per-symbol), label, nontrivial (bool),
    rebuild (optional fn(recipe) -> item for shrinking), recipe (the thing shrunk))."""
    config = 'asan'
    max_confirm = 40
    max_shrink = 6
    tol = None

    def vp_execute(self, items, tag):
        cases = [(it['cid'], it['stmts']) for it in items]
        res, reps = run_cases(self.config, cases, tag=tag)
        check_process_reports(self, reps)
        byid = {it['cid']: it for it in items}
        groups = {}
        for it in items:
            r = res.get(it['cid'])
            if r is None:
                self.inconclusive += 1
                continue
            self.note_asserts(r)
            if r.status == 'crashed' and resource_crash(r):
                self.count('resource-limit (astronomically large integer)')
                continue
            if r.status == 'crashed':
                self.violation(dict(crash_key(r), label=it.get('label')), dict(program=[render(s) for s in it['stmts']], crash=r.crash, config=self.config))
                continue
            st = r.s(it['at'])
            if r.status != 'ok' or st is None:
                self.inconclusive += 1
                continue
            if st.st == 'exc':
                self.count('declined:%s:%s' % (it.get('label'), str(st.ty).split('::')[-1]))
                self.on_exception(it, st)
                continue
            if st.st != 'ok':
                self.inconclusive += 1
                if st.st == 'assert':
                    self.count('assert-hook')
                continue
            it['_res'] = r
            it['_rawtree'] = st.v.get('t') if isinstance(st.v, dict) else None
            tree = self.result_tree(it, st)
            if tree is None:
                self.inconclusive += 1
                continue
            it['_tree'] = tree
            it['_str'] = st.v.get('s') if isinstance(st.v, dict) else None
            self.extra_checks(it, r)
            groups.setdefault(it.get('kind', 'complex'), []).append(it)
        verdicts = []
        for kind, its in groups.items():
            tj = [(it['cid'], it['spec'], it['_tree'], it.get('kinds')) for it in its]
            verdicts += _value.judge_items(tj, self.seed, tol=self.tol, kind=kind)
        cands = []
        for cid, v, d in verdicts:
            it = byid[cid]
            self.evaluations += 1
            self.count('verdict:' + v)
            if it.get('nontrivial', True):
                self.nontriv(render(it['stmts'][it['at']]) if 'recipe' not in it else gen.recipe_str(it['recipe']))
            if v == 'ok':
                if len(self.samples) < 6 and self.evaluations % 211 == 0:
                    self.sample(dict(program=[render(s) for s in it['stmts']][-3:], result=it.get('_str')))
                continue
            if v in ('inconclusive', 'unsupported'):
                self.inconclusive += 1
                if v == 'unsupported':
                    self.count('oracle-unsupported:' + str(d)[:40])
                continue
            cands.append(it)
        self.vp_confirm(cands, tag)

    # hooks ---------------------------------------------------------------------------------------------------
    def result_tree(self, it, st):
        t = st.v['t'] if isinstance(st.v, dict) and 't' in st.v else None
        if t is not None and it.get('post'):
            t = it['post'](t)
        return t

    def extra_checks(self, it, r):
        pass

    def on_exception(self, it, st):
        pass

    def key_of(self, it, detail):
        return dict(clause='value', label=it.get('label'), shape=gen.recipe_str(_shape(it['recipe'])) if 'recipe' in it else None)

    # confirmation -------------------------------------------------------------------------------------------
    def _judge_fresh(self, its, tag, seed_off=17):
        res, _ = run_cases(self.config, [(it['cid'], it['stmts']) for it in its], tag=tag + 'c', jobs=min(NCPU, max(1, len(its) // 3)))
        out = {}
        tj = {}
        for it in its:
            r = res.get(it['cid'])
            st = r.s(it['at']) if r is not None and r.status == 'ok' else None
            if st is None or st.st != 'ok':
                continue
            it['_res'] = r
            it['_rawtree'] = st.v.get('t') if isinstance(st.v, dict) else None
            tree = self.result_tree(it, st)
            if tree is None:
                continue
            it['_tree'], it['_str'] = tree, (st.v.get('s') if isinstance(st.v, dict) else None)
            tj.setdefault(it.get('kind', 'complex'), []).append((it['cid'], it['spec'], tree, it.get('kinds')))
        for kind, l in tj.items():
            for cid, v, d in _value.judge_items(l, self.seed + seed_off, tol=self.tol, kind=kind):
                out[cid] = (v, d)
        return out

    def vp_confirm(self, cands, tag):
        if not cands:
            return
        cands = cands[:self.max_confirm]
        verd = self._judge_fresh(cands, tag)
        seen = {}
        nshrunk = 0
        for it in cands:
            v, d = verd.get(it['cid'], ('inconclusive', None))
            if v != 'diff':
                self.inconclusive += 1
                continue
            key = self.key_of(it, d)
            ks = str(sorted(key.items()))
            seen[ks] = seen.get(ks, 0) + 1
            if seen[ks] > 1:
                self.violation(key, dict(program=[render(s) for s in it['stmts']], result=it.get('_str'), detail=d, config=self.config))
                continue
            small = it
            if it.get('rebuild') and 'recipe' in it and nshrunk < self.max_shrink:
                nshrunk += 1

                def fails(rcp):
                    try:
                        cand = it['rebuild'](rcp)
                    except Exception:
                        return False
                    if cand is None:
                        return False
                    cand['cid'] = 'k'
                    vv = self._judge_fresh([cand], tag + 's', seed_off=29)
                    return vv.get('k', ('x', None))[0] == 'diff'
                rc = shrink.shrink(it['recipe'], fails, budget=30)
                if rc != it['recipe']:
                    cand = it['rebuild'](rc)
                    if cand is not None:
                        cand['cid'] = 'k'
                        vv = self._judge_fresh([cand], tag + 's', seed_off=31)
                        if vv.get('k', ('x', None))[0] == 'diff':
                            small, d = cand, vv['k'][1]
                            key = self.key_of(small, d)
            self.violation(key, dict(program=[render(s) for s in small['stmts']], original=[render(s) for s in it['stmts']],
                                     result=small.get('_str'), detail=d, config=self.config))
