"""C07 - arithmetic construction preserves value.  Oracle E: the result tree evaluated with mpmath at generic
complex points against the recipe evaluated operation by operation (principal branch)."""
from fractions import Fraction
from vlib.core import Check, run_cases, run_one, check_process_reports, crash_key
from vlib import gen, shrink
from vlib.gen import I, FR, CX, F, S, K, X, Y, Z
from . import _value

RATS = [Fraction(1, 2), Fraction(-1, 2), Fraction(1, 3), Fraction(2, 3), Fraction(-2, 3), Fraction(3, 2), Fraction(-3, 2), Fraction(1, 4),
        Fraction(3, 4), Fraction(5, 2), Fraction(1, 6), Fraction(5, 3), Fraction(-1, 3), Fraction(4, 3), Fraction(7, 2)]
BASES = [2, 3, 4, 8, 9, 12, 16, 18, 27, 32, 64, 72, 100, 108, 128, 1000, -1, -2, -4, -8, -27, -64, 6, 10, 2 ** 10, 3 ** 7, 2 ** 70, -(2 ** 9)]
RBASES = [Fraction(1, 2), Fraction(4, 9), Fraction(8, 27), Fraction(-1, 8), Fraction(9, 4), Fraction(2, 3), Fraction(-4, 9), Fraction(27, 8),
          Fraction(1, 16), Fraction(-27, 64), Fraction(3, 16), Fraction(50, 9)]
FL = [0.5, 2.5, -2.5, 0.1, 3.0, -0.75, 1.0, -1.0, 2.0, -2.0, 1.5, 0.25]


def num(rng, floats=True):
    r = rng.random()
    if r < 0.3:
        return I(rng.choice(BASES))
    if r < 0.55:
        return FR(rng.choice(RBASES))
    if r < 0.7:
        a, b = rng.choice(gen.GAUSS)
        return CX(a, b)
    if r < 0.8 and floats:
        return F(rng.choice(FL))
    if r < 0.9:
        return rng.choice((K('pi'), K('E'), K('I')))
    return I(rng.choice(gen.SMALL_INTS))


def template(rng):
    """Recipes aimed at the automatic rewrite rules."""
    q = lambda: FR(rng.choice(RATS))
    n = lambda: I(rng.choice((2, 3, -1, -2, 4, -3, 5, 0, 1, 6)))
    sym = lambda: rng.choice((X, Y, Z))
    t = rng.randrange(22)
    if t == 0:
        return ('pow', I(rng.choice(BASES)), q())
    if t == 1:
        return ('pow', FR(rng.choice(RBASES)), q())
    if t == 2:
        return ('pow', ('mul', num(rng, False), sym(), sym()), q())
    if t == 3:
        return ('pow', ('pow', sym(), q()), n())
    if t == 4:
        return ('pow', ('pow', sym(), n()), q())
    if t == 5:
        return ('pow', ('pow', sym(), I(-1)), q())
    if t == 6:
        b = rng.choice((I(rng.choice(BASES)), sym(), FR(rng.choice(RBASES))))
        return ('mul',) + tuple(('pow', b, q()) for _ in range(rng.choice((2, 3))))
    if t == 7:
        return ('pow', I(-1), q())
    if t == 8:
        return ('pow', K('I'), rng.choice((n(), q())))
    if t == 9:
        return ('pow', num(rng, False), F(rng.choice(FL)))
    if t == 10:
        return ('pow', F(rng.choice(FL)), num(rng, False))
    if t == 11:
        a = gen.rand_arith(rng, 2, complex_=True)
        return ('div', ('mul', a, sym()), a)
    if t == 12:
        return ('sqrt', ('pow', sym(), I(2)))
    if t == 13:
        return ('cbrt', ('mul', I(rng.choice(BASES)), sym()))
    if t == 14:
        return ('sqrt', ('mul', num(rng, False), ('pow', sym(), n())))
    if t == 15:
        return ('mul', ('sqrt', I(rng.choice(BASES))), ('sqrt', I(rng.choice(BASES))), sym())
    if t == 16:
        return ('pow', ('mul', I(-1), sym()), q())
    if t == 17:
        a, b = rng.choice(gen.GAUSS)
        return ('pow', CX(a, b), rng.choice((n(), q())))
    if t == 18:
        return ('pow', ('neg', ('pow', sym(), q())), n())
    if t == 19:
        return ('pow', ('div', sym(), sym()), q())
    if t == 20:
        return ('add', ('mul', num(rng), ('sqrt', I(rng.choice(BASES)))), ('mul', num(rng), ('sqrt', I(rng.choice(BASES)))))
    return ('pow', ('pow', I(rng.choice(BASES)), q()), q())


def recipe(rng, depth):
    r = rng.random()
    if r < 0.45:
        t = template(rng)
        if rng.random() < 0.4:
            other = gen.rand_arith(rng, 1)
            t = (rng.choice(('add', 'mul', 'sub', 'div')), t, other)
        return t
    return gen.rand_arith(rng, depth, floats=rng.random() < 0.25)


class C(Check):
    prop = 'C07'

    def run(self):
        rng = self.rng
        self.rule = ('random recipes over add/sub/mul/div/neg/pow/sqrt/cbrt (depth 2-5) and templates aimed at the rewrite rules '
                     '(radical extraction, coefficient splitting out of powers of products, nested powers, (-1)**q, I**n, float '
                     'base/exponent); result tree and recipe evaluated by mpmath at 3 generic complex points; non-trivial = result '
                     'tree size differs from recipe size (a rewrite fired)')
        n = self.q(12000, 400000)
        items = []
        for k in range(n):
            items.append(('r%d' % k, recipe(rng, rng.choice((2, 3, 3, 4)))))
        cases = [(cid, [('emit', r)]) for cid, r in items]
        res, reps = run_cases('asan', cases, tag='c07')
        check_process_reports(self, reps)
        tojudge = []
        recs = dict(items)
        for cid, rcp in items:
            r = res.get(cid)
            if r is None:
                continue
            self.note_asserts(r)
            if r.status == 'crashed':
                self.violation(crash_key(r), dict(recipe=gen.recipe_str(rcp), program=['(emit %s)' % gen.recipe_str(rcp)], crash=r.crash, config='asan'))
                continue
            st = r.s(0)
            if r.status != 'ok' or st is None:
                self.inconclusive += 1
                continue
            if st.st == 'exc':
                self.count('declined:' + str(st.ty))
                continue
            if st.st != 'ok':
                self.inconclusive += 1
                continue
            tojudge.append((cid, rcp, st.v['t'], None))
        verdicts = _value.judge_items(tojudge, self.seed)
        trees = {k: t for k, _, t, _ in tojudge}
        for cid, v, d in verdicts:
            self.evaluations += 1
            self.count('verdict:' + v)
            rcp = recs[cid]
            if _value.tree_size(trees[cid]) != gen.recipe_size(rcp) + 1:
                self.nontriv(gen.recipe_str(rcp))
            if v == 'ok':
                if len(self.samples) < 6 and cid.endswith('77'):
                    self.sample(dict(recipe=gen.recipe_str(rcp), result=res[cid].s(0).v['s']))
                continue
            if v in ('inconclusive', 'unsupported'):
                self.inconclusive += 1
                continue
            self._confirm(rcp, d)
        self.min_evals = 1000

    def _fails(self, rcp):
        r, _ = run_one('asan', 'c', [('emit', rcp)])
        if r is None or r.status != 'ok' or r.s(0) is None or r.s(0).st != 'ok':
            return False, None
        if _nonfinite_double(r.s(0).v['t']):
            self.count('double-overflow-in-result (not judged: the recipe overflows double arithmetic)')
            return False, None
        v = _value.judge_items([('k', rcp, r.s(0).v['t'], None)], self.seed + 17)
        return v[0][1] == 'diff', (r.s(0).v, v[0][2])

    def _confirm(self, rcp, detail):
        bad, info = self._fails(rcp)
        if not bad:
            self.inconclusive += 1
            return
        small = shrink.shrink(rcp, lambda x: self._fails(x)[0], budget=60)
        bad, info = self._fails(small)
        if not bad:
            small = rcp
            bad, info = self._fails(small)
        val, det = info
        heads = []

        def walk(x):
            if isinstance(x, tuple) and x and isinstance(x[0], str):
                heads.append(x[0])
                for a in x[1:]:
                    walk(a)
        walk(small)
        key = dict(clause='value', shape=gen.recipe_str(_shape(small)))
        if 'sym' not in heads and _conjugates(det):
            # a constant whose value comes out as the complex conjugate: a power of a power was refolded across a negative real base
            key = dict(clause='value', family='constant-power-of-power-refolded-across-negative-base')
        self.violation(key,
                       dict(recipe=gen.recipe_str(small), original=gen.recipe_str(rcp), result=val['s'], tree=val['t'], detail=det,
                            program=['(emit %s)' % gen.recipe_str(small)], config='asan'))


def _nonfinite_double(t):
    import struct, math
    if isinstance(t, list):
        if t and t[0] in ('RealDouble', 'ComplexDouble'):
            for h in t[1:]:
                try:
                    x = struct.unpack('<d', struct.pack('<Q', int(h, 16)))[0]
                except (ValueError, TypeError):
                    continue
                if math.isinf(x) or math.isnan(x):
                    return True
            return False
        return any(_nonfinite_double(a) for a in t[1:] if isinstance(a, list))
    return False


def _conjugates(det):
    try:
        d = det if isinstance(det, dict) else {}
        a = complex(str(d.get('spec')).replace(' ', '').strip('()'))
        b = complex(str(d.get('result')).replace(' ', '').strip('()'))
        return abs(a - b.conjugate()) <= 1e-9 * max(1.0, abs(a)) and abs(a.imag) > 1e-9
    except Exception:
        return False


def _shape(r):
    """Abstract a minimal recipe: keep operators, classify leaves (so that known findings match a family, not one number)."""
    if isinstance(r, tuple) and r and isinstance(r[0], str):
        h = r[0]
        if h == 'int':
            v = int(r[1])
            return 'int+' if v > 0 else ('int-' if v < 0 else 'int0')
        if h == 'rat':
            v = Fraction(int(r[1]), int(r[2]))
            return 'rat+' if v > 0 else 'rat-'
        if h == 'cpx':
            return 'cpx'
        if h == 'real':
            x = r[1]
            return 'real+' if (isinstance(x, float) and x > 0) else 'real-'
        if h == 'sym':
            return 'sym'
        if h == 'const':
            return 'const:' + r[1]
        return (h,) + tuple(_shape(a) for a in r[1:])
    return r
