"""C27 - set operations have pointwise membership semantics.
For interval / finite-set combinations membership is piecewise constant between consecutive critical values (all endpoints and elements):
the monitor tests every critical value, one rational strictly between each consecutive pair and one beyond each extreme, so each case is
decided exactly.  Number sets add integer / non-integer rational / irrational / complex probes.  A non-boolean answer (unevaluated
Contains) is no answer and never a violation."""
import re
from fractions import Fraction
from vlib import gen
from vlib.gen import I, FR, CX, K
from vlib.core import Check, run_cases, run_one, check_process_reports, crash_key, render

R = Fraction
GRID = [R(-3), R(-1), R(-1, 2), R(0), R(1, 3), R(1), R(2), R(5, 2), R(4)]
NUMSETS = ['reals', 'rationals', 'integers', 'naturals', 'naturals0', 'complexes', 'universalset', 'emptyset']
OO = 10 ** 9


def leaf(rng):
    r = rng.random()
    if r < 0.5:
        a, b = sorted(rng.sample(GRID, 2))
        lo, ro = rng.random() < 0.5, rng.random() < 0.5
        k = rng.random()
        if k < 0.12:
            return ('iv', None, b, True, ro)
        if k < 0.24:
            return ('iv', a, None, lo, True)
        return ('iv', a, b, lo, ro)
    if r < 0.8:
        return ('fs', tuple(sorted(set(rng.sample(GRID + [R(7, 2), R(-2), R(10)], rng.randint(1, 5))))))
    return ('ns', rng.choice(NUMSETS))


def expr(rng, depth):
    if depth <= 0 or rng.random() < 0.25:
        return leaf(rng)
    op = rng.choice(('union', 'union', 'inter', 'inter', 'compl'))
    if op == 'compl':
        return ('compl', expr(rng, depth - 1), expr(rng, depth - 1))
    return (op,) + tuple(expr(rng, depth - 1) for _ in range(rng.choice((2, 2, 3))))


def to_recipe(e, member=False):
    k = e[0]
    if k == 'iv':
        a = K('-oo') if e[1] is None else FR(e[1])
        b = K('oo') if e[2] is None else FR(e[2])
        return ('interval', a, b, bool(e[3]), bool(e[4]))
    if k == 'fs':
        return ('finiteset',) + tuple(FR(x) for x in e[1])
    if k == 'ns':
        return ('setconst', e[1])
    if k == 'compl':
        return ('set_complement', to_recipe(e[1], member), to_recipe(e[2], member))      # e[1] \ e[2]
    f = {'union': 'set_union', 'inter': 'set_intersection'}[k]
    if member and len(e) == 3:
        return ({'union': 'm_set_union', 'inter': 'm_set_intersection'}[k], to_recipe(e[1], member), to_recipe(e[2], member))
    return (f,) + tuple(to_recipe(x, member) for x in e[1:])


def member(e, p):
    """p: ('q', Fraction) | ('irr', float) | ('c',)"""
    k = e[0]
    if k == 'iv':
        if p[0] == 'c':
            return False
        x = p[1]
        lo, hi = e[1], e[2]
        if lo is not None and (x < lo or (x == lo and e[3])):
            return False
        if hi is not None and (x > hi or (x == hi and e[4])):
            return False
        return True
    if k == 'fs':
        return p[0] == 'q' and p[1] in e[1]
    if k == 'ns':
        n = e[1]
        if n in ('universalset', 'complexes'):
            return True
        if n == 'emptyset':
            return False
        if p[0] == 'c':
            return False
        if n == 'reals':
            return True
        if p[0] == 'irr':
            return False
        x = p[1]
        if n == 'rationals':
            return True
        if x.denominator != 1:
            return False
        if n == 'integers':
            return True
        if n == 'naturals':
            return x >= 1
        if n == 'naturals0':
            return x >= 0
    if k == 'union':
        return any(member(x, p) for x in e[1:])
    if k == 'inter':
        return all(member(x, p) for x in e[1:])
    if k == 'compl':
        return member(e[1], p) and not member(e[2], p)
    raise ValueError(k)


def criticals(e, acc):
    if e[0] == 'iv':
        acc.update(x for x in (e[1], e[2]) if x is not None)
    elif e[0] == 'fs':
        acc.update(e[1])
    elif e[0] != 'ns':
        for x in e[1:]:
            criticals(x, acc)
    return acc


def probes(e):
    cs = sorted(criticals(e, set()) | {R(0), R(1)})
    pts = [('q', c) for c in cs]
    for a, b in zip(cs, cs[1:]):
        pts.append(('q', (a + b) / 2))
        m = (a + b) / 2
    pts += [('q', cs[0] - 1), ('q', cs[-1] + 1), ('q', cs[0] - R(1, 2)), ('q', cs[-1] + R(3, 2)), ('q', R(-7)), ('q', R(17)), ('irr', 2 ** 0.5), ('irr', 3.14159265358979), ('c',)]
    return pts


def probe_recipe(p):
    if p[0] == 'q':
        return FR(p[1])
    if p[0] == 'irr':
        return ('sqrt', I(2)) if abs(p[1] - 2 ** 0.5) < 1e-9 else K('pi')
    return CX(1, 1)


class C(Check):
    prop = 'C27'

    def run(self):
        rng = self.rng
        self.rule = ('set expressions (depth <= 3) from intervals with endpoints on a 9-value rational grid (all open/closed combinations, infinite ends), finite '
                     'sets of 1-5 rationals, EmptySet, UniversalSet, Naturals, Naturals0, Integers, Rationals, Reals, Complexes, combined by n-ary '
                     'set_union / set_intersection (free and member functions) and set_complement; contains(t, result) is compared with the boolean combination '
                     'of the operand memberships for every critical value, every midpoint between consecutive critical values, points beyond both extremes, '
                     'sqrt(2), pi and 1+I; non-trivial = at least two different leaves and a result that is not one of the operands')
        cases = []
        meta = {}
        for k in range(self.q(4000, 120000)):
            e = expr(rng, rng.choice((1, 2, 2, 3)))
            pts = probes(e)
            mem = rng.random() < 0.3
            stmts = [('let', 's', to_recipe(e, mem)), ('emit', '$s')] + [('emit', ('contains', probe_recipe(p), '$s')) for p in pts]
            cid = 's%d' % k
            cases.append((cid, stmts))
            meta[cid] = (e, pts, stmts, mem)
        res, reps = run_cases('asan', cases, tag='c27', timeout=20)
        check_process_reports(self, reps)
        seen = set()
        cand = []           # (e, point, mem) of membership mismatches, shrunk below
        for cid, (e, pts, stmts, mem) in meta.items():
            r = res.get(cid)
            if r is None:
                self.inconclusive += 1
                continue
            self.note_asserts(r)
            prog = [render(s) for s in stmts[:2]]
            if r.status == 'crashed':
                ck = crash_key(r)
                if ck.get('kind') == 'asan:stack-overflow':
                    cand.append((e, None, mem))
                    continue
                key = dict(ck, top=e[0])
                if str(key) not in seen:
                    seen.add(str(key))
                    self.violation(key, dict(program=[render(s) for s in stmts][:len(r.stmts) + 1][-3:], crash=r.crash, config='asan'))
                continue
            if r.status == 'timeout':
                cand.append((e, 'hang', mem))
                continue
            s0 = r.s(0)
            if r.status != 'ok' or s0 is None or s0.st != 'ok':
                if s0 is not None and s0.st == 'exc':
                    self.count('declined-construction:' + str(s0.ty).split('::')[-1])
                else:
                    self.inconclusive += 1
                continue
            leaves = set()
            _leaves(e, leaves)
            if len(leaves) >= 2 and e[0] != 'ns':
                self.nontriv(prog[0])
            definite = 0
            bad = False
            for j, p in enumerate(pts):
                st = r.s(2 + j)
                if st is None or st.st != 'ok':
                    continue
                t = st.v['t']
                if t[0] != 'BooleanAtom':
                    self.count('no-definite-answer')
                    continue
                self.evaluations += 1
                definite += 1
                got = t[1] == 'true'
                want = member(e, p)
                if got != want and not bad:
                    bad = True
                    cand.append((e, p, mem))
            if len(self.samples) < 5 and definite >= 6 and e[0] != 'ns' and len(leaves) >= 2:
                self.sample(dict(set=r.s(1).v['s'], built_from=prog[0][:200], points_decided=definite))
        self.judge_candidates(cand)
        self.extras()



def size(e):
    if e[0] == 'fs':
        return 1 + len(e[1])
    if e[0] in ('iv', 'ns'):
        return 1
    return 1 + sum(size(x) for x in e[1:])


def variants(e):
    """strictly smaller expressions: promote a child, drop an operand, drop a finite-set element, shrink inside one child"""
    out = []
    if e[0] == 'fs':
        if len(e[1]) > 1:
            out += [('fs', e[1][:i] + e[1][i + 1:]) for i in range(len(e[1]))]
        return out
    if e[0] in ('iv', 'ns'):
        return out
    out += list(e[1:])
    if e[0] != 'compl' and len(e) > 3:
        out += [e[:i] + e[i + 1:] for i in range(1, len(e))]
    for i in range(1, len(e)):
        out += [e[:i] + (v,) + e[i + 1:] for v in variants(e[i])]
    return out


def shape(e):
    if e[0] == 'iv':
        return 'ivinf' if e[1] is None or e[2] is None else 'iv'
    if e[0] == 'fs':
        return 'fs'
    if e[0] == 'ns':
        return e[1]
    ch = [shape(x) for x in e[1:]]
    if e[0] != 'compl':
        ch.sort()
    return '%s(%s)' % (e[0], ','.join(ch))


def regions(e):
    """exact description of a real set: membership bit of every critical point and of every gap between/around them"""
    cs = sorted(criticals(e, set()) | {R(0), R(1)})
    reps = [cs[0] - 1]
    for i, c in enumerate(cs):
        reps.append(c)
        reps.append((c + cs[i + 1]) / 2 if i + 1 < len(cs) else c + 1)
    return cs, reps, [member(e, ('q', x)) for x in reps]


def _leaves(e, acc):
    if e[0] in ('iv', 'fs', 'ns'):
        acc.add(str(e))
    else:
        for x in e[1:]:
            _leaves(x, acc)


def _ops(e):
    if e[0] in ('iv', 'fs', 'ns'):
        yield e[0] if e[0] != 'ns' else e[1]
    else:
        yield e[0]
        for x in e[1:]:
            yield from _ops(x)


def _api(mem):
    return 'member' if mem else 'free'


def _judge_case(e, mem, r):
    """-> ('overflow'|'hang'|'member', point, got) if the run of e violates, None if it holds, 'inc' if undecided"""
    if r is None:
        return 'inc'
    if r.status == 'crashed':
        if crash_key(r).get('kind') != 'asan:stack-overflow':
            return 'inc'
        rep = r.crash.get('report', '') if isinstance(r.crash, dict) else str(r.crash)
        return ('overflow', None, sorted(set(re.findall(r'in SymEngine::((?:\w+::)?set_\w+)', rep))))
    if r.status == 'timeout':
        return ('hang', None, None)
    if r.status != 'ok' or r.s(0) is None or r.s(0).st != 'ok':
        return None
    for j, p in enumerate(probes(e)):
        st = r.s(2 + j)
        if st is None or st.st != 'ok' or st.v['t'][0] != 'BooleanAtom':
            continue
        got = st.v['t'][1] == 'true'
        if got != member(e, p):
            return ('member', p, got)
    return None


def _stmts(e, mem):
    return [('let', 's', to_recipe(e, mem)), ('emit', '$s')] + [('emit', ('contains', probe_recipe(p), '$s')) for p in probes(e)]


def judge_candidates(self, cand):
    """confirm each candidate in a fresh process, shrink it (batched), report by the shape of the minimal failing expression"""
    buckets = {}
    for e, p, mem in cand:
        kind = 'overflow' if p is None else ('hang' if p == 'hang' else 'member')
        b = (kind, ','.join(sorted(set(_ops(e)))), mem)
        if b not in buckets or size(e) < size(buckets[b][0]):
            buckets[b] = (e, kind, mem)
    live = sorted(buckets.values(), key=lambda t: size(t[0]))[:self.q(40, 300)]
    self.count('candidates', len(cand))
    self.count('candidate-buckets', len(buckets))
    # round 0: fresh-process confirmation
    cases = [('c%d' % i, _stmts(e, mem)) for i, (e, kind, mem) in enumerate(live)]
    res, _ = run_cases('asan', cases, tag='c27c', timeout=20)
    cur = []
    for i, (e, kind, mem) in enumerate(live):
        v = _judge_case(e, mem, res.get('c%d' % i))
        if v in (None, 'inc') or v[0] != kind:
            self.count('unconfirmed-candidates')
            self.inconclusive += 1
            continue
        cur.append([e, kind, mem, v])
    for rnd in range(14):
        cases, owner = [], {}
        for i, (e, kind, mem, v) in enumerate(cur):
            for j, ve in enumerate(sorted(variants(e), key=size)[:30]):
                cid = 'v%d_%d' % (i, j)
                cases.append((cid, _stmts(ve, mem)))
                owner[cid] = (i, ve)
        if not cases:
            break
        res, _ = run_cases('asan', cases, tag='c27s', timeout=20)
        progressed = False
        best = {}
        for cid, (i, ve) in owner.items():
            v = _judge_case(ve, cur[i][2], res.get(cid))
            if v in (None, 'inc') or v[0] != cur[i][1]:
                continue
            if i not in best or size(ve) < size(best[i][0]):
                best[i] = (ve, v)
        for i, (ve, v) in best.items():
            cur[i][0], cur[i][3] = ve, v
            progressed = True
        if not progressed:
            break
    seen = set()
    for e, kind, mem, v in cur:
        prog = [render(s) for s in _stmts(e, mem)[:2]]
        if kind == 'overflow' and not v[2]:
            for _ in range(2):          # the report of a run that shared its process can be cut short: take the recursion from a run of its own
                rr, _r = run_one('asan', 'ov', _stmts(e, mem)[:2], timeout=20)
                v2 = _judge_case(e, mem, rr)
                if v2 not in (None, 'inc') and v2[0] == 'overflow' and v2[2]:
                    v = v2
                    break
        if kind == 'member':
            key = dict(clause='membership', shape=shape(e), library=v[2])
            wit = dict(program=prog + [render(('emit', ('contains', probe_recipe(v[1]), '$s')))], point=str(v[1]), library=v[2], reference=not v[2], api=_api(mem), config='asan')
        elif kind == 'overflow':
            key = dict(clause='crash', kind='asan:stack-overflow', shape=shape(e), through_complement=any('set_complement' in n or n.startswith('Complement::') for n in v[2]))
            wit = dict(program=prog, api=_api(mem), recursion=v[2], config='asan')
        else:
            key = dict(clause='hang', shape=shape(e))
            wit = dict(program=prog, api=_api(mem), config='asan')
        ks = str(key)
        if ks in seen:
            continue
        seen.add(ks)
        self.violation(key, wit)


C.judge_candidates = judge_candidates


def real_leaf(rng):
    r = rng.random()
    if r < 0.6:
        a, b = sorted(rng.sample(GRID, 2))
        lo, ro = rng.random() < 0.5, rng.random() < 0.5
        k = rng.random()
        if k < 0.1:
            return ('iv', None, b, True, ro)
        if k < 0.2:
            return ('iv', a, None, lo, True)
        return ('iv', a, b, lo, ro)
    if r < 0.95:
        return ('fs', tuple(sorted(set(rng.sample(GRID + [R(7, 2), R(-2), R(10)], rng.randint(1, 4))))))
    return ('ns', rng.choice(('reals', 'emptyset')))


def real_expr(rng, depth):
    if depth <= 0 or rng.random() < 0.3:
        return real_leaf(rng)
    op = rng.choice(('union', 'union', 'union', 'inter', 'compl'))
    if op == 'compl':
        return ('compl', real_expr(rng, depth - 1), real_expr(rng, depth - 1))
    return (op,) + tuple(real_expr(rng, depth - 1) for _ in range(rng.choice((2, 2, 3))))


NS_TABLE = {      # name -> (sup, inf, boundary, interior, closure) as reference sets / values
    'reals': ('oo', '-oo', 'emptyset', 'reals', 'reals'),
    'rationals': ('oo', '-oo', 'reals', 'emptyset', 'reals'),
    'integers': ('oo', '-oo', 'integers', 'emptyset', 'integers'),
    'naturals': ('oo', R(1), 'naturals', 'emptyset', 'naturals'),
    'naturals0': ('oo', R(0), 'naturals0', 'emptyset', 'naturals0'),
}


def _num(t):
    """tree of a Number -> Fraction | 'oo' | '-oo' | None"""
    if t[0] == 'Integer':
        return R(int(t[1]))
    if t[0] == 'Rational':
        return R(int(t[1]), int(t[2]))
    if t[0] == 'Infty':
        d = t[1]
        if isinstance(d, list):
            d = _num(d)
        try:
            return 'oo' if R(d) > 0 else '-oo'
        except Exception:
            return None
    return None



def decode_set(t):
    """tree dump of a library set -> reference expression (None if it has parts the reference does not model)"""
    h = t[0]
    if h == 'Interval':
        a, b = _num(t[3]), _num(t[4])
        if a is None or b is None:
            return None
        return ('iv', None if a == '-oo' else a, None if b == 'oo' else b, t[1] == 'lopen', t[2] == 'ropen')
    if h == 'FiniteSet':
        xs = [_num(x) for x in t[1:]]
        if any(x is None or isinstance(x, str) for x in xs):
            return None
        return ('fs', tuple(sorted(xs)))
    if h in ('EmptySet', 'UniversalSet', 'Reals', 'Rationals', 'Integers', 'Naturals', 'Naturals0', 'Complexes'):
        return ('ns', h.lower())
    if h in ('Union', 'Intersection'):
        ch = [decode_set(x) for x in t[1:]]
        if any(c is None for c in ch):
            return None
        return ({'Union': 'union', 'Intersection': 'inter'}[h],) + tuple(ch)
    if h == 'Complement':
        u, c = decode_set(t[1]), decode_set(t[2])
        return None if u is None or c is None else ('compl', u, c)
    return None


def _real_only(e):
    if e[0] == 'ns':
        return e[1] in ('reals', 'emptyset')
    if e[0] in ('iv', 'fs'):
        return True
    return all(_real_only(x) for x in e[1:])


def extras(self):
    """sup / inf / boundary / interior / closure against their definitions on the exact region description"""
    rng = self.rng
    cases, meta = [], {}
    for k in range(self.q(3000, 60000)):
        if rng.random() < 0.06:
            e = ('ns', rng.choice(sorted(NS_TABLE)))
        else:
            e = real_expr(rng, rng.choice((0, 1, 1, 2, 2, 3)))
        cs, reps, bits = regions(e)
        stmts = [('let', 's', to_recipe(e, rng.random() < 0.3)), ('emit', '$s'), ('emit', ('sup', '$s')), ('emit', ('inf', '$s'))]
        for f in ('boundary', 'interior', 'closure'):
            stmts.append(('let', f[0], (f, '$s')))
            stmts.append(('emit', '$' + f[0]))
            stmts += [('emit', ('contains', FR(x), '$' + f[0])) for x in reps]
        cid = 'x%d' % k
        cases.append((cid, stmts))
        meta[cid] = (e, cs, reps, bits, stmts)
    res, reps_ = run_cases('asan', cases, tag='c27x', timeout=20)
    check_process_reports(self, reps_)
    seen = set()

    def viol(key, wit):
        if str(key) in seen:
            return
        seen.add(str(key))
        self.violation(key, wit)
    for cid, (e, cs, reps, bits, stmts) in meta.items():
        r = res.get(cid)
        if r is None or r.status not in ('ok',):
            if r is not None and r.status == 'crashed' and crash_key(r).get('kind') != 'asan:stack-overflow':
                viol(dict(crash_key(r), clause='crash', fn='set_funcs'), dict(program=[render(s) for s in stmts[:len(r.stmts) + 1]][-3:], crash=r.crash, config='asan'))
            else:
                self.count('setfunc-not-run')          # construction crashes/hangs are judged by the membership part
            continue
        self.note_asserts(r)
        if r.s(0) is None or r.s(0).st != 'ok':
            self.count('declined-construction')
            continue
        prog0 = render(stmts[0])
        n = len(reps)
        # the reference describes the set the library built (the membership part judges the construction), at the probes chosen from the recipe
        le = decode_set(r.s(1).v['t']) if r.s(1) is not None and r.s(1).st == 'ok' else None
        if le is None or not (_real_only(le) or (le[0] == 'ns' and le[1] in NS_TABLE)):
            self.count('setfunc-result-not-modelled')
            continue
        if criticals(le, set()) - set(cs):
            self.count('setfunc-new-critical')        # (cannot happen for correct constructions; then the probes would not be exact)
            continue
        e = le
        bits = [member(e, ('q', x)) for x in reps]
        if e[0] == 'ns' and e[1] in NS_TABLE:
            wsup, winf = NS_TABLE[e[1]][0], NS_TABLE[e[1]][1]
            want = {f: [member(('ns', NS_TABLE[e[1]][2 + i]), ('q', x)) for x in reps] for i, f in enumerate(('boundary', 'interior', 'closure'))}
            empty = False
        else:
            empty = not any(bits)
            hi = max((i for i, b in enumerate(bits) if b), default=None)
            lo = min((i for i, b in enumerate(bits) if b), default=None)
            if not empty:
                wsup = 'oo' if hi == n - 1 else (reps[hi] if hi % 2 == 1 else reps[hi + 1])
                winf = '-oo' if lo == 0 else (reps[lo] if lo % 2 == 1 else reps[lo - 1])
            clo = list(bits)
            inte = list(bits)
            for i in range(1, n, 2):
                clo[i] = bits[i] or bits[i - 1] or bits[i + 1]
                inte[i] = bits[i] and bits[i - 1] and bits[i + 1]
            want = dict(closure=clo, interior=inte, boundary=[c and not i for c, i in zip(clo, inte)])
        if not empty:
            for idx, (nm, w) in ((2, ('sup', wsup)), (3, ('inf', winf))):
                st = r.s(idx)
                if st is None or st.st != 'ok':
                    self.count('declined-' + nm)
                    continue
                g = _num(st.v['t'])
                if g is None:
                    self.count('undecoded-' + nm)
                    continue
                self.evaluations += 1
                if g != w:
                    viol(dict(clause=nm, shape=shape(e)), dict(program=[prog0, render(stmts[idx])], set=r.s(1).v['s'], library=str(g), reference=str(w), config='asan'))
        pos = 4
        for f in ('boundary', 'interior', 'closure'):
            st = r.s(pos)
            if st is None or st.st != 'ok':
                self.count('declined-' + f)
                pos += 2 + n
                continue
            for i, x in enumerate(reps):
                a = r.s(pos + 2 + i)
                if a is None or a.st != 'ok' or a.v['t'][0] != 'BooleanAtom':
                    continue
                self.evaluations += 1
                got = a.v['t'][1] == 'true'
                if got != want[f][i]:
                    viol(dict(clause=f, shape=shape(e), library=got),
                         dict(program=[prog0, render(stmts[pos]), render(stmts[pos + 2 + i])], set=r.s(1).v['s'], result=r.s(pos + 1).v['s'] if r.s(pos + 1) is not None and r.s(pos + 1).st == 'ok' else None,
                              point=str(x), library=got, reference=want[f][i], config='asan'))
                    break
            pos += 2 + n
        self.nontriv('setfunc:' + shape(e))
    self.min_evals = 5000


C.extras = extras
