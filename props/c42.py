"""C42 - C API and Expression wrapper agree with the core API.
The executor calls the C functions of cwrapper.h on handles filled with the same objects it gives to the C++ functions, inside a try/catch that
reports any C++ exception crossing the C boundary.  Monitors: (1) differential - a C call succeeds with a tree equal to the C++ result, or returns
a non-zero error code exactly when the C++ call throws; (2) no exception ever escapes; (3) CVecBasic / CSetBasic / CMapBasicBasic scripts against
Python list / set / dict models; (4) Expression operators against add / sub / mul / div / pow / neg / expand / eq; (5) basic_str, basic_parse,
basic_eq, basic_neq, basic_hash, basic_free_symbols, basic_get_args against their C++ counterparts.  Runs under ASan+UBSan with assertions
recording but not throwing (a C caller links a release build)."""
import json
from fractions import Fraction
from vlib import gen
from vlib.gen import I, FR, F, S, K, X, Y, Z
from vlib.core import Check, run_cases, check_process_reports, crash_key, render, Q
from . import c27, _workload

R = Fraction
UN = ['expand', 'neg', 'abs', 'erf', 'erfc', 'sin', 'cos', 'tan', 'asin', 'acos', 'atan', 'csc', 'sec', 'cot', 'acsc', 'asec', 'acot', 'sinh', 'cosh', 'tanh', 'asinh',
      'acosh', 'atanh', 'csch', 'sech', 'coth', 'acsch', 'asech', 'acoth', 'lambertw', 'zeta', 'dirichlet_eta', 'gamma', 'loggamma', 'sqrt', 'cbrt', 'exp', 'log', 'floor',
      'ceiling', 'sign']
BIN = ['add', 'sub', 'mul', 'div', 'pow', 'diff', 'atan2', 'lowergamma', 'uppergamma', 'beta', 'polygamma']
SETUN = {'set_inf': 'inf', 'set_sup': 'sup', 'set_boundary': 'boundary', 'set_interior': 'interior', 'set_closure': 'closure'}
SETBIN = {'set_union': 'm_set_union', 'set_intersection': 'm_set_intersection', 'set_complement': 'm_set_complement'}
ENV = {'SYMENGINE_VERIF_ASSERT': 'continue'}


def operand(rng):
    r = rng.random()
    if r < 0.35:
        return rng.choice((I(0), I(1), I(-1), I(2), I(7), FR(R(1, 2)), FR(R(-3, 4)), F(0.5), F(-2.0), K('oo'), K('-oo'), K('zoo'), K('nan'), K('pi'), K('E'), K('I'), I(12), I(0)))
    if r < 0.55:
        return rng.choice((X, Y, Z))
    return gen.rand_arith(rng, rng.choice((1, 2)), unary=gen.UNARY_ELEM, p_unary=0.3, floats=False)


def tree_of(v):
    return v.get('v', {}).get('t') if isinstance(v, dict) else None


class C(Check):
    prop = 'C42'

    def run(self):
        rng = self.rng
        self.rule = ('41 unary and 11 binary function wrappers, rational_set / complex_set, in-place use (result handle = first operand), basic_subs2, the five set '
                     'function and three set operation wrappers, basic_parse / basic_str / integer_set_str / real_double_set_d, basic_eq / neq / hash, free_symbols, '
                     'get_args on operands incl. 0, oo, zoo, nan, big integers, floats and random expressions: C result vs C++ result (tree) or error code vs '
                     'exception; scripts of 6-14 operations on CVecBasic / CSetBasic / CMapBasicBasic vs Python list / set / dict; 13 Expression operators vs the core '
                     'functions; violation also when any C++ exception crosses the C boundary; non-trivial = call whose C++ counterpart throws, or a container script')
        cases, meta = [], {}
        k = 0
        for _ in range(self.q(4000, 120000)):
            k += 1
            a, b = operand(rng), operand(rng)
            r = rng.random()
            if r < 0.3:
                f = rng.choice(UN)
                st = [('let', 'a', a), ('emit', ('capi1', f, '$a')), ('emit', (f, '$a'))]
                kind = ('pair', f)
            elif r < 0.6:
                f = rng.choice(BIN)
                if f == 'diff':
                    b = rng.choice((X, Y, b))
                if f in ('lowergamma', 'uppergamma', 'polygamma', 'beta'):
                    # their integer-order expansions recurse once per unit of the order: keep the orders small (resource, not the property)
                    a = rng.choice((I(3), I(0), I(-2), FR(R(1, 2)), X, F(0.5), I(12)))
                    b = rng.choice((I(2), I(0), FR(R(-3, 2)), FR(R(5, 2)), Y, X, F(1.5), I(-1), K('oo')))
                capi = 'capi2_inplace' if rng.random() < 0.25 else 'capi2'
                st = [('let', 'a', a), ('let', 'b', b), ('emit', (capi, f, '$a', '$b')), ('emit', (f, '$a', '$b'))]
                kind = ('pair', f)
            elif r < 0.66:
                st = [('let', 'a', a), ('let', 'b', b), ('emit', ('capi2', 'rational_set', '$a', '$b')), ('emit', ('div', '$a', '$b'))]
                kind = ('rational_set', None)
            elif r < 0.72:
                se = c27.to_recipe(c27.expr(rng, rng.choice((0, 1))))
                if rng.random() < 0.5:
                    f = rng.choice(sorted(SETUN))
                    st = [('let', 'a', se), ('emit', ('capi1', f, '$a')), ('emit', (SETUN[f], '$a'))]
                else:
                    f = rng.choice(sorted(SETBIN))
                    se2 = c27.to_recipe(c27.expr(rng, 0))
                    st = [('let', 'a', se), ('let', 'b', se2), ('emit', ('capi2', f, '$a', '$b')), ('emit', (SETBIN[f], '$a', '$b'))]
                kind = ('pair', f)
            elif r < 0.78:
                st = [('let', 'a', a), ('let', 'b', b), ('emit', ('capi_subs2', '$a', X, '$b')), ('emit', ('subs', '$a', (X, '$b')))]
                kind = ('pair', 'subs2')
            elif r < 0.84:
                st = [('let', 'a', a), ('let', 's', ('str', '$a')), ('emit', ('capi_str', '$a')), ('emit', '$s'), ('emit', ('capi_parse', '$s')), ('emit', ('parse', '$s'))]
                kind = ('strparse', None)
            elif r < 0.9:
                st = [('let', 'a', a), ('let', 'b', b if rng.random() < 0.6 else a), ('emit', ('capi_eq_hash', '$a', '$b')), ('emit', ('eq', '$a', '$b')),
                      ('emit', ('capi_free_symbols', '$a')), ('emit', ('free_symbols', '$a')), ('emit', ('capi_get_args', '$a')), ('emit', ('get_args', '$a'))]
                kind = ('queries', None)
            else:
                op = rng.choice(('+', '-', '*', '/', 'pow', '+=', '-=', '*=', '/=', 'neg', 'expand', '==', '!='))
                core = {'+': 'add', '-': 'sub', '*': 'mul', '/': 'div', 'pow': 'pow', '+=': 'add', '-=': 'sub', '*=': 'mul', '/=': 'div', 'neg': 'neg', 'expand': 'expand', '==': 'eq', '!=': 'eq'}[op]
                if op in ('neg', 'expand'):
                    st = [('let', 'a', a), ('emit', ('xpr', Q(op), '$a')), ('emit', (core, '$a'))]
                else:
                    st = [('let', 'a', a), ('let', 'b', b), ('emit', ('xpr', Q(op), '$a', '$b')), ('emit', (core, '$a', '$b'))]
                kind = ('xpr', op)
            st = [_workload.tame(x) for x in st]       # no astronomically large arguments under size-sensitive functions (resource, see C40)
            cid = 'k%d' % k
            cases.append((cid, st))
            meta[cid] = (kind, st, None)
        # container scripts
        pool = [X, Y, Z, I(1), I(2), FR(R(1, 2)), ('add', X, I(1)), ('add', I(1), X), ('sin', X), K('pi')]
        keys = ['x', 'y', 'z', '1', '2', '1/2', '1 + x', '1 + x', 'sin(x)', 'pi']
        for _ in range(self.q(1500, 40000)):
            k += 1
            which = rng.choice(('vec', 'set', 'map'))
            steps, model_out = [], []
            if which == 'vec':
                m = []
                for _ in range(rng.randint(6, 14)):
                    w = rng.choice(('push', 'push', 'push', 'set', 'erase', 'get', 'size', 'get'))
                    i = rng.randrange(len(pool))
                    n = rng.randint(0, 6)
                    if w == 'push':
                        steps.append(('push', pool[i])); m.append(keys[i]); model_out.append(0)
                    elif w == 'set':
                        steps.append(('set', n, pool[i]))
                        if n < len(m):
                            m[n] = keys[i]; model_out.append(0)
                        else:
                            model_out.append('error')
                    elif w == 'erase':
                        steps.append(('erase', n))
                        if n < len(m):
                            del m[n]; model_out.append(0)
                        else:
                            model_out.append('error')
                    elif w == 'get':
                        steps.append(('get', n)); model_out.append(('val', m[n]) if n < len(m) else 'error')
                    else:
                        steps.append(('size',)); model_out.append(len(m))
                st = [('emit', ('capi_vec',) + tuple(steps))]
            elif which == 'set':
                m = set()
                for _ in range(rng.randint(6, 14)):
                    w = rng.choice(('insert', 'insert', 'erase', 'find', 'size'))
                    i = rng.randrange(len(pool))
                    if w == 'insert':
                        steps.append(('insert', pool[i])); model_out.append(0 if keys[i] in m else 1); m.add(keys[i])
                    elif w == 'erase':
                        steps.append(('erase', pool[i])); model_out.append(1 if keys[i] in m else 0); m.discard(keys[i])
                    elif w == 'find':
                        steps.append(('find', pool[i])); model_out.append(1 if keys[i] in m else 0)
                    else:
                        steps.append(('size',)); model_out.append(len(m))
                st = [('emit', ('capi_set',) + tuple(steps))]
            else:
                m = {}
                for _ in range(rng.randint(6, 14)):
                    w = rng.choice(('insert', 'insert', 'get', 'size'))
                    i, j = rng.randrange(len(pool)), rng.randrange(len(pool))
                    if w == 'insert':
                        steps.append(('insert', pool[i], pool[j])); m[keys[i]] = keys[j]; model_out.append(0)
                    elif w == 'get':
                        steps.append(('get', pool[i])); model_out.append(('found', m[keys[i]]) if keys[i] in m else ('missing',))
                    else:
                        steps.append(('size',)); model_out.append(len(m))
                st = [('emit', ('capi_map',) + tuple(steps))]
            cid = 'k%d' % k
            cases.append((cid, st))
            meta[cid] = (('container', which), st, model_out)
        res, reps = run_cases('asan', cases, tag='c42', timeout=60, env_extra=ENV)
        check_process_reports(self, reps)
        self.seen = set()
        for cid, (kind, st, model) in meta.items():
            r = res.get(cid)
            if r is None:
                self.inconclusive += 1
                continue
            self.note_asserts(r)
            prog = [render(s) for s in st]
            if r.status in ('crashed', 'timeout'):
                at = min(len(r.stmts), len(st) - 1)
                ck = crash_key(r) if r.status == 'crashed' else dict(kind='hang')
                cside = 'capi' in prog[at] or 'xpr' in prog[at]
                rep = str(r.crash.get('report', '')) if isinstance(r.crash, dict) else ''
                import re as _re
                if r.status == 'timeout' and (kind[1] in _workload.HEAVY):
                    self.count('too-expensive (size-sensitive function of a large argument)')
                    self.inconclusive += 1
                elif cside and ck.get('kind') == 'asan:stack-overflow' and len(_re.findall(r'set_(union|intersection|complement)', rep)) >= 5:
                    self.viol(dict(clause='crash', kind='asan:stack-overflow', family='set-algebra-recursion'), dict(program=prog[:at + 1], crash=r.crash, config='asan', env=ENV))
                elif cside:
                    self.viol(dict(clause='crash', kind=ck.get('kind'), frames=ck.get('frames', [])[:2], call=kind[1] or kind[0]), dict(program=prog[:at + 1], crash=r.crash, config='asan', env=ENV))
                else:
                    self.count('crash-in-the-c++-counterpart (judged by C40)')
                continue
            if r.status != 'ok':
                self.inconclusive += 1
                continue
            # (2) nothing escapes
            for i in range(len(st)):
                s = r.s(i)
                if s is not None and s.st == 'ok' and isinstance(s.v, dict) and 'escaped' in s.v:
                    self.viol(dict(clause='exception-escapes-c-api', call=kind[1] or kind[0]), dict(program=prog[:i + 1], what=s.v['escaped'][:200], config='asan', env=ENV))
            if kind[0] == 'container':
                s = r.s(0)
                if s is None or s.st != 'ok' or not isinstance(s.v, list):
                    self.inconclusive += 1
                    continue
                self.evaluations += 1
                self.nontriv(prog[0][:100])
                for j, (got, want) in enumerate(zip(s.v, model)):
                    ok = True
                    if want == 'error':
                        ok = (isinstance(got, dict) and got.get('code', 0) != 0) or (isinstance(got, int) and got != 0)
                    elif isinstance(want, tuple) and want[0] == 'val':
                        ok = isinstance(got, dict) and got.get('code') == 0 and got.get('v', {}).get('s') == want[1]
                    elif isinstance(want, tuple) and want[0] == 'found':
                        ok = isinstance(got, dict) and got.get('found') == 1 and got.get('v', {}).get('s') == want[1]
                    elif isinstance(want, tuple) and want[0] == 'missing':
                        ok = isinstance(got, dict) and got.get('found') == 0
                    else:
                        ok = got == want
                    if not ok:
                        self.viol(dict(clause='container', which=kind[1], step=render(st[0][1][1 + j])[:12].split(' ')[0].strip('(')), dict(program=prog, step_index=j, library=str(got)[:200], model=str(want), config='asan', env=ENV))
                        break
                continue
            if kind[0] in ('pair', 'rational_set', 'xpr'):
                ci = len(st) - 2
                cs, ps = r.s(ci), r.s(ci + 1)
                if cs is None or ps is None or cs.st != 'ok':
                    self.inconclusive += 1
                    continue
                self.evaluations += 1
                if kind[0] == 'xpr':
                    if cs.st != ps.st:
                        self.viol(dict(clause='expression-wrapper', op=kind[1], wrapper=cs.st, core=ps.st), dict(program=prog, config='asan', env=ENV))
                    elif cs.st == 'ok':
                        if kind[1] in ('==', '!='):
                            want = ps.v if kind[1] == '==' else (not ps.v)
                            if cs.v is not want:
                                self.viol(dict(clause='expression-wrapper', op=kind[1]), dict(program=prog, wrapper=cs.v, core=ps.v, config='asan', env=ENV))
                        elif cs.v.get('t') != ps.v.get('t'):
                            self.viol(dict(clause='expression-wrapper', op=kind[1]), dict(program=prog, wrapper=cs.v.get('s'), core=ps.v.get('s'), config='asan', env=ENV))
                    continue
                if 'escaped' in cs.v:
                    continue
                code = cs.v.get('code')
                if ps.st == 'ok':
                    if kind[0] == 'rational_set':
                        continue            # rational_set is only defined for two integers; its error behaviour is judged below
                    if code != 0:
                        self.viol(dict(clause='c-fails-where-c++-succeeds', call=kind[1], code=code), dict(program=prog, core=ps.v.get('s') if isinstance(ps.v, dict) else ps.v, config='asan', env=ENV))
                    elif isinstance(ps.v, dict) and tree_of(cs.v) != ps.v.get('t'):
                        self.viol(dict(clause='c-result-differs', call=kind[1]), dict(program=prog, c=cs.v.get('v', {}).get('s'), core=ps.v.get('s'), config='asan', env=ENV))
                else:
                    self.nontriv(prog[-2][:100])
                    if code == 0 and kind[0] != 'rational_set':
                        self.viol(dict(clause='c-succeeds-where-c++-throws', call=kind[1], exception=str(ps.ty).split('::')[-1]), dict(program=prog, c=cs.v.get('v', {}).get('s'), config='asan', env=ENV))
                continue
            if kind[0] == 'strparse':
                a, b, c_, d = r.s(2), r.s(3), r.s(4), r.s(5)
                self.evaluations += 1
                if a is not None and b is not None and a.st == 'ok' and b.st == 'ok' and a.v != b.v:
                    self.viol(dict(clause='basic_str-differs'), dict(program=prog, c=str(a.v)[:200], core=str(b.v)[:200], config='asan', env=ENV))
                if c_ is not None and d is not None and c_.st == 'ok' and 'escaped' not in c_.v:
                    if (c_.v.get('code') == 0) != (d.st == 'ok'):
                        self.viol(dict(clause='basic_parse-outcome', code=c_.v.get('code'), core=d.st), dict(program=prog, config='asan', env=ENV))
                    elif d.st == 'ok' and tree_of(c_.v) != d.v.get('t'):
                        self.viol(dict(clause='basic_parse-result'), dict(program=prog, c=c_.v.get('v', {}).get('s'), core=d.v.get('s'), config='asan', env=ENV))
                continue
            if kind[0] == 'queries':
                q, e2, fs, fs2, ga, ga2 = (r.s(i) for i in range(2, 8))
                self.evaluations += 1
                if q is not None and e2 is not None and q.st == 'ok' and e2.st == 'ok' and 'escaped' not in q.v:
                    if bool(q.v['eq']) != e2.v or bool(q.v['neq']) == e2.v or (e2.v and not q.v['same_hash']) or not q.v['hash_is_cxx']:
                        self.viol(dict(clause='eq-neq-hash'), dict(program=prog[:4], c=q.v, core_eq=e2.v, config='asan', env=ENV))
                for nm, x, y in (('free_symbols', fs, fs2), ('get_args', ga, ga2)):
                    if x is not None and y is not None and x.st == 'ok' and y.st == 'ok' and 'escaped' not in x.v:
                        cl = [z['t'] for z in x.v['e']]
                        pl = [z['t'] for z in y.v['e']]
                        same = sorted(map(json.dumps, cl)) == sorted(map(json.dumps, pl)) if nm == 'free_symbols' else cl == pl
                        if x.v.get('code') != 0 or not same:
                            self.viol(dict(clause=nm), dict(program=prog, c=[z['s'] for z in x.v['e']], core=[z['s'] for z in y.v['e']], config='asan', env=ENV))
            if len(self.samples) < 4 and kind[0] == 'queries':
                self.sample(dict(program=prog[:3]))
        self.min_evals = 3000

    def viol(self, key, wit):
        ks = str(sorted(key.items(), key=str))
        if ks in self.seen:
            return
        self.seen.add(ks)
        self.violation(key, wit)
