"""C43 - results do not depend on the integer backend.
The same exact programs (big-integer number theory, rational arithmetic chains, expansion, polynomial arithmetic) run in three builds of the
library that differ only in INTEGER_CLASS (gmp, gmpxx, boostmp).  A differential monitor compares every statement's outcome across the builds:
same status (value / exception type) and identical tree and string.  Absolute correctness of the gmp build is the business of C05, C09, C21,
C32; here only a disagreement between backends counts.  FLINT is not installed in this sandbox (see DESIGN.md)."""
import json
from fractions import Fraction
from vlib import gen
from vlib.gen import I, FR, X, Y
from vlib.core import Check, run_cases, check_process_reports, crash_key, render

CONFIGS = ('gmp', 'gmpxx', 'boostmp')


def big(rng):
    r = rng.random()
    if r < 0.25:
        return rng.randint(-50, 50)
    if r < 0.5:
        k = rng.choice((31, 32, 33, 63, 64, 65, 127, 128, 129, 255, 256))
        return rng.choice((1, -1)) * (2 ** k + rng.choice((-1, 0, 1, 12345)))
    if r < 0.75:
        return rng.choice((1, -1)) * rng.getrandbits(rng.choice((40, 70, 130, 200, 400)))
    b = rng.randint(2, 40)
    return rng.choice((1, -1)) * b ** rng.randint(2, 40)


def Z(n):
    return str(n)


def program(rng):
    st = []
    for _ in range(rng.choice((6, 8, 10))):
        k = rng.random()
        a, b, c = big(rng), big(rng), big(rng)
        if k < 0.07:
            st.append(('emit', (rng.choice(('nt_gcd', 'nt_lcm')), Z(a), Z(b))))
        elif k < 0.12:
            st.append(('emit', ('nt_gcd_ext', Z(a), Z(b))))
        elif k < 0.2 and b != 0:
            st.append(('emit', (rng.choice(('nt_quotient', 'nt_mod', 'nt_quotient_mod', 'nt_quotient_f', 'nt_mod_f', 'nt_quotient_mod_f')), Z(a), Z(b))))
        elif k < 0.26 and abs(c) > 1:
            st.append(('emit', ('nt_mod_inverse', Z(a), Z(abs(c)))))
        elif k < 0.32:
            st.append(('emit', (rng.choice(('nt_isqrt', 'nt_perfect_square', 'nt_perfect_power', 'nt_probab_prime_p', 'nt_nextprime')), Z(abs(a) + 2))))
        elif k < 0.37:
            n = abs(a)
            st.append(('emit', ('nt_i_nth_root', Z(n), rng.choice((2, 3, 5, 7, 11)))))
        elif k < 0.42:
            st.append(('emit', (rng.choice(('nt_fibonacci', 'nt_lucas', 'nt_factorial')), Z(rng.randint(0, 400)))))
        elif k < 0.46:
            st.append(('emit', ('nt_binomial', Z(rng.randint(0, 300)), Z(rng.randint(0, 300)))))
        elif k < 0.5:
            st.append(('emit', (rng.choice(('nt_jacobi', 'nt_kronecker')), Z(a), Z(2 * abs(b) + 1))))
        elif k < 0.55:
            st.append(('emit', ('nt_powermod', Z(a), Z(rng.randint(-5, 2 ** 70)), Z(abs(c) + 2))))
        elif k < 0.7:
            # rational arithmetic chain
            e = FR(Fraction(a, abs(b) + 1))
            for _ in range(rng.choice((2, 3, 5))):
                op = rng.choice(('add', 'sub', 'mul', 'div', 'pow'))
                if op == 'pow':
                    e = ('pow', e, I(rng.randint(-6, 9)))
                else:
                    e = (op, e, FR(Fraction(big(rng), abs(big(rng)) + 1)))
            st.append(('emit', e))
        elif k < 0.8:
            st.append(('emit', ('expand', ('pow', ('add', ('mul', I(a), X), ('mul', FR(Fraction(b, abs(c) + 1)), Y), I(rng.randint(-9, 9))), I(rng.randint(2, 9))))))
        elif k < 0.9:
            p = ('uintpoly', X) + tuple((i, Z(big(rng))) for i in sorted(set(rng.sample(range(0, 20), rng.randint(1, 6)))))
            q = ('uintpoly', X) + tuple((i, Z(big(rng))) for i in sorted(set(rng.sample(range(0, 20), rng.randint(1, 6)))))
            st.append(('emit', (rng.choice(('uint_mul', 'uint_add', 'uint_sub')), p, q)))
            st.append(('emit', ('uint_pow', p, rng.randint(0, 4))))
        elif k < 0.95:
            st.append(('emit', ('pow', I(a), FR(Fraction(rng.randint(-7, 7), rng.choice((2, 3, 4, 6)))))))
        else:
            st.append(('emit', ('str', ('mul', I(a), ('pow', I(b if b else 3), I(rng.randint(-3, 5)))))))
    return st


def strip(v):
    if isinstance(v, dict):
        return {k: strip(x) for k, x in v.items() if k != 'h'}
    if isinstance(v, list):
        return [strip(x) for x in v]
    return v


class C(Check):
    prop = 'C43'
    configs = CONFIGS

    def run(self):
        rng = self.rng
        self.rule = ('programs of 6-10 exact computations: gcd / lcm / extended gcd, six division flavours, modular inverse and power, isqrt, integer n-th roots, '
                     'perfect squares and powers, primality and nextprime, fibonacci / lucas / factorial / binomial, jacobi / kronecker on 31-400 bit operands '
                     'around limb boundaries; rational arithmetic chains with powers; expand of (a*x + b/c*y + d)^n; UIntPoly add / sub / mul / pow with multi-limb '
                     'coefficients; integer to rational powers; printing; run in the gmp, gmpxx and boostmp builds and compared statement by statement (status, '
                     'exception type, tree, string); non-trivial = statement with an operand above 64 bits')
        cases = [('b%d' % k, program(rng)) for k in range(self.q(2000, 60000))]
        results = {}
        for cfg in CONFIGS:
            res, reps = run_cases(cfg, cases, tag='c43' + cfg, timeout=60)
            check_process_reports(self, reps)
            results[cfg] = res
        seen = set()
        for cid, st in cases:
            rs = {cfg: results[cfg].get(cid) for cfg in CONFIGS}
            if any(r is None for r in rs.values()):
                self.inconclusive += 1
                continue
            prog = [render(s) for s in st]
            first_missing = min(len(r.stmts) for r in rs.values())
            for i in range(len(st)):
                if i > first_missing:
                    break           # statements after a crash / time-out in one build were not executed there
                outs = {}
                for cfg, r in rs.items():
                    s = r.s(i)
                    if s is None:
                        outs[cfg] = ('did-not-finish:' + r.status,)
                    elif s.st == 'ok':
                        v = strip(s.v)
                        if 'nt_probab_prime_p' in prog[i]:
                            v = bool(v)          # 1 = probably prime, 2 = certainly prime: the distinction is GMP's own, "non-zero" is the contract
                        outs[cfg] = ('ok', json.dumps(v, sort_keys=True))
                    else:
                        outs[cfg] = (s.st, str(getattr(s, 'ty', '')))
                self.evaluations += 1
                if len(prog[i]) > 60:
                    self.nontriv(prog[i][:50])
                if len(set(outs.values())) > 1:
                    op = prog[i].split(' ')[1].strip('()') if ' ' in prog[i] else '?'
                    odd = [c for c in CONFIGS if list(outs.values()).count(outs[c]) == 1]
                    key = dict(clause='backend-disagreement', op=op, odd_one_out=odd[0] if len(odd) == 1 else 'all-differ')
                    if str(key) not in seen:
                        seen.add(str(key))
                        self.violation(key, dict(program=[prog[i]], outcomes={c: str(o)[:300] for c, o in outs.items()}, config='gmp', configs=list(CONFIGS)))
                elif len(self.samples) < 3 and outs['gmp'][0] == 'ok' and len(prog[i]) > 80:
                    self.sample(dict(statement=prog[i][:200], same_in=list(CONFIGS)))
        self.min_evals = 8000
