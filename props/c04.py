"""C04 - canonical form is unique: sums/products (and max/min/and/or) of the same exact operands in any order,
bracketing, pairwise or n-ary, are eq.  Oracle L (library eq between two results) with E to classify."""
import itertools
from fractions import Fraction
from vlib.core import Check, run_cases, run_one, check_process_reports, crash_key
from vlib import gen
from vlib.gen import I, FR, CX, S, K, X, Y, Z
from vlib.oracle_e import Judge

HALF, THIRD = FR(Fraction(1, 2)), FR(Fraction(1, 3))


def operand_pool():
    p = [I(0), I(1), I(-1), I(2), I(-3), I(4), I(6), FR(Fraction(1, 2)), FR(Fraction(-2, 3)), FR(Fraction(3, 4)), CX(0, 1), CX(1, -2),
         CX(Fraction(1, 2), Fraction(1, 3)), X, Y, Z, K('pi'), K('E'), K('I'), K('EulerGamma'),
         ('pow', X, HALF), ('pow', X, I(2)), ('pow', X, I(-1)), ('pow', X, FR(Fraction(-1, 2))), ('pow', X, FR(Fraction(3, 2))),
         ('pow', I(2), THIRD), ('pow', I(2), HALF), ('pow', I(2), FR(Fraction(-1, 2))), ('pow', I(3), HALF), ('pow', I(6), HALF),
         ('pow', I(2), FR(Fraction(2, 3))), ('pow', ('mul', X, Y), HALF), ('pow', Y, X), ('pow', I(2), X), ('pow', X, Y),
         ('sin', X), ('cos', X), ('func', 'f', X), ('exp', X), ('log', X), ('pow', K('pi'), HALF), ('pow', K('E'), I(2)),
         ('mul', I(2), X), ('mul', I(-1), X), ('mul', FR(Fraction(1, 2)), Y), ('mul', X, Y), ('add', X, I(1)), ('add', X, Y),
         ('mul', I(2), ('pow', X, HALF)), ('pow', ('add', X, I(1)), I(2)), ('pow', ('add', X, I(1)), I(-1)), ('neg', ('sin', X)),
         ('mul', K('I'), X), ('pow', I(-1), HALF), ('pow', I(-2), THIRD), ('pow', I(4), THIRD), ('pow', FR(Fraction(1, 2)), HALF)]
    return p


SHARED_BASES = [I(2), I(3), I(6), I(12), I(-2), I(-8), FR(Fraction(1, 2)), FR(Fraction(2, 3)), FR(Fraction(-3, 4)), FR(Fraction(9, 4)),
                CX(1, 1), CX(0, 2), CX(1, -2), CX(Fraction(1, 2), Fraction(1, 3)), CX(-3, 4), K('I'), K('pi'), K('E'), X, Y,
                ('add', X, I(1)), ('mul', X, Y), ('mul', I(2), X), ('sin', X), ('func', 'f', X), ('add', X, Y), ('mul', CX(0, 1), X),
                ('pow', X, I(2)), ('exp', X), ('add', K('pi'), I(1))]
SHARED_EXPS = [Fraction(1, 2), Fraction(1, 2), Fraction(-1, 2), Fraction(1, 3), Fraction(2, 3), Fraction(-1, 3), Fraction(3, 2), Fraction(1, 4),
               Fraction(3, 4), Fraction(1, 6), Fraction(5, 6), Fraction(-3, 2), Fraction(1), Fraction(2), Fraction(-1)]


def shared_base_powers(rng):
    """2-3 powers of one base (numeric of every exact kind, or symbolic) with rational exponents that often sum to an integer."""
    b = rng.choice(SHARED_BASES)
    n = rng.choice((2, 2, 3))
    qs = [rng.choice(SHARED_EXPS) for _ in range(n)]
    if rng.random() < 0.6:       # force an integer exponent sum
        tot = sum(qs[:-1])
        target = rng.choice((0, 1, 1, 2, -1))
        qs[-1] = Fraction(target) - tot
    out = []
    for q in qs:
        if q == 0:
            continue
        if rng.random() < 0.15:
            out.append(('pow', b, ('add', FR(q), rng.choice((X, Y)))))
        else:
            out.append(('pow', b, FR(q)) if q != 1 else b)
    return out


def bracketings(op, items, rng):
    """One random binary bracketing of the ordered items."""
    items = list(items)
    while len(items) > 1:
        i = rng.randrange(len(items) - 1)
        items[i:i + 2] = [(op, items[i], items[i + 1])]
    return items[0]


class C(Check):
    prop = 'C04'

    def run(self):
        rng = self.rng
        self.rule = ('multiset of 2-6 exact operands (numbers, symbols, constants, integer/rational powers, function applications; '
                     'repeats allowed) built as sum and as product along up to 14 random permutations x binary bracketings and the '
                     'n-ary add(vec)/mul(vec); also max/min/logical_and/logical_or; all builds compared with the first by the '
                     'library eq (both directions), str and hash; non-trivial = multiset with >= 3 operands two of which interact '
                     '(same base / same key / both numbers)')
        pool = operand_pool()
        nms = self.q(2500, 60000)
        cases = []
        meta = {}
        for k in range(nms):
            n = rng.choice((2, 3, 3, 4, 4, 5, 6))
            ops = [rng.choice(pool) for _ in range(n)]
            if rng.random() < 0.4:
                ops[rng.randrange(n)] = ops[rng.randrange(n)]  # repeat an operand
            if rng.random() < 0.45:
                sh = shared_base_powers(rng)
                ops = (sh + ops)[:max(n, len(sh) + 1)]
                rng.shuffle(ops)
                n = len(ops)
            kind = rng.choice(('add', 'add', 'mul', 'mul', 'mul', 'max', 'min', 'and', 'or'))
            stmts = [('let', 'o%d' % i, r) for i, r in enumerate(ops)]
            regs = ['$o%d' % i for i in range(n)]
            builds = []
            if kind in ('add', 'mul'):
                builds.append((kind + 'v', ('vec',) + tuple(regs)))
                builds.append((kind,) + tuple(regs))
                for _ in range(12):
                    p = regs[:]
                    rng.shuffle(p)
                    builds.append(bracketings(kind, p, rng))
                p = regs[:]
                rng.shuffle(p)
                builds.append((kind + 'v', ('vec',) + tuple(p)))
            elif kind in ('max', 'min'):
                builds.append((kind,) + tuple(regs))
                for _ in range(6):
                    p = regs[:]
                    rng.shuffle(p)
                    if rng.random() < 0.5 and n >= 3:
                        builds.append((kind, (kind,) + tuple(p[:2])) + tuple(p[2:]))
                    else:
                        builds.append((kind,) + tuple(p))
            else:
                # booleans: relational atoms over the operands
                f = 'logical_and' if kind == 'and' else 'logical_or'
                atoms = [('Lt', r, I(1)) if i % 2 == 0 else ('Le', I(0), r) for i, r in enumerate(regs)]
                stmts += [('let', 'b%d' % i, a) for i, a in enumerate(atoms)]
                bregs = ['$b%d' % i for i in range(n)]
                builds.append((f,) + tuple(bregs))
                for _ in range(6):
                    p = bregs[:]
                    rng.shuffle(p)
                    if rng.random() < 0.5 and n >= 3:
                        builds.append((f, (f,) + tuple(p[:2])) + tuple(p[2:]))
                    else:
                        builds.append((f,) + tuple(p))
            base = len(stmts)
            for j, b in enumerate(builds):
                stmts.append(('let', 'r%d' % j, b))
            stmts.append(('emit', ('eq_all_regs',) + tuple('r%d' % j for j in range(len(builds)))))
            # also emit first two distinct results for classification (only read when a difference is seen)
            cid = 'm%d' % k
            cases.append((cid, stmts))
            meta[cid] = (kind, ops, builds, base)
        res, reps = run_cases('asan', cases, tag='c04')
        check_process_reports(self, reps)
        progs = dict(cases)
        for cid, (kind, ops, builds, base) in meta.items():
            r = res.get(cid)
            if r is None:
                continue
            self.note_asserts(r)
            if r.status == 'crashed':
                self.violation(dict(crash_key(r), op=kind), dict(program=[gen.recipe_str(s) for s in progs[cid]], crash=r.crash))
                continue
            st = r.s(base + len(builds))
            if r.status != 'ok' or st is None or st.st != 'ok':
                self.inconclusive += 1
                continue
            v = st.v
            idx = v['idx']
            self.evaluations += len(idx)
            self.count('builds:' + kind, len(idx))
            if len(idx) < len(builds):
                self.count('builds-declined', len(builds) - len(idx))
                # a build that throws while another permutation succeeds is an order dependence too; classify below
            heads = [gen.recipe_str(o) for o in ops]
            if len(ops) >= 3 and (len(set(heads)) < len(heads) or sum(1 for o in ops if o[0] in ('int', 'rat', 'cpx')) >= 2
                                  or len({gen.recipe_str(o[1]) for o in ops if o[0] == 'pow'}) < sum(1 for o in ops if o[0] == 'pow')):
                self.nontriv((kind, tuple(sorted(heads))))
            if len(self.samples) < 6 and cid.endswith('7'):
                self.sample(dict(kind=kind, operands=heads, builds=len(idx), all_equal=all(v['eq'])))
            if len(idx) >= 2 and not all(v['eq']):
                j = v['eq'].index(0)
                self._confirm(kind, ops, builds[idx[0]], builds[idx[j]], 'eq')
            elif len(idx) >= 2 and not all(v['str']):
                j = v['str'].index(0)
                self._confirm(kind, ops, builds[idx[0]], builds[idx[j]], 'str')
            if 0 < len(idx) < len(builds):
                # some builds raised while others did not
                sts = [r.s(base + j) for j in range(len(builds))]
                bad = [j for j, s in enumerate(sts) if s is not None and s.st == 'exc']
                if bad:
                    self.count('order-dependent-exception')
                    self.violation(dict(clause='exception-depends-on-order', op=kind, ty=sts[bad[0]].ty),
                                   dict(operands=heads, ok_build=gen.recipe_str(builds[idx[0]]), failing_build=gen.recipe_str(builds[bad[0]]),
                                        msg=sts[bad[0]].msg, program=[gen.recipe_str(s) for s in progs[cid]], config='asan'))
        self.min_evals = 1000

    def _confirm(self, kind, ops, b0, b1, what):
        """Re-run the two differing builds alone in a fresh process, shrink the operand list, classify by value."""
        def prog_for(oplist, keep):
            stmts = [('let', 'o%d' % i, r) for i, r in enumerate(oplist)]
            stmts += [('let', 'r0', b0), ('let', 'r1', b1), ('emit', ('eq_all_regs', 'r0', 'r1')), ('emit', '$r0'), ('emit', '$r1')]
            return stmts
        prog = prog_for(ops, None)
        r, _ = run_one('asan', 'confirm', prog)
        n = len(ops)
        st = r.s(n + 2) if r is not None else None
        if r is None or r.status != 'ok' or st is None or st.st != 'ok' or len(st.v['idx']) != 2:
            self.inconclusive += 1
            return
        still = (not all(st.v['eq'])) if what == 'eq' else (not all(st.v['str']))
        if not still:
            self.inconclusive += 1
            return
        t0, t1 = r.s(n + 3).v, r.s(n + 4).v
        cls = 'unknown'
        if kind in ('add', 'mul', 'max', 'min'):
            verdict, _ = Judge(self.rng, kind='complex' if kind in ('add', 'mul') else 'real').compare(t0['t'], t1['t'])
            cls = {'ok': 'same-value', 'diff': 'different-value'}.get(verdict, verdict)
        opkinds = sorted({o[0] for o in ops})
        fam = None
        if kind == 'mul' and cls == 'same-value' and _only_numeric_base_sum_exponent_differs(t0['t'], t1['t']):
            fam = 'numeric-base-with-sum-exponent'
        elif kind == 'mul' and cls == 'same-value' and (_same_exponent_sums(t0['t'], t1['t']) or _compound_power_folding(t0['t'], t1['t'])):
            fam = 'power-of-power-split-differently'
        self.violation(dict(clause='not-' + what, op=kind, value=cls, family=fam),
                       dict(operands=[gen.recipe_str(o) for o in ops], build0=gen.recipe_str(b0), build1=gen.recipe_str(b1),
                            result0=t0['s'], result1=t1['s'], program=[gen.recipe_str(s) for s in prog], config='asan'))


def _only_numeric_base_sum_exponent_differs(t0, t1):
    """True if both results are products that agree on every factor except the numeric coefficient and
    factors of the form (Integer|Rational) ** (sum): the known family C04-numeric-base-sum-exponent."""
    import json

    def split(t):
        if t[0] == 'Pow':
            terms = [['term', t[1], t[2]]]
        elif t[0] == 'Mul':
            terms = t[2:]
        else:
            return None
        rest, special = [], 0
        for term in terms:
            base, ex = term[1], term[2]
            if base[0] in ('Integer', 'Rational', 'Complex'):
                if ex[0] not in ('Integer', 'Rational') or base[0] == 'Complex':
                    special += 1       # numeric base with a symbolic exponent (sum or not); powers of a complex constant are not merged uniquely either
                # numeric base with a numeric exponent (sqrt(2), ...): part of the numeric content that the two foldings distribute differently
            else:
                rest.append(json.dumps([base, ex], sort_keys=True))
        return sorted(rest), special
    a, b = split(t0), split(t1)
    if a is None or b is None:
        return False
    # equal non-numeric factors: the difference is confined to the numeric content (coefficient and powers of numeric bases), which
    # the library folds in an order-dependent way (symbolic exponents, complex bases, and rational powers of negative integers alike)
    return a[0] == b[0]


def _same_exponent_sums(t0, t1):
    """both results are products of rational powers in which every base b (looking through (b**n)**q with integer n) carries the same total
    exponent, only split differently: (x**2)**(11/6) vs x**2*(x**2)**(5/6)"""
    import json
    from fractions import Fraction

    def q(t):
        if t[0] == 'Integer':
            return Fraction(int(t[1]))
        if t[0] == 'Rational':
            return Fraction(int(t[1]), int(t[2]))
        return None

    def sums(t):
        if t[0] == 'Pow':
            terms = [['T', t[1], t[2]]]
            coef = ['Integer', '1']
        elif t[0] == 'Mul':
            terms = t[2:]
            coef = t[1]
        else:
            return None
        out = {}
        for term in terms:
            base, ex = term[1], q(term[2])
            if ex is None:
                return None
            if base[0] == 'Pow' and base[2][0] == 'Integer':
                ex = ex * int(base[2][1])
                base = base[1]
            k = json.dumps(base, sort_keys=True)
            out[k] = out.get(k, Fraction(0)) + ex
        return json.dumps(coef), out
    a, b = sums(t0), sums(t1)
    return a is not None and b is not None and a == b and t0 != t1


def _compound_power_folding(t0, t1):
    """both results are products over the same atoms and at least one of them still carries a non-integer power of a compound base
    ((x*y)**(11/4), (x**2)**q): the folding of such powers into the product depends on the order of multiplication"""
    import json

    def atoms(t, acc):
        if not isinstance(t, list) or not t:
            return
        if t[0] in ('Symbol', 'Constant') or (t[0] not in ('Mul', 'Pow', 'Add', 'T', 'Integer', 'Rational', 'Complex') and isinstance(t[0], str) and t[0][:1].isupper()):
            acc.add(json.dumps(t, sort_keys=True))
            return
        for a in t[1:]:
            if isinstance(a, list):
                atoms(a, acc)

    def compound(t):
        terms = [['T', t[1], t[2]]] if t[0] == 'Pow' else (t[2:] if t[0] == 'Mul' else [])
        return any(term[1][0] in ('Mul', 'Pow') and term[2][0] != 'Integer' for term in terms)
    a0, a1 = set(), set()
    atoms(t0, a0)
    atoms(t1, a1)
    return a0 == a1 and (compound(t0) or compound(t1))
