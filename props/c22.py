"""C22 - multivariate polynomial arithmetic (MIntPoly, MExprPoly).
Reference X: monomial dictionaries over the union of the variables (sorted by name), schoolbook arithmetic on Python ints; MExprPoly with
symbolic coefficients is judged through expand + eq of the symbolic forms."""
from fractions import Fraction
from vlib import gen
from vlib.gen import I, FR, S
from vlib.core import Check, run_cases, run_one, check_process_reports, crash_key, render

NAMES = ['w', 'x', 'y', 'z']


def norm(vars_, d, allvars):
    """re-index a dict over vars_ to allvars"""
    idx = [allvars.index(v) for v in vars_]
    out = {}
    for m, c in d.items():
        mm = [0] * len(allvars)
        for i, e in zip(idx, m):
            mm[i] = e
        out[tuple(mm)] = out.get(tuple(mm), 0) + c
    return {m: c for m, c in out.items() if c != 0}


def madd(a, b):
    r = dict(a)
    for m, c in b.items():
        r[m] = r.get(m, 0) + c
    return {m: c for m, c in r.items() if c != 0}


def mneg(a):
    return {m: -c for m, c in a.items()}


def mmul(a, b):
    r = {}
    for m1, c1 in a.items():
        for m2, c2 in b.items():
            m = tuple(x + y for x, y in zip(m1, m2))
            r[m] = r.get(m, 0) + c1 * c2
    return {m: c for m, c in r.items() if c != 0}


def mpow(a, n, nv):
    r = {tuple([0] * nv): 1}
    for _ in range(n):
        r = mmul(r, a)
    return r


def rand_mpoly(rng, vars_):
    if rng.random() < 0.06:
        return {}
    d = {}
    for _ in range(rng.choice((1, 2, 3, 5, 8))):
        m = tuple(rng.choice((0, 0, 1, 2, 3, 5)) for _ in vars_)
        c = rng.choice((1, -1, 2, -3, 7, 2 ** 32, -(2 ** 64) - 1, 10 ** 20, 5))
        d[m] = d.get(m, 0) + c
    if rng.random() < 0.1:
        d = {tuple(0 for _ in vars_): rng.choice((1, -2, 2 ** 70))}
    return {m: c for m, c in d.items() if c != 0}


def mk(vars_, d):
    return ('mintpoly', tuple(S(v) for v in vars_)) + tuple((tuple(m), str(c)) for m, c in sorted(d.items()))


def dump_dict(t):
    vars_ = [v[1] for v in t[1][1:]]
    d = {}
    for m in t[2:]:
        d[tuple(int(x) for x in m[1:-1])] = int(m[-1])
    return vars_, {m: c for m, c in d.items() if c != 0}


class C(Check):
    prop = 'C22'

    def run(self):
        rng = self.rng
        self.rule = ('pairs of MIntPoly over variable sets in all relations (equal, overlapping, disjoint, one empty; up to 4 symbols), up to 8 terms, exponents '
                     '0-5, multi-limb coefficients, zero polynomial and constants over different variable sets; add, sub, neg, mul, pow (0-3), eval, as_symbolic -> '
                     'from_basic, UIntPoly -> MIntPoly; the result variable set must be the sorted union and the monomial dictionary must equal schoolbook '
                     'arithmetic; MExprPoly with symbolic coefficients judged through expand + eq; non-trivial = variable sets differ or an operand is zero')
        cases = []
        meta = {}
        for k in range(self.q(3000, 100000)):
            rel = rng.choice(('equal', 'overlap', 'disjoint', 'empty', 'subset'))
            if rel == 'equal':
                va = vb = sorted(rng.sample(NAMES, rng.choice((1, 2, 3))))
            elif rel == 'overlap':
                va, vb = sorted(rng.sample(NAMES, 2)), sorted(rng.sample(NAMES, 3))
            elif rel == 'disjoint':
                sh = NAMES[:]
                rng.shuffle(sh)
                va, vb = sorted(sh[:2]), sorted(sh[2:])
            elif rel == 'empty':
                va, vb = [], sorted(rng.sample(NAMES, rng.choice((1, 2))))
                if rng.random() < 0.5:
                    va, vb = vb, va
            else:
                vb = sorted(rng.sample(NAMES, 3))
                va = sorted(rng.sample(vb, 1))
            a, b = rand_mpoly(rng, va), rand_mpoly(rng, vb)
            n = rng.choice((0, 1, 2, 3))
            vals = {v: rng.choice((0, 1, -1, 2, 3, -5, 2 ** 33)) for v in NAMES}
            stmts = [('let', 'a', mk(va, a)), ('let', 'b', mk(vb, b)),
                     ('emit', ('mint_add', '$a', '$b')), ('emit', ('mint_sub', '$a', '$b')), ('emit', ('mint_mul', '$a', '$b')), ('emit', ('mint_neg', '$a')),
                     ('emit', ('mint_pow', '$a', n)), ('emit', ('mint_eval', '$a') + tuple((S(v), str(vals[v])) for v in va)),
                     ('emit', ('mint_from_basic', ('mint_as_symbolic', '$a')) + tuple(S(v) for v in va)),
                     ('emit', ('eq', ('mint_add', '$a', '$b'), ('mint_add', '$b', '$a'))), ('emit', ('mint_mul', '$a', '$a'))]
            cid = 'c%d' % k
            cases.append((cid, stmts))
            meta[cid] = ('mint', va, vb, a, b, n, vals, stmts, rel)
        for k in range(self.q(500, 15000)):
            def ep():
                vs = sorted(rng.sample(['x', 'y', 'z'], rng.choice((1, 2))))
                cs = (S('a'), I(2), ('add', S('a'), I(1)), FR(Fraction(1, 2)), ('mul', I(-3), S('b')), ('pow', S('a'), I(2)))
                return ('mexprpoly', tuple(S(v) for v in vs)) + tuple((tuple(rng.choice((0, 1, 2, 3)) for _ in vs), rng.choice(cs)) for _ in range(rng.choice((1, 2, 3))))
            sa, sb = ('mexpr_as_symbolic', '$a'), ('mexpr_as_symbolic', '$b')
            stmts = [('let', 'a', ep()), ('let', 'b', ep()),
                     ('emit', ('eq', ('expand', ('mexpr_as_symbolic', ('mexpr_mul', '$a', '$b'))), ('expand', ('mul', sa, sb)))),
                     ('emit', ('eq', ('expand', ('mexpr_as_symbolic', ('mexpr_add', '$a', '$b'))), ('expand', ('add', sa, sb)))),
                     ('emit', ('eq', ('expand', ('mexpr_as_symbolic', ('mexpr_sub', '$a', '$b'))), ('expand', ('sub', sa, sb)))),
                     ('emit', ('eq', ('expand', ('mexpr_as_symbolic', ('mexpr_pow', '$a', 2))), ('expand', ('pow', sa, I(2))))),
                     ('emit', ('eq', ('expand', ('mexpr_as_symbolic', ('mexpr_neg', '$a'))), ('expand', ('neg', sa))))]
            cid = 'x%d' % k
            cases.append((cid, stmts))
            meta[cid] = ('mexpr', None, None, None, None, None, None, stmts, 'mexpr')
        res, reps = run_cases('asan', cases, tag='c22', timeout=60)
        check_process_reports(self, reps)
        seen = set()
        for cid, (kind, va, vb, a, b, n, vals, stmts, rel) in meta.items():
            r = res.get(cid)
            if r is None:
                self.inconclusive += 1
                continue
            self.note_asserts(r)
            prog = [render(s) for s in stmts]
            if r.status == 'crashed':
                key = dict(crash_key(r), kind=kind)
                if str(key) not in seen:
                    seen.add(str(key))
                    self.violation(key, dict(program=prog, crash=r.crash, config='asan'))
                continue
            if r.status != 'ok':
                self.inconclusive += 1
                if r.status == 'timeout':
                    key = dict(clause='hang', kind=kind, rel=rel)
                    if str(key) not in seen:
                        seen.add(str(key))
                        self.violation(key, dict(program=prog, note='case did not finish within 60 s', config='asan'))
                continue
            probs = []
            if kind == 'mexpr':
                for j, nm in enumerate(('mul', 'add', 'sub', 'pow', 'neg')):
                    st = r.s(2 + j)
                    self.evaluations += 1
                    if st is not None and st.st == 'ok' and st.v is not True:
                        probs.append(('mexpr_' + nm, 'not equal to the expanded symbolic computation'))
                self.nontriv(prog[0] + prog[1])
            else:
                allv = sorted(set(va) | set(vb))
                A, B = norm(va, a, allv), norm(vb, b, allv)
                if va != vb or not a or not b:
                    self.nontriv(prog[0] + prog[1])
                want = [('add', madd(A, B), allv), ('sub', madd(A, mneg(B)), allv), ('mul', mmul(A, B), allv), ('neg', mneg(a), va), ('pow', mpow(a, n, len(va)), va)]
                for j, (nm, w, wv) in enumerate(want):
                    st = r.s(2 + j)
                    self.evaluations += 1
                    if st is None or st.st != 'ok':
                        probs.append((nm, 'status %s %s %s' % (getattr(st, 'st', None), getattr(st, 'ty', ''), getattr(st, 'msg', ''))))
                        continue
                    gv, gd = dump_dict(st.v['t'])
                    if gv != wv:
                        probs.append((nm, 'variables %s, expected the sorted union %s' % (gv, wv)))
                    elif gd != w:
                        dif = [(m, str(w.get(m)), str(gd.get(m))) for m in sorted(set(w) | set(gd)) if w.get(m, 0) != gd.get(m, 0)][:3]
                        probs.append((nm, 'monomials differ (exponents, expected, got): %s' % dif))
                st = r.s(7)
                self.evaluations += 1
                if st is not None and st.st == 'ok':
                    want_v = sum(c * eval_mono(m, va, vals) for m, c in a.items())
                    gv = gen.exact_value(st.v['t'])
                    if gv is None or gv[1] != want_v:
                        probs.append(('eval', 'got %s expected %s' % (st.v['s'], want_v)))
                st = r.s(8)
                self.evaluations += 1
                if st is not None and st.st == 'ok':
                    gv, gd = dump_dict(st.v['t'])
                    if norm(gv, gd, sorted(set(gv) | set(va))) != norm(va, a, sorted(set(gv) | set(va))):
                        probs.append(('from_basic', 'as_symbolic -> from_basic changed the polynomial'))
                st = r.s(9)
                if st is not None and st.st == 'ok' and st.v is not True:
                    probs.append(('add-commutes', 'a+b not eq b+a'))
                st = r.s(10)
                self.evaluations += 1
                if st is not None and st.st == 'ok' and dump_dict(st.v['t'])[1] != mmul(a, a):
                    probs.append(('mul-self', 'a*a with the same object on both sides differs'))
            for nm, what in probs:
                key = dict(clause='value', op=nm, kind=kind, rel=rel)
                if str(key) in seen:
                    continue
                seen.add(str(key))
                self.violation(key, dict(program=prog, problem=what, config='asan'))
            if not probs and len(self.samples) < 4 and kind == 'mint' and a and b and rel in ('overlap', 'disjoint'):
                self.sample(dict(vars_a=va, vars_b=vb, a=str(a)[:150], b=str(b)[:150], relation=rel))
        self.min_evals = 5000


def eval_mono(m, vars_, vals):
    r = 1
    for e, v in zip(m, vars_):
        r *= vals[v] ** e
    return r
