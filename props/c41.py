"""C41 - thread-safe build: shared expressions are race-free.
Build `tsan`: gcc -fsanitize=thread, WITH_SYMENGINE_THREAD_SAFE=yes, hooks on.  For every case the executor builds a vector of expression objects,
starts 2-8 threads that all work on those same objects (hash, str, eq, compare, diff, subs, expand, add, mul, pow, free_symbols, get_args) in
seeded random order while hook H3 perturbs the schedule at the library's reference-count and hash-cache sites (sched_yield / short spins), then
repeats every thread's operation sequence sequentially on a second, freshly built copy of the objects.  Monitors: (1) ThreadSanitizer - any
data-race report is a violation; (2) sequential equivalence - every concurrent result must equal the sequential one; (3) ASan-style crashes /
hangs of the threaded run.  The objects are fresh in the concurrent phase, so lazily cached state (hash values) is initialised under contention."""
from vlib import gen
from vlib.gen import I, FR, X, Y, Z
from vlib.core import Check, run_cases, crash_key, render
from . import c19, _workload


def shared_exprs(rng):
    out = []
    for _ in range(rng.randint(3, 8)):
        r = rng.random()
        if r < 0.5:
            e = gen.rand_arith(rng, rng.choice((2, 3, 3)), unary=gen.UNARY_ELEM, p_unary=0.3, floats=False, int_pow_only=True)
        elif r < 0.8:
            e = _workload.tame(c19.expr(rng, rng.choice((2, 3))))
        else:
            e = ('expand', ('pow', ('add', X, Y, I(rng.randint(1, 5))), I(rng.randint(2, 3))))
        out.append(e)
    return out


class C(Check):
    prop = 'C41'
    configs = ('tsan',)

    def run(self):
        rng = self.rng
        self.rule = ('cases of 3-8 shared expressions (random arithmetic / function trees of depth 2-4, expressions over every node class, expanded polynomials) worked on by '
                     '2-8 threads x 30-100 operations each (hash, str, eq, compare, diff, subs, expand, add, mul, pow, free_symbols, get_args on random pairs) with '
                     'schedule perturbation at the hook-H3 sites, in the ThreadSanitizer build with WITH_SYMENGINE_THREAD_SAFE; violation = ThreadSanitizer report, a '
                     'concurrent result different from the sequential result of the same operation sequence on a fresh copy, or crash (a time-out is inconclusive); non-trivial = case with '
                     'at least 4 threads')
        cases, meta = [], {}
        for k in range(self.q(400, 20000)):
            T = rng.choice((2, 3, 4, 4, 6, 8))
            N = rng.choice((30, 60, 100))
            st = [('emit', ('mt_run', T, N, rng.randrange(1, 2 ** 31)) + tuple(shared_exprs(rng)))]
            cid = 't%d' % k
            cases.append((cid, st))
            meta[cid] = (T, N, st)
        res, reps = run_cases('tsan', cases, tag='c41', timeout=120)
        seen = set()

        def viol(key, wit):
            ks = str(sorted(key.items(), key=str))
            if ks not in seen:
                seen.add(ks)
                self.violation(key, wit)
        # ThreadSanitizer writes its reports to stderr of the worker process; they arrive as process-level reports or as the crash record of a case
        for rp in reps:
            if str(rp.get('kind', '')).startswith('harness:'):
                raise RuntimeError('executor made no progress: %s' % rp.get('report', '')[-300:])
            self.san_reports.append(rp)
            viol(dict(clause='sanitizer', kind=rp['kind'], frames=rp['frames'][:3]), dict(report=rp['report'][-3000:], config='tsan'))
        threads_total = ops_total = 0
        for cid, (T, N, st) in meta.items():
            r = res.get(cid)
            if r is None:
                self.inconclusive += 1
                continue
            prog = [render(s) for s in st]
            if r.status == 'crashed':
                ck = crash_key(r)
                viol(dict(clause='crash' if not str(ck.get('kind', '')).startswith('tsan') else 'sanitizer', kind=ck.get('kind'), frames=ck.get('frames', [])[:3]), dict(program=prog, crash=r.crash, config='tsan'))
                continue
            if r.status == 'timeout':
                # under ThreadSanitizer's slowdown a time-out cannot be told from an expensive expansion; deadlocks are TSan's own business
                # (lock-order reports).  Counted as inconclusive, never as a verdict.
                self.count('timed-out-under-tsan')
                self.inconclusive += 1
                continue
            s = r.s(0)
            if r.status != 'ok' or s is None:
                self.inconclusive += 1
                continue
            if s.st != 'ok':
                self.count('declined-construction:' + str(getattr(s, 'ty', '')).split('::')[-1])
                continue
            self.evaluations += s.v['ops']
            threads_total += s.v['threads']
            ops_total += s.v['ops']
            if T >= 4:
                self.nontriv(prog[0][:120])
            if s.v['count']:
                m = s.v['mismatches'][0]
                viol(dict(clause='not-sequentially-equivalent', op=m['op']), dict(program=prog, mismatches=s.v['mismatches'], count=s.v['count'], config='tsan'))
            elif len(self.samples) < 4 and T >= 4:
                self.sample(dict(threads=T, operations=s.v['ops'], shared_expressions=len(st[0][1]) - 4, mismatches=0))
        self.count('threads-run', threads_total)
        self.count('concurrent-operations', ops_total)
        self.min_evals = 10000
