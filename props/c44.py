"""C44 - alternative printers are total and well-formed.
Every generated expression is printed by latex(), mathml(), unicode(), julia_str() and sbml() in the ASan build.  Monitors: (1) no crash, no
sanitizer report; an exception other than NotImplementedError is a failure; (2) the MathML string is parsed by an XML parser (expat);
(3) the LaTeX string has balanced braces and \\left/\\right pairs; (4) for the SBML fragment, parse_sbml(sbml(e)) must be eq to e - when it is
not, the monitor's evaluator decides whether the value changed (violation) or only the structure (reported separately)."""
import re
import json
import xml.etree.ElementTree as ET
from fractions import Fraction
from vlib import gen, oracle_e
from vlib.gen import I, FR, F, S, K, X, Y, Z
from vlib.core import Check, run_cases, run_one, check_process_reports, crash_key, render, Q
from . import c19, _value

R = Fraction
SB1 = ['sin', 'cos', 'tan', 'sec', 'csc', 'cot', 'asin', 'acos', 'atan', 'asec', 'acsc', 'acot', 'sinh', 'cosh', 'tanh', 'sech', 'csch', 'coth',
       'asinh', 'acosh', 'atanh', 'asech', 'acsch', 'acoth', 'exp', 'log', 'sqrt', 'abs', 'floor', 'ceiling']


def sb_num(rng):
    r = rng.random()
    if r < 0.4:
        return I(rng.choice((0, 1, 2, 3, -1, -2, 7, 10, 100, 12345678901234567890)))
    if r < 0.6:
        return FR(rng.choice((R(1, 2), R(-1, 3), R(3, 4), R(22, 7), R(-5, 2))))
    if r < 0.85:
        return F(rng.choice((0.5, 2.5, -0.75, 1e-3, 123.25, 1e10, 0.1, -3.0)))
    return K(rng.choice(('pi', 'E')))


def sb_expr(rng, d):
    if d <= 0 or rng.random() < 0.2:
        return rng.choice((X, Y, Z, S('k1'), S('Vmax'))) if rng.random() < 0.55 else sb_num(rng)
    r = rng.random()
    sub = lambda: sb_expr(rng, d - 1)
    if r < 0.3:
        return (rng.choice(('add', 'mul', 'sub', 'div')), sub(), sub())
    if r < 0.38:
        return (rng.choice(('add', 'mul')), sub(), sub(), sub())
    if r < 0.44:
        return ('pow', sub(), rng.choice((I(2), I(-1), I(3), FR(R(1, 2)), FR(R(-3, 2)), sub())))
    if r < 0.5:
        # exponent (or base) that is itself a product / quotient / sum of function calls: bracketing decisions of the printer
        f = lambda: (rng.choice(('sqrt', 'exp', 'sin', 'log', 'abs', 'cos')), rng.choice((X, Y, Z, S('k1'))))
        comp = rng.choice((('mul', f(), f()), ('div', f(), f()), ('add', f(), f()), ('mul', f(), f(), f()), ('sub', f(), I(1)), ('neg', f())))
        return ('pow', sub(), comp) if rng.random() < 0.7 else ('pow', comp, sub())
    if r < 0.55:
        return ('neg', sub())
    if r < 0.8:
        return (rng.choice(SB1), sub())
    if r < 0.86:
        return (rng.choice(('max', 'min')), sub(), sub())
    if r < 0.94:
        return ('piecewise', (sub(), sb_bool(rng, 1)), (sub(), K('true')))
    return ('log', sub(), sub())


def sb_bool(rng, d):
    if d <= 0 or rng.random() < 0.5:
        return (rng.choice(('Lt', 'Le', 'Gt', 'Ge', 'Eq', 'Ne')), sb_expr(rng, 1), sb_expr(rng, 1))
    op = rng.choice(('logical_and', 'logical_or', 'logical_not', 'logical_xor'))
    if op == 'logical_not':
        return (op, sb_bool(rng, d - 1))
    return (op, sb_bool(rng, d - 1), sb_bool(rng, d - 1))


def norm15(t):
    """tree with every double replaced by its 15-significant-digit decimal form and sums/products in a canonical order"""
    if isinstance(t, list):
        if t and t[0] == 'RealDouble':
            import struct
            x = struct.unpack('<d', struct.pack('<Q', int(t[1], 16)))[0]
            return ['RealDouble', '%.15g' % x]
        ch = [norm15(x) for x in t]
        if ch and ch[0] in ('Add', 'Mul'):
            return ch[:2] + sorted(ch[2:], key=json.dumps)
        return ch
    return t


def latex_problem(s):
    t = s.replace('\\\\', '')
    t = re.sub(r'\\[{}]', '', t)          # escaped braces
    depth = 0
    for ch in t:
        if ch == '{':
            depth += 1
        elif ch == '}':
            depth -= 1
            if depth < 0:
                return 'closing brace without opening'
    if depth != 0:
        return '%d unclosed brace(s)' % depth
    if len(re.findall(r'\\left(?![a-zA-Z])', t)) != len(re.findall(r'\\right(?![a-zA-Z])', t)):
        return 'unbalanced \\left / \\right'
    return None


class C(Check):
    prop = 'C44'

    def run(self):
        rng = self.rng
        self.rule = ('(a) expressions of depth <= 4 over every node class (generator of C19: all number kinds, awkward symbol names, 53 function classes, Derivative, Subs, '
                     'Piecewise, relationals, logic, Contains, sets) printed by latex, mathml, unicode, julia_str, sbml: no crash / sanitizer report, only '
                     'NotImplementedError may decline, MathML accepted by an XML parser, LaTeX braces and \\left/\\right balanced; (b) SBML fragment (arithmetic, '
                     'integer / rational / float / symbolic powers, 30 functions, log with base, max/min, piecewise, relationals, and/or/not/xor, pi, E): '
                     'parse_sbml(sbml(e)) eq e, a non-eq result is judged by value at 3 points; non-trivial = depth >= 2')
        cases, meta = [], {}
        for k in range(self.q(5000, 150000)):
            r = rng.random()
            e = c19.expr(rng, rng.choice((1, 2, 3, 3, 4))) if r < 0.75 else (c19.boolean(rng, 2) if r < 0.88 else c19.set_expr(rng))
            stmts = [('let', 'e', e), ('emit', '$e')] + [('emit', (p, '$e')) for p in ('latex', 'mathml', 'unicode', 'julia_str', 'sbml')]
            cid = 'a%d' % k
            cases.append((cid, stmts))
            meta[cid] = ('all', stmts)
        for k in range(self.q(3000, 100000)):
            e = sb_expr(rng, rng.choice((1, 2, 2, 3))) if rng.random() < 0.85 else sb_bool(rng, 2)
            stmts = [('let', 'e', e), ('emit', '$e'), ('let', 's', ('sbml', '$e')), ('emit', '$s'), ('let', 'p', ('parse_sbml', '$s')), ('emit', '$p'), ('emit', ('eq', '$p', '$e'))]
            cid = 's%d' % k
            cases.append((cid, stmts))
            meta[cid] = ('sbml', stmts)
        res, reps = run_cases('asan', cases, tag='c44', timeout=60)
        check_process_reports(self, reps)
        self.seen = set()
        judge = []
        for cid, (kind, stmts) in meta.items():
            r = res.get(cid)
            if r is None:
                self.inconclusive += 1
                continue
            self.note_asserts(r)
            prog = [render(s) for s in stmts]
            at = len(r.stmts)
            if r.status == 'crashed':
                if at == 0:
                    self.count('crash-while-constructing-the-input (judged by C40)')
                else:
                    self.viol(dict(crash_key(r), clause='crash', printer=prog[at].split(' ')[1].strip('(') if at < len(prog) else '?'), dict(program=[prog[0], prog[at]] if at < len(prog) else prog[:1], crash=r.crash, config='asan'))
                continue
            if r.status == 'timeout' and at == 0:
                self.count('hang-while-constructing-the-input (judged by C40)')
                continue
            if r.status == 'timeout':
                self.viol(dict(clause='hang', printer=prog[at].split(' ')[1].strip('(') if at < len(prog) else '?'), dict(program=[prog[0], prog[min(at, len(prog) - 1)]], config='asan'))
                continue
            se = r.s(1)
            if r.status != 'ok' or se is None or se.st != 'ok':
                self.count('declined-construction')
                continue
            top = se.v['t'][0]
            if kind == 'all':
                if str(se.v['t']).count('[') >= 6:
                    self.nontriv(prog[0])
                for j, p in enumerate(('latex', 'mathml', 'unicode', 'julia_str', 'sbml')):
                    st = r.s(2 + j)
                    if st is None:
                        continue
                    self.evaluations += 1
                    if st.st != 'ok':
                        ty = str(getattr(st, 'ty', '')).split('::')[-1]
                        if ty == 'NotImplementedError' or 'not supported' in str(getattr(st, 'msg', '')).lower():
                            self.count('%s-declines' % p)           # the printer says the type is outside its fragment
                        elif p == 'sbml':
                            self.count('sbml-declines:' + ty)          # outside the SBML fragment
                        else:
                            self.viol(dict(clause='printer-fails', printer=p, exception=ty, top=top), dict(program=[prog[0], prog[2 + j]], expr=se.v['s'][:200], message=str(getattr(st, 'msg', ''))[:200], config='asan'))
                        continue
                    text = st.v
                    if p == 'mathml':
                        try:
                            ET.fromstring(text)
                        except ET.ParseError as ex:
                            self.viol(dict(clause='mathml-not-well-formed', top=top), dict(program=[prog[0], prog[2 + j]], expr=se.v['s'][:200], mathml=text[:400], error=str(ex), config='asan'))
                    elif p == 'latex':
                        pr = latex_problem(text)
                        if pr:
                            self.viol(dict(clause='latex-unbalanced', top=top), dict(program=[prog[0], prog[2 + j]], expr=se.v['s'][:200], latex=text[:400], error=pr, config='asan'))
                if len(self.samples) < 3 and r.s(2) is not None and r.s(2).st == 'ok' and str(se.v['t']).count('[') >= 8:
                    self.sample(dict(expr=se.v['s'][:150], latex=r.s(2).v[:150]))
                continue
            # SBML round trip
            ss, sp, sq = r.s(3), r.s(5), r.s(6)
            if ss is None or ss.st != 'ok':
                self.count('sbml-declines:' + str(getattr(r.s(2), 'ty', '')).split('::')[-1])
                continue
            self.evaluations += 1
            self.nontriv(prog[0])
            if sp is None or sp.st != 'ok':
                st4 = r.s(4)
                self.viol(dict(clause='sbml-not-parsable', top=top, exception=str(getattr(st4, 'ty', '')).split('::')[-1]), dict(program=prog[:5], expr=se.v['s'][:200], sbml=ss.v[:300], config='asan'))
                continue
            if sq is not None and sq.st == 'ok' and sq.v is True:
                continue
            tj = json.dumps(se.v['t'])
            if '"Complex"' in tj or '"ComplexDouble"' in tj or '["Constant", "I"]' in tj or '"NaN"' in tj or '"Infty"' in tj:
                self.count('outside-sbml-fragment (complex / non-finite number)')
                continue
            if norm15(sp.v['t']) == norm15(se.v['t']):
                self.count('equal-up-to-15-digit-doubles')        # the printer writes doubles with 15 significant digits, as the default printer does
                continue
            judge.append((cid, se.v['t'], sp.v['t'], None))
            meta[cid] = ('sbml', stmts, se.v['s'], ss.v, sp.v['s'], top)
        for cid, v, d in _value.judge_items(judge, self.seed, kind='pos', tol=oracle_e.mpf(10) ** -12):
            _, stmts, es, sb, ps, top = meta[cid]
            prog = [render(s) for s in stmts]
            if v == 'inconclusive':
                self.count('sbml-not-eq-value-undecided')
                continue
            from .c35 import _has_power_of_reciprocal
            if v == 'diff' and _has_power_of_reciprocal(res[cid].s(1).v['t']) and not _has_power_of_reciprocal(res[cid].s(5).v['t']):
                self.viol(dict(clause='sbml-roundtrip-value', family='reciprocal-power-refolded'), dict(program=prog[:5], expr=es[:200], sbml=sb[:300], parsed=ps[:200], detail=str(d)[:200], config='asan'))
            elif v == 'diff':
                self.viol(dict(clause='sbml-roundtrip-value', top=top), dict(program=prog[:5], expr=es[:200], sbml=sb[:300], parsed=ps[:200], detail=str(d)[:200], config='asan'))
            else:
                self.viol(dict(clause='sbml-roundtrip-structure', top=top), dict(program=prog[:5], expr=es[:200], sbml=sb[:300], parsed=ps[:200], config='asan'))
        self.min_evals = 8000

    def viol(self, key, wit):
        ks = str(sorted(key.items(), key=str))
        if ks in self.seen:
            return
        self.seen.add(ks)
        self.violation(key, wit)
