"""C35 - refine and simplify preserve value under their assumptions.
Every symbol is drawn from the set its assumptions allow (negative values for merely 'real' symbols, non-integers for 'real', zero where allowed,
complex for unconstrained symbols): precisely the points at which rules such as (x**a)**b -> x**(a*b) are unsound."""
from fractions import Fraction
from vlib import gen, oracle_e
from vlib.gen import I, FR, CX, S, K, X, Y, Z
from vlib.core import render
from ._vp import VPCheck

# assumption sets -> (executor assumption list, point kind)
ASSUME = [
    ((), 'complex'),
    (('real',), 'real'),
    (('positive',), 'poswide'),
    (('positive',), 'pos'),
    (('negative',), 'neg'),
    (('nonnegative',), 'nonneg'),
    (('nonpositive',), 'nonpos'),
    (('integer',), 'int'),
    (('integer', 'positive'), 'posint'),
    (('integer', 'negative'), 'negint'),
    (('rational',), 'rational'),
    (('real', 'nonzero'), 'real'),
    (('nonzero',), 'nonzero'),
    (('rational', 'positive'), 'posrational'),
]
EXPS = [Fraction(1, 2), Fraction(1, 3), Fraction(2, 3), Fraction(3, 2), Fraction(1, 4), Fraction(-1, 2), Fraction(2), Fraction(3), Fraction(-1), Fraction(4),
        Fraction(1, 6), Fraction(-2), Fraction(5, 2), Fraction(-1, 3)]


def target(rng, syms):
    """an expression aimed at one refine / simplify rule"""
    s = lambda: rng.choice(syms)
    def q():
        if rng.random() < 0.12:
            a, b = rng.choice(((0, 1), (1, 1), (0, -2), (Fraction(1, 2), Fraction(1, 2)), (0, Fraction(1, 2))))
            return CX(a, b)
        return FR(rng.choice(EXPS))
    atom = lambda: rng.choice((s(), ('mul', s(), s()), ('add', s(), I(1)), ('neg', s()), ('mul', I(-2), s()), ('pow', s(), I(2)), ('sub', s(), s()),
                               ('mul', FR(Fraction(1, 2)), s())))
    t = rng.randrange(16)
    if t == 0:
        return ('pow', ('pow', s(), q()), q())
    if t == 1:
        return ('pow', ('pow', atom(), q()), q())
    if t == 2:
        return ('log', ('pow', atom(), rng.choice((q(), s(), I(2), ('mul', I(2), s())))))
    if t == 3:
        return ('log', ('exp', atom()))
    if t == 4:
        return ('exp', ('log', atom()))
    if t == 5:
        return ('abs', atom())
    if t == 6:
        return ('sign', atom())
    if t == 7:
        return (rng.choice(('floor', 'ceiling')), rng.choice((atom(), ('add', s(), FR(Fraction(1, 2))), ('neg', s()), ('mul', I(2), s()), ('div', s(), I(2)))))
    if t == 8:
        return ('conjugate', atom())
    if t == 9:
        return (rng.choice(('max', 'min')),) + tuple(rng.choice((s(), I(0), ('neg', s()), I(1), ('abs', s()), ('mul', s(), s()), FR(Fraction(-1, 2)))) for _ in range(rng.choice((2, 3))))
    if t == 10:
        return ('pow', (rng.choice(('csc', 'sec', 'cot')), atom()), rng.choice((I(-1), I(-2), I(1), FR(Fraction(-1, 2)))))
    if t == 11:
        return ('mul', ('pow', (rng.choice(('csc', 'sec', 'cot')), s()), I(-1)), atom(), ('pow', ('sin', s()), I(-1)))
    if t == 12:
        return ('abs', ('conjugate', atom()))
    if t == 13:
        return ('log', I(rng.choice((8, 9, 27, 64, 100, 12, 1024, 7))))
    if t == 14:
        return ('pow', ('abs', s()), q())
    return ('sqrt', ('pow', atom(), I(2)))


class C(VPCheck):
    prop = 'C35'

    def run(self):
        rng = self.rng
        self.rule = ('expressions aimed at every RefineVisitor / SimplifyVisitor rule (nested powers with 14 inner/outer exponents, log of powers, '
                     'log(exp), exp(log), abs, sign, floor/ceiling, conjugate, max/min, reciprocal trig powers), alone and nested in arithmetic, under 13 '
                     'assumption sets per symbol; refine(e, A) and simplify(e, A) judged by value against the library input tree at 3 assignments '
                     'drawn inside A (negative and zero values where A allows them, integers for integer symbols, complex for unconstrained ones); '
                     'non-trivial = the result differs structurally from the input')
        items = []
        for k in range(self.q(7000, 180000)):
            nsym = rng.choice((1, 1, 2))
            syms = [S(n) for n in ('x', 'y')[:nsym]]
            e = target(rng, syms)
            if rng.random() < 0.35:
                e = (rng.choice(('add', 'mul', 'sub')), e, rng.choice((target(rng, syms), rng.choice(syms), I(2))))
            amap = {n[1]: rng.choice(ASSUME) for n in syms}
            op = rng.choice(('refine', 'refine', 'simplify'))
            items.append(self.make(e, op, amap, 'e%d' % k))
        self.vp_execute(items, 'c35')
        self.min_evals = 2500

    def make(self, e, op, amap, cid):
        alist = tuple((kind, S(name)) for name, (kinds, _) in sorted(amap.items()) for kind in kinds)
        kinds = {name: pk for name, (_, pk) in amap.items()}
        stmts = [('let', 'e', e), ('let', 'a', ('assume',) + alist), ('emit', '$e'), ('emit', (op, '$e', '$a'))]
        it = dict(cid=cid, stmts=stmts, at=3, spec=None, recipe=e, label=op, kind='complex', kinds=kinds,
                  adesc={n: list(k) for n, (k, _) in amap.items()})
        it['rebuild'] = lambda r2: self.make(r2, op, amap, 'k')
        return it

    def result_tree(self, it, st):
        r = it['_res']
        se = r.s(2)
        if se is None or se.st != 'ok':
            return None
        it['spec'] = se.v['t']
        it['nontrivial'] = st.v['t'] != se.v['t']
        return st.v['t']

    def key_of(self, it, detail):
        k = VPCheck.key_of(self, it, detail)
        k['assumptions'] = ','.join('%s:%s' % (n, '+'.join(a) or 'none') for n, a in sorted(it['adesc'].items()))
        from .c11 import norm_recip
        try:
            if norm_recip(it['spec']) == norm_recip(it['_rawtree']):
                # input and output differ only by (b**-1)**q <-> b**(-q): the rebuild went through pow(), which folds reciprocals
                k = dict(clause='value', family='reciprocal-power-refolded')
        except Exception:
            pass
        try:
            if k.get('family') is None and _has_power_of_reciprocal(it['spec']) and not _has_power_of_reciprocal(it['_rawtree']):
                # a non-integer power of a reciprocal ((c*x)**-1)**q was distributed / refolded into x**(-q): the same rule, seen through a product base
                k = dict(clause='value', family='reciprocal-power-refolded')
        except Exception:
            pass
        return k


def _has_power_of_reciprocal(t):
    """some Pow node raises a reciprocal (a power with a negative integer exponent, alone or as the only factor of a product) to a non-integer exponent"""
    if not isinstance(t, list) or not t:
        return False
    if t[0] == 'Pow' and isinstance(t[2], list) and t[2][0] != 'Integer':
        b = t[1]
        if b[0] == 'Pow' and b[2][0] == 'Integer' and int(b[2][1]) < 0:
            return True
        if b[0] == 'Mul' and any(term[2][0] == 'Integer' and int(term[2][1]) < 0 for term in b[2:]):
            return True
    for a in t[1:]:
        if isinstance(a, list):
            if a and a[0] == 'T':
                # a factor base**exponent of a product
                if t[0] == 'Mul' and isinstance(a[2], list) and a[2][0] != 'Integer' and a[1][0] == 'Pow' and a[1][2][0] == 'Integer' and int(a[1][2][1]) < 0:
                    return True
                if _has_power_of_reciprocal(a[1]) or _has_power_of_reciprocal(a[2]):
                    return True
            elif _has_power_of_reciprocal(a):
                return True
    return False
