"""C23 - GF(p) polynomial arithmetic and factorisation.
Reference X: coefficient lists modulo p (schoolbook), Euclid for gcd, brute-force irreducibility (no monic divisor of degree <= deg/2).
Factorisations are judged by their defining relations (monic, irreducible, multiply back), never by comparison with a second
factoriser."""
import itertools
from vlib.core import Check, run_cases, run_one, check_process_reports, crash_key, render


# ------------------------------------------------------------------ reference arithmetic on tuples (low degree first)
def strip(c, p):
    c = [x % p for x in c]
    while c and c[-1] == 0:
        c.pop()
    return tuple(c)


def padd(a, b, p):
    n = max(len(a), len(b))
    return strip([(a[i] if i < len(a) else 0) + (b[i] if i < len(b) else 0) for i in range(n)], p)


def pneg(a, p):
    return strip([-x for x in a], p)


def psub(a, b, p):
    return padd(a, pneg(b, p), p)


def pmul(a, b, p):
    if not a or not b:
        return ()
    r = [0] * (len(a) + len(b) - 1)
    for i, x in enumerate(a):
        if x:
            for j, y in enumerate(b):
                r[i + j] += x * y
    return strip(r, p)


def pdivmod(a, b, p):
    assert b
    inv = pow(b[-1], -1, p)
    a = list(a)
    q = [0] * max(0, len(a) - len(b) + 1)
    while len(a) >= len(b) and any(a):
        while a and a[-1] % p == 0:
            a.pop()
        if len(a) < len(b):
            break
        k = len(a) - len(b)
        c = a[-1] * inv % p
        q[k] = c
        for i, y in enumerate(b):
            a[i + k] = (a[i + k] - c * y) % p
    return strip(q, p), strip(a, p)


def pmonic(a, p):
    if not a:
        return 0, ()
    inv = pow(a[-1], -1, p)
    return a[-1], strip([x * inv for x in a], p)


def pgcd(a, b, p):
    while b:
        a, b = b, pdivmod(a, b, p)[1]
    return pmonic(a, p)[1]


def ppow(a, n, p):
    r = (1,)
    for _ in range(n):
        r = pmul(r, a, p)
    return r


def ppow_mod(a, n, h, p):
    r = pdivmod((1,), h, p)[1]
    b = pdivmod(a, h, p)[1]
    while n:
        if n & 1:
            r = pdivmod(pmul(r, b, p), h, p)[1]
        b = pdivmod(pmul(b, b, p), h, p)[1]
        n >>= 1
    return r


def pdiff(a, p):
    return strip([i * a[i] for i in range(1, len(a))], p)


def peval(a, x, p):
    r = 0
    for c in reversed(a):
        r = (r * x + c) % p
    return r


def monic_polys(deg, p):
    for low in itertools.product(range(p), repeat=deg):
        yield tuple(low) + (1,)


def is_irreducible(a, p, budget=4000):
    """None if the brute force is above budget"""
    d = len(a) - 1
    if d <= 0:
        return False
    if d == 1:
        return True
    if sum(p ** k for k in range(1, d // 2 + 1)) > budget:
        return None
    for k in range(1, d // 2 + 1):
        for m in monic_polys(k, p):
            if not pdivmod(a, m, p)[1]:
                return False
    return True


def dec(v):
    return tuple(int(x) for x in v['c']), int(v['p'])


def P(c, p):
    return ('gf', tuple(str(x) for x in c), str(p))


# ------------------------------------------------------------------ battery
def battery(f, g, h, p, rng):
    """list of (expression, judge(v)->problem or None)"""
    F, G, H = '$f', '$g', '$h'
    out = []

    def eqp(want):
        want = strip(want, p)
        return lambda v: None if dec(v) == (want, p) else 'got %r expected %r' % (dec(v)[0], want)
    out.append((('gf_add', F, G), eqp(padd(f, g, p))))
    out.append((('gf_sub', F, G), eqp(psub(f, g, p))))
    out.append((('gf_mul', F, G), eqp(pmul(f, g, p))))
    out.append((('gf_iadd', F, G), eqp(padd(f, g, p))))
    out.append((('gf_isub', F, G), eqp(psub(f, g, p))))
    out.append((('gf_imul', F, G), eqp(pmul(f, g, p))))
    out.append((('gf_neg', F), eqp(pneg(f, p))))
    out.append((('gf_sqr', F), eqp(pmul(f, f, p))))
    out.append((('gf_self_mul', F), eqp(pmul(f, f, p))))
    out.append((('gf_self_add', F), eqp(padd(f, f, p))))
    out.append((('gf_self_sub', F), eqp(())))
    k = rng.randint(-3, 2 * p + 1)
    out.append((('gf_add_int', F, str(k)), eqp(padd(f, (k,), p))))
    out.append((('gf_mul_int', F, str(k)), eqp(pmul(f, strip((k,), p), p))))
    n = rng.choice((0, 1, 2, 3, 5))
    out.append((('gf_pow', F, n), eqp(ppow(f, n, p))))
    out.append((('gf_diff', F), eqp(pdiff(f, p))))
    a = rng.randint(-2, p + 2)
    out.append((('gf_eval', F, str(a)), lambda v, a=a: None if int(v) % p == peval(f, a, p) else 'eval got %s expected %d' % (v, peval(f, a, p))))
    pts = [rng.randint(0, p + 1) for _ in range(3)]
    out.append((('gf_multi_eval', F, tuple(str(x) for x in pts)),
                lambda v: None if [int(x) % p for x in v] == [peval(f, x, p) for x in pts] else 'multi_eval got %r' % (v,)))
    sh = rng.choice((0, 1, 3))
    out.append((('gf_lshift', F, str(sh)), eqp(((0,) * sh + tuple(f)) if f else ())))

    def chk_rshift(v):
        q, r = dec(v[0])[0], dec(v[1])[0]
        return None if (q, r) == (strip(f[sh:], p), strip(f[:sh], p)) else 'rshift got %r %r' % (q, r)
    out.append((('gf_rshift', F, str(sh)), chk_rshift))

    def chk_monic(v):
        lc, m = int(v[0]), dec(v[1])[0]
        return None if (lc, m) == pmonic(f, p) else 'monic got %r %r expected %r' % (lc, m, pmonic(f, p))
    out.append((('gf_monic', F), chk_monic))
    out.append((('gf_gcd', F, G), eqp(pgcd(f, g, p))))
    if f and g:
        l = pmonic(pdivmod(pmul(f, g, p), pgcd(f, g, p), p)[0], p)[1]
        out.append((('gf_lcm', F, G), eqp(l)))
    if g:
        def chk_div(v):
            q, r = dec(v[0])[0], dec(v[1])[0]
            if padd(pmul(q, g, p), r, p) != strip(f, p):
                return 'q*g + r != f (q=%r r=%r)' % (q, r)
            if r and len(r) >= len(g):
                return 'deg r >= deg g (r=%r)' % (r,)
            return None
        out.append((('gf_div', F, G), chk_div))
        qq, rr = pdivmod(f, g, p)
        out.append((('gf_quo', F, G), eqp(qq)))
        out.append((('gf_rem', F, G), eqp(rr)))
    else:
        out.append((('gf_div', F, G), 'must-raise'))
        out.append((('gf_quo', F, G), 'must-raise'))
        out.append((('gf_rem', F, G), 'must-raise'))
    if len(h) >= 2:
        # composition g(f) mod h, power f**n mod h
        comp = ()
        for c in reversed(g):
            comp = pdivmod(padd(pmul(comp, f, p), (c,), p), h, p)[1]
        out.append((('gf_compose_mod', H, G, F), eqp(comp)))
        n2 = rng.choice((0, 1, 2, 3, 7, 12, p, p + 1))
        out.append((('gf_pow_mod', H, F, n2), eqp(ppow_mod(f, n2, h, p))))
    # square-free decomposition and factorisation of f
    if len(f) >= 2:
        lc, fm = pmonic(f, p)

        def chk_sqf(v):
            prod = (1,)
            parts = []
            for fac, mult in v:
                c = dec(fac)[0]
                if not c or c[-1] != 1:
                    return 'square-free part not monic %r' % (c,)
                if len(c) < 2:
                    return 'constant factor in sqf list'
                if pgcd(c, pdiff(c, p), p) != (1,):
                    return 'part %r is not square-free' % (c,)
                parts.append(c)
                prod = pmul(prod, ppow(c, mult, p), p)
            if prod != fm:
                return 'square-free parts do not multiply back: %r vs monic input %r' % (prod, fm)
            for x, y in itertools.combinations(parts, 2):
                if pgcd(x, y, p) != (1,):
                    return 'parts not coprime %r %r' % (x, y)
            return None
        out.append((('gf_sqf_list', F), chk_sqf))
        sqf_ref = pgcd(fm, pdiff(fm, p), p) == (1,) if pdiff(fm, p) else False
        out.append((('gf_is_sqf', F), lambda v: None if bool(v) == sqf_ref else 'is_sqf got %r expected %r' % (v, sqf_ref)))

        def chk_factor(v):
            if int(v[0]) % p != lc % p:
                return 'leading coefficient %s expected %d' % (v[0], lc)
            prod = (1,)
            seen = set()
            for fac, mult in v[1]:
                c = dec(fac)[0]
                if not c or c[-1] != 1:
                    return 'factor not monic %r' % (c,)
                if c in seen:
                    return 'factor listed twice %r' % (c,)
                seen.add(c)
                irr = is_irreducible(c, p)
                if irr is False:
                    return 'factor %r is reducible' % (c,)
                prod = pmul(prod, ppow(c, mult, p), p)
            if prod != fm:
                return 'factors do not multiply back: %r vs monic input %r' % (prod, fm)
            return None
        for _ in range(2):      # the factoriser draws random polynomials: sample it more than once
            out.append((('gf_factor', F), chk_factor))
        if sqf_ref:
            def chk_sqf_factors(v):
                prod = (1,)
                for fac in v:
                    c = dec(fac)[0]
                    if not c or c[-1] != 1:
                        return 'factor not monic %r' % (c,)
                    if is_irreducible(c, p) is False:
                        return 'factor %r is reducible' % (c,)
                    prod = pmul(prod, c, p)
                return None if prod == fm else 'factors do not multiply back: %r vs %r' % (prod, fm)
            out.append((('gf_zassenhaus', ('gf_monic_poly', F)), chk_sqf_factors))
            out.append((('gf_shoup', ('gf_monic_poly', F)), chk_sqf_factors))
    return out


class C(Check):
    prop = 'C23'

    def run(self):
        rng = self.rng
        self.rule = ('triples (f, g, h) of polynomials over GF(p): all polynomials of degree <= 3 (thorough: <= 4) over GF(2), GF(3), GF(5) '
                     'as f (paired with enumerated/random g, h), random degree <= 12 for primes <= 101 and 2**31-1, unreduced / negative / zero-leading '
                     'constructor coefficients, zero polynomial operands; each triple runs a battery of ~35 operations judged against coefficient-list '
                     'arithmetic mod p; factorisations judged by monic + brute-force irreducible + multiply back (sampled twice); non-trivial = f of '
                     'degree >= 2 and g non-constant')
        triples = []
        for p in (2, 3, 5):
            maxdeg = 4 if self.tier == 'thorough' else 3
            allf = [strip(c, p) for d in range(0, maxdeg + 2) for c in itertools.product(range(p), repeat=d)]
            allf = sorted(set(allf))
            if self.tier == 'quick' and len(allf) > 160:
                allf = rng.sample(allf, 160)
            for f in allf:
                g = rng.choice(allf)
                h = rng.choice([x for x in allf if len(x) >= 2] or [(0, 1)])
                triples.append((p, f, g, h, 'enum'))
        self.exhaustive = self.tier == 'thorough'
        primes = [2, 3, 5, 7, 11, 13, 17, 31, 53, 97, 101, 2 ** 31 - 1]
        for _ in range(self.q(900, 40000)):
            p = rng.choice(primes)

            def rp(maxd):
                d = rng.randint(0, maxd)
                c = [rng.randrange(p) if p < 1000 else rng.choice((0, 1, p - 1, rng.randrange(p))) for _ in range(d + 1)]
                if rng.random() < 0.1:
                    return ()
                return strip(c, p)
            f, g, h = rp(12 if p < 50 else (7 if p < 1000 else 4)), rp(6), rp(5)
            if rng.random() < 0.25 and len(g) >= 2:      # planted common factor / repeated factor
                f = pmul(pmul(g, g, p), rp(3) or (1,), p)
            if len(h) < 2:
                h = strip((1, 1, 1), p) if p != 3 else (1, 0, 1)
            triples.append((p, f, g, h, 'rand'))
        cases = []
        meta = {}
        for i, (p, f, g, h, kind) in enumerate(triples):
            def raw(c):
                # constructor input that is not reduced: add multiples of p, negative representatives, trailing zeros
                c = list(c)
                if rng.random() < 0.3:
                    c = [x + rng.choice((0, p, -p, 2 * p)) for x in c]
                if rng.random() < 0.2:
                    c = c + [0, rng.choice((0, p))]
                return c
            stmts = [('let', 'f', P(raw(f), p)), ('let', 'g', P(raw(g), p)), ('let', 'h', P(raw(h), p))]
            bat = battery(f, g, h, p, rng)
            for ex, _ in bat:
                stmts.append(('emit', ex))
            cid = 't%d' % i
            cases.append((cid, stmts))
            meta[cid] = (p, f, g, h, bat)
        res, reps = run_cases('asan', cases, tag='c23', timeout=60)
        check_process_reports(self, reps)
        progs = dict(cases)
        cands = []
        for cid, (p, f, g, h, bat) in meta.items():
            r = res.get(cid)
            if r is None:
                self.inconclusive += 1
                continue
            self.note_asserts(r)
            if r.status == 'timeout':
                self.inconclusive += 1
                self.count('timeout')
                continue
            if len(f) >= 3 and len(g) >= 2:
                self.nontriv((p, f, g))
            for j, (ex, jd) in enumerate(bat):
                st = r.s(3 + j)
                if st is None:
                    if r.status == 'crashed' and (3 + j) == len(r.stmts):
                        cands.append((cid, j, 'crash'))
                    continue
                self.evaluations += 1
                self.count('op:' + ex[0])
                pr = self._judge1(st, jd)
                if pr:
                    cands.append((cid, j, pr))
            if len(self.samples) < 4 and len(f) >= 4 and r.status == 'ok':
                st = r.s(3 + len(bat) - 1)
                self.sample(dict(p=p, f=list(f), last_op=render(bat[-1][0]), result=st.v if st is not None and st.st == 'ok' else None))
        seen = set()
        for cid, j, pr in cands[:60]:
            p, f, g, h, bat = meta[cid]
            ex, jd = bat[j]
            prog = progs[cid][:3] + [('emit', ex)]
            bad = None
            for rep in range(3 if ex[0] in ('gf_factor', 'gf_zassenhaus', 'gf_shoup') else 1):
                r, _ = run_one('asan', 'c', prog, timeout=60)
                if r is None:
                    continue
                if r.status == 'crashed':
                    bad = ('crash', r)
                    break
                st = r.s(3)
                if r.status == 'ok' and st is not None:
                    pr2 = self._judge1(st, jd)
                    if pr2:
                        bad = (pr2, r)
                        break
            if bad is None:
                self.inconclusive += 1
                continue
            if bad[0] == 'crash':
                key = dict(crash_key(bad[1]), op=ex[0])
                wit = dict(program=[render(s) for s in prog], crash=bad[1].crash, config='asan')
            else:
                key = dict(clause='value', op=ex[0], problem=bad[0].split(' ')[0] + ' ' + (bad[0].split(' ') + [''])[1], small_field=p <= 5)
                wit = dict(program=[render(s) for s in prog], problem=bad[0], p=p, f=list(f), g=list(g), h=list(h), config='asan')
            ks = str(sorted(key.items()))
            if ks in seen:
                continue
            seen.add(ks)
            self.violation(key, wit)
        self.min_evals = 5000

    def _judge1(self, st, jd):
        if jd == 'must-raise':
            if st.st == 'exc':
                return None
            return 'division by the zero polynomial did not raise (status %s)' % st.st
        if st.st == 'exc':
            return 'raised %s: %s' % (st.ty, st.msg)
        if st.st != 'ok':
            return 'status %s' % st.st
        try:
            return jd(st.v)
        except Exception as ex:
            return 'malformed result (%s: %s)' % (type(ex).__name__, ex)
