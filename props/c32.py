"""C32 - number-theoretic functions agree with their definitions.
Reference B: brute force over Python ints written from the definitions (trial division, exhaustive search modulo m, defining
recurrences); large arguments are judged by checkable identities."""
import math
from fractions import Fraction
from vlib.core import Check, run_cases, run_one, check_process_reports, crash_key, render
from vlib import gen


# ------------------------------------------------------------------ reference definitions
def is_prime(n):
    if n < 2:
        return False
    i = 2
    while i * i <= n:
        if n % i == 0:
            return False
        i += 1
    return True


def factorint(n):
    n = abs(n)
    f = {}
    p = 2
    while p * p <= n:
        while n % p == 0:
            f[p] = f.get(p, 0) + 1
            n //= p
        p += 1
    if n > 1:
        f[n] = f.get(n, 0) + 1
    return f


def tdiv(a, b):
    q = abs(a) // abs(b)
    if (a < 0) != (b < 0):
        q = -q
    return q, a - q * b


def totient(n):
    return sum(1 for k in range(1, n + 1) if math.gcd(k, n) == 1)


def mult_order(a, n):
    if math.gcd(a, n) != 1:
        return None
    x, k = a % n, 1
    if n == 1:
        return 1
    while x != 1:
        x = x * a % n
        k += 1
    return k


def carmichael(n):
    if n == 1:
        return 1
    l = 1
    for a in range(1, n):
        if math.gcd(a, n) == 1:
            o = mult_order(a, n)
            l = l * o // math.gcd(l, o)
    return l


def primitive_roots(n):
    if n == 1:
        return [0] if False else []
    phi = totient(n)
    return [g for g in range(1, n) if math.gcd(g, n) == 1 and mult_order(g, n) == phi]


def legendre_def(a, p):
    a %= p
    if a == 0:
        return 0
    return 1 if any(x * x % p == a for x in range(1, p)) else -1


def jacobi_def(a, n):
    r = 1
    for p, e in factorint(n).items():
        r *= legendre_def(a, p) ** e
    return r


def kronecker_def(a, n):
    if n == 0:
        return 1 if abs(a) == 1 else 0
    r = 1
    if n < 0:
        n = -n
        if a < 0:
            r = -r
    e = 0
    while n % 2 == 0:
        n //= 2
        e += 1
    if e:
        if a % 2 == 0:
            return 0
        k2 = 1 if a % 8 in (1, 7) else -1
        r *= k2 ** e
    if n == 1:
        return r
    return r * jacobi_def(a, n)


def mobius(n):
    f = factorint(n)
    if any(e > 1 for e in f.values()):
        return 0
    return -1 if len(f) % 2 else 1


def bernoulli(n):
    B = [Fraction(0)] * (n + 1)
    B[0] = Fraction(1)
    for m in range(1, n + 1):
        B[m] = -sum(Fraction(math.comb(m + 1, k)) * B[k] for k in range(m)) / (m + 1)
    return B[n]


def perfect_power(n):
    """largest exponent e >= 1 with b**e == n; returns (b, e)"""
    if n < 2:
        return (n, 1)
    best = (n, 1)
    e = 2
    while 2 ** e <= n:
        b = round(n ** (1.0 / e))
        for c in (b - 1, b, b + 1):
            if c >= 2 and c ** e == n:
                best = (c, e)
        e += 1
    return best


# ------------------------------------------------------------------ case construction
def Z(x):
    return str(int(x))


class C(Check):
    prop = 'C32'

    def add(self, call, want, kind='value'):
        """call: executor expression; want: expected decoded value or a predicate function(decoded) -> problem string or None."""
        self._cases.append((call, want, kind))

    def build_small(self, full):
        rng = self.rng
        R = (lambda xs, k: xs if full or len(xs) <= k else rng.sample(xs, k))
        # --- unary on n
        ns = list(range(0, 1201 if full else 400))
        for n in R(ns, 260):
            if n >= 1:
                self.add(('nt_totient', Z(n)), Z(totient(n)) if n <= 400 else None)
                self.add(('nt_mobius', Z(n)), mobius(n))
                f = factorint(n)
                self.add(('nt_prime_factors', Z(n)), [Z(p) for p in sorted(f) for _ in range(f[p])])
                self.add(('nt_prime_factor_multiplicities', Z(n)), [[Z(p), f[p]] for p in sorted(f)])
                self.add(('nt_perfect_power_decomposition', Z(n)), [Z(x) for x in perfect_power(n)] if n >= 2 else None)
                self.add(('nt_perfect_power', Z(n)), (perfect_power(n)[1] > 1 or n == 1) if n >= 1 else None)
            self.add(('nt_probab_prime_p', Z(n)), (lambda v, n=n: None if (v > 0) == is_prime(n) else 'primality of %d reported %r' % (n, v)))
            self.add(('nt_nextprime', Z(n)), Z(next(k for k in range(n + 1, 2 * n + 10) if is_prime(k))))
            self.add(('nt_isqrt', Z(n)), Z(math.isqrt(n)))
            self.add(('nt_perfect_square', Z(n)), math.isqrt(n) ** 2 == n)
            if n <= 300:
                self.add(('nt_fibonacci', Z(n)), Z(_fib(n)))
                self.add(('nt_lucas', Z(n)), Z(_luc(n)))
                self.add(('nt_factorial', Z(n)), Z(math.factorial(n)))
                if n >= 1:
                    self.add(('nt_fibonacci2', Z(n)), [Z(_fib(n)), Z(_fib(n - 1))])
                    self.add(('nt_lucas2', Z(n)), [Z(_luc(n)), Z(_luc(n - 1))])
                    self.add(('nt_mertens', Z(n)), sum(mobius(k) for k in range(1, n + 1)))
            if 1 <= n <= 250:
                self.add(('nt_carmichael', Z(n)), Z(carmichael(n)))
                pr = primitive_roots(n)
                self.add(('nt_primitive_root_list', Z(n)), (lambda v, pr=pr, n=n: None if sorted(int(x) for x in v) == pr else 'primitive roots of %d: %r' % (n, v)))
                self.add(('nt_primitive_root', Z(n)), (lambda v, pr=pr, n=n: None if (v[0] == bool(pr) and (not pr or int(v[1]) in pr) and (not pr or not is_prime(n) or int(v[1]) == pr[0]))
                                                           else 'primitive_root(%d) = %r, roots %r' % (n, v, pr[:5])) if n > 1 else None)
                self.add(('nt_quadratic_residues', Z(n)), [Z(x) for x in sorted({x * x % n for x in range(n)})])
            if n <= 60:
                self.add(('emit_b', ('nt_bernoulli', Z(n))), bernoulli(n) if n != 1 else None, 'rat')
                for m in (1, 2, 3):
                    if n >= 1:
                        self.add(('emit_b', ('nt_harmonic', Z(n), m)), sum(Fraction(1, k ** m) for k in range(1, n + 1)), 'rat')
        # --- binary (a, b) incl. negatives and zero
        rngab = list(range(-12, 13))
        pairs = [(a, b) for a in rngab for b in rngab]
        for a, b in R(pairs, 220):
            g = math.gcd(a, b)
            self.add(('nt_gcd', Z(a), Z(b)), Z(g))
            self.add(('nt_lcm', Z(a), Z(b)), Z(abs(a * b) // g if g else 0))
            self.add(('nt_gcd_ext', Z(a), Z(b)), (lambda v, a=a, b=b, g=g: None if int(v[0]) == g and int(v[1]) * a + int(v[2]) * b == g
                                                    else 'gcd_ext(%d,%d) = %r' % (a, b, v)))
            if b != 0:
                q, r = tdiv(a, b)
                self.add(('nt_quotient', Z(a), Z(b)), Z(q))
                self.add(('nt_mod', Z(a), Z(b)), Z(r))
                self.add(('nt_quotient_mod', Z(a), Z(b)), [Z(q), Z(r)])
                self.add(('nt_quotient_f', Z(a), Z(b)), Z(a // b))
                self.add(('nt_mod_f', Z(a), Z(b)), Z(a - (a // b) * b))
                self.add(('nt_quotient_mod_f', Z(a), Z(b)), [Z(a // b), Z(a - (a // b) * b)])
                self.add(('nt_divides', Z(a), Z(b)), a % b == 0)
            if b >= 0:
                self.add(('nt_binomial', Z(a), Z(b)), Z(_binom(a, b)))
            self.add(('nt_kronecker', Z(a), Z(b)), kronecker_def(a, b))
        # --- modular: (a, m)
        ms = [m for m in range(1, 151 if full else 90)]
        for m in R(ms, 70):
            for a in R(list(range(-3, m + 3)), 14):
                inv = next((x for x in range(m) if (a * x - 1) % m == 0), None)
                if m > 1:
                    self.add(('nt_mod_inverse', Z(a), Z(m)), (lambda v, a=a, m=m, inv=inv: None if ((v[0] != 0) == (inv is not None) and (inv is None or (int(v[1]) * a - 1) % m == 0 and 0 <= int(v[1]) < m))
                                                                 else 'mod_inverse(%d,%d) = %r (reference %r)' % (a, m, v, inv)))
                o = mult_order(a, m) if m >= 1 else None
                self.add(('nt_multiplicative_order', Z(a), Z(m)), (lambda v, o=o, a=a, m=m: None if (v[0] == (o is not None) and (o is None or int(v[1]) == o))
                                                                      else 'multiplicative_order(%d,%d) = %r (reference %r)' % (a, m, v, o)))
                if m % 2 == 1 and m > 1:
                    self.add(('nt_jacobi', Z(a), Z(m)), jacobi_def(a, m))
                    if is_prime(m):
                        self.add(('nt_legendre', Z(a), Z(m)), legendre_def(a, m))
                self.add(('nt_is_quad_residue', Z(a), Z(m)), any((x * x - a) % m == 0 for x in range(m)))
                for n in R([1, 2, 3, 4, 5, 6], 3):
                    sols = [x for x in range(m) if (pow(x, n, m) - a) % m == 0]
                    self.add(('nt_nthroot_mod_list', Z(a), Z(n), Z(m)), [Z(x) for x in sols])
                    self.add(('nt_nthroot_mod', Z(a), Z(n), Z(m)), (lambda v, sols=sols, a=a, n=n, m=m: None if (v[0] == bool(sols) and (not sols or int(v[1]) in sols))
                                                                       else 'nthroot_mod(%d,%d,%d) = %r (solutions %r)' % (a, n, m, v, sols[:6])))
                    self.add(('nt_is_nth_residue', Z(a), Z(n), Z(m)), bool(sols))
                    # powermod with rational exponent r/s : x**s == a**r (mod m)
                    for (r_, s_) in R([(1, 2), (2, 3), (3, 2), (-1, 2), (1, 3), (5, 1), (-2, 1)], 2):
                        if r_ < 0 and math.gcd(a, m) != 1:
                            target = None
                        else:
                            base = pow(a, r_, m) if r_ >= 0 else pow(pow(a, -1, m), -r_, m) if m > 1 else 0
                            target = [x for x in range(m) if (pow(x, s_, m) - base) % m == 0]
                        ex = gen.FR(Fraction(r_, s_))
                        if target is not None:
                            self.add(('nt_powermod_list', Z(a), ex, Z(m)), [Z(x) for x in target])
                            self.add(('nt_powermod', Z(a), ex, Z(m)), (lambda v, t=target, a=a, m=m, r_=r_, s_=s_: None if (v[0] == bool(t) and (not t or int(v[1]) % m in t))
                                                                         else 'powermod(%d,%d/%d,%d) = %r (solutions %r)' % (a, r_, s_, m, v, t[:6])))
        # --- crt
        for _ in range(400 if full else 120):
            k = rng.choice((1, 2, 3))
            mods = [rng.randint(1, 30) for _ in range(k)]
            rems = [rng.randint(-5, 40) for _ in range(k)]
            L = 1
            for m in mods:
                L = L * m // math.gcd(L, m)
            sols = [x for x in range(L) if all((x - r) % m == 0 for r, m in zip(rems, mods))]
            self.add(('nt_crt', tuple(Z(r) for r in rems), tuple(Z(m) for m in mods)),
                     (lambda v, sols=sols, rems=rems, mods=mods, L=L: None if (v[0] == bool(sols) and (not sols or int(v[1]) % L == sols[0]))
                      else 'crt(%r,%r) = %r (solutions mod %d: %r)' % (rems, mods, v, L, sols)))
        # --- polygonal numbers
        for s in range(3, 9):
            for n in range(0, 30 if full else 12):
                P = ((s - 2) * n * n - (s - 4) * n) // 2
                self.add(('nt_polygonal_number', Z(s), Z(n)), Z(P))
                if n >= 1:
                    self.add(('nt_principal_polygonal_root', Z(s), Z(P)), Z(n))
        # --- i_nth_root
        for n in R(list(range(0, 600)), 120):
            for k in (1, 2, 3, 5):
                r = _iroot(n, k)
                self.add(('nt_i_nth_root', Z(n), k), [1 if r ** k == n else 0, Z(r)])
        # --- factoring methods on small composites / primes
        for n in R(list(range(2, 2000)), 160):
            chk = (lambda v, n=n: None if ((v[0] == 0 and (is_prime(n) or True)) or (v[0] != 0 and 1 < int(v[1]) < n and n % int(v[1]) == 0)) and not (v[0] != 0 and is_prime(n))
                   else 'factor method on %d returned %r' % (n, v))
            self.add(('nt_factor_trial_division', Z(n)), (lambda v, n=n: None if ((v[0] != 0) == (not is_prime(n)) and (v[0] == 0 or (1 < int(v[1]) < n and n % int(v[1]) == 0)))
                                                            else 'factor_trial_division(%d) = %r' % (n, v)))
            self.add(('nt_factor', Z(n)), (lambda v, n=n: None if ((v[0] != 0) == (not is_prime(n)) and (v[0] == 0 or (1 < int(v[1]) < n and n % int(v[1]) == 0)))
                                             else 'factor(%d) = %r' % (n, v)))
            if n > 7:
                self.add(('nt_factor_lehman_method', Z(n)), (lambda v, n=n: None if ((v[0] != 0) == (not is_prime(n)) and (v[0] == 0 or (1 < int(v[1]) < n and n % int(v[1]) == 0)))
                                                               else 'factor_lehman_method(%d) = %r' % (n, v)))
            if n > 4:
                self.add(('nt_factor_pollard_rho_method', Z(n), 5), chk)
                self.add(('nt_factor_pollard_pm1_method', Z(n), 10, 5), chk)

    def build_large(self, count):
        rng = self.rng
        for _ in range(count):
            bits = rng.choice((64, 65, 96, 128, 200, 256))
            a = rng.getrandbits(bits) * rng.choice((1, -1))
            b = (rng.getrandbits(rng.choice((32, 64, 70, 128))) | 1) * rng.choice((1, -1))
            g = math.gcd(a, b)
            self.add(('nt_gcd', Z(a), Z(b)), Z(g))
            self.add(('nt_lcm', Z(a), Z(b)), Z(abs(a * b) // g))
            self.add(('nt_gcd_ext', Z(a), Z(b)), (lambda v, a=a, b=b, g=g: None if int(v[0]) == g and int(v[1]) * a + int(v[2]) * b == g else 'gcd_ext large'))
            q, r = tdiv(a, b)
            self.add(('nt_quotient_mod', Z(a), Z(b)), [Z(q), Z(r)])
            self.add(('nt_quotient_mod_f', Z(a), Z(b)), [Z(a // b), Z(a - (a // b) * b)])
            self.add(('nt_mod_f', Z(a), Z(b)), Z(a - (a // b) * b))
            self.add(('nt_mod', Z(a), Z(b)), Z(r))
            m = abs(b) + 2
            self.add(('nt_mod_inverse', Z(a), Z(m)), (lambda v, a=a, m=m: None if ((v[0] != 0) == (math.gcd(a, m) == 1) and (v[0] == 0 or ((int(v[1]) * a - 1) % m == 0 and 0 <= int(v[1]) < m)))
                                                         else 'mod_inverse large (%d, %d) = %r' % (a, m, v)))
            n = abs(a) + 2
            self.add(('nt_isqrt', Z(n)), Z(math.isqrt(n)))
            k = rng.choice((2, 3, 5, 7))
            r = _iroot(n, k)
            self.add(('nt_i_nth_root', Z(n), k), [1 if r ** k == n else 0, Z(r)])
            base, e = rng.randint(2, 2 ** 40), rng.choice((2, 3, 4, 5, 6, 7, 9, 12))
            pb, pe = perfect_power_exact(base, e)
            self.add(('nt_perfect_power_decomposition', Z(base ** e)), [Z(pb), Z(pe)])
            self.add(('nt_perfect_power', Z(base ** e)), True)
            self.add(('nt_perfect_power', Z(base ** e + 1)), (lambda v: None) if False else None)
            p1, p2 = _rand_prime(rng, 14), _rand_prime(rng, 22)
            nn = p1 * p2
            self.add(('nt_prime_factors', Z(nn)), [Z(x) for x in sorted((p1, p2))])
            self.add(('nt_totient', Z(nn)), Z((p1 - 1) * (p2 - 1)) if p1 != p2 else Z(p1 * (p1 - 1)))
            self.add(('nt_factor', Z(nn)), (lambda v, nn=nn: None if v[0] != 0 and 1 < int(v[1]) < nn and nn % int(v[1]) == 0 else 'factor(%d) = %r' % (nn, v)))
            self.add(('nt_probab_prime_p', Z(nn)), (lambda v: None if v == 0 else 'composite reported prime'))
            self.add(('nt_probab_prime_p', Z(p2)), (lambda v: None if v > 0 else 'prime reported composite'))
            self.add(('nt_nextprime', Z(p2 - 1)), Z(p2))
            x = rng.randint(0, 3000)
            self.add(('nt_fibonacci', Z(x)), Z(_fib(x)))
            self.add(('nt_binomial', Z(rng.randint(-50, 300)), Z(rng.randint(0, 60))), None)
        # fix up the placeholder binomials
        self._cases = [(c, (Z(_binom(int(c[1]), int(c[2]))) if (w is None and c[0] == 'nt_binomial') else w), k) for c, w, k in self._cases]

    def run(self):
        self._cases = []
        full = self.tier == 'thorough'
        self.rule = ('every listed function on bounded argument ranges (thorough: complete ranges n <= 1200, a,b in [-12,12], m <= 150 with all '
                     'residues a and root orders n <= 6; quick: a random third) against brute-force definitions in pure Python, plus random '
                     '64-256-bit arguments judged by identities (Bezout, division identities for both rounding conventions, inverse, '
                     'returned factor divides, semiprime factorisations, root brackets); non-trivial = argument tuple not containing 0 or 1 and a '
                     'result that is not 0/1/false')
        self.build_small(full)
        self.build_large(self.q(300, 6000))
        self.exhaustive = full
        cases = []
        live = [(c, w, k) for c, w, k in self._cases if w is not None]
        per = 60
        for i in range(0, len(live), per):
            chunk = live[i:i + per]
            stmts = []
            for c, w, k in chunk:
                stmts.append(('emit', c[1]) if c[0] == 'emit_b' else ('emit', c))
            cases.append(('b%d' % (i // per), stmts))
        res, reps = run_cases('asan', cases, tag='c32', timeout=120)
        check_process_reports(self, reps)
        cands = []
        for bi, (cid, stmts) in enumerate(cases):
            r = res.get(cid)
            chunk = live[bi * per:(bi + 1) * per]
            if r is None:
                self.inconclusive += len(chunk)
                continue
            self.note_asserts(r)
            for j, (c, w, k) in enumerate(chunk):
                st = r.s(j)
                if st is None:
                    if r.status == 'crashed' and j == len(r.stmts):
                        cands.append((c, w, k, 'crash'))
                    else:
                        self.inconclusive += 1
                    continue
                self.evaluations += 1
                self.count('fn:' + (c[1][0] if c[0] == 'emit_b' else c[0]))
                p = self._judge(c, w, k, st)
                if p == 'declined':
                    continue
                args = [a for a in (c[1][1:] if c[0] == 'emit_b' else c[1:]) if isinstance(a, str)]
                if all(a not in ('0', '1') for a in args) and st.st == 'ok' and st.v not in (0, 1, False, '0', '1'):
                    self.nontriv(render(c))
                if p:
                    cands.append((c, w, k, p))
                elif len(self.samples) < 6 and self.evaluations % 997 == 0:
                    self.sample(dict(call=render(c), result=st.v if not isinstance(st.v, dict) else st.v.get('s')))
        # confirm each candidate alone in a fresh process
        seen = set()
        for c, w, k, p in cands[:80]:
            fn = c[1][0] if c[0] == 'emit_b' else c[0]
            stmt = ('emit', c[1]) if c[0] == 'emit_b' else ('emit', c)
            r, _ = run_one('asan', 'c', [stmt], timeout=120)
            if r is None:
                self.inconclusive += 1
                continue
            if r.status == 'crashed':
                key = dict(crash_key(r), fn=fn)
                self.violation(key, dict(program=[render(stmt)], crash=r.crash, config='asan'))
                continue
            st = r.s(0)
            if r.status != 'ok' or st is None:
                self.inconclusive += 1
                continue
            p2 = self._judge(c, w, k, st)
            if not p2 or p2 == 'declined':
                self.inconclusive += 1
                continue
            key = dict(clause='value', fn=fn, argsign=''.join('-' if a.startswith('-') else ('0' if a == '0' else '+') for a in c[1:] if isinstance(a, str)))
            ks = str(sorted(key.items()))
            if ks in seen:
                continue
            seen.add(ks)
            self.violation(key, dict(program=[render(stmt)], problem=p2, got=st.v if st.st == 'ok' else st.st, config='asan'))
        self.min_evals = 3000

    def _judge(self, c, w, k, st):
        if st.st == 'exc':
            self.count('declined:%s:%s' % (c[0], str(st.ty).split('::')[-1]))
            return 'declined'
        if st.st != 'ok':
            return 'status %s' % st.st
        v = st.v
        if k == 'rat':
            x = gen.exact_value(v['t'])
            if x is None or x[0] != 'q' or x[1] != w:
                return 'got %s, definition gives %s' % (v.get('s'), w)
            return None
        if callable(w):
            try:
                return w(v)
            except Exception as ex:
                return 'malformed result %r (%s)' % (v, ex)
        if v != w:
            return 'got %r, definition gives %r' % (v, w)
        return None


def _fib(n):
    a, b = 0, 1
    for _ in range(n):
        a, b = b, a + b
    return a


def _luc(n):
    a, b = 2, 1
    for _ in range(n):
        a, b = b, a + b
    return a


def _binom(n, k):
    """generalised binomial for integer n (negative allowed), k >= 0"""
    num = 1
    for i in range(k):
        num *= (n - i)
    return num // math.factorial(k)


def _iroot(n, k):
    if n < 2:
        return n
    lo, hi = 0, 1 << (n.bit_length() // k + 1)
    while lo < hi:
        mid = (lo + hi + 1) // 2
        if mid ** k <= n:
            lo = mid
        else:
            hi = mid - 1
    return lo


def perfect_power_exact(base, e):
    """highest-exponent decomposition of base**e"""
    b, e0 = perfect_power(base) if base < 10 ** 13 else (base, 1)
    return b, e0 * e


def _rand_prime(rng, bits):
    while True:
        c = rng.getrandbits(bits) | (1 << (bits - 1)) | 1
        if is_prime(c):
            return c
