// C API (cwrapper.h) and Expression-wrapper operations for C42.
// The C handles are filled from / read back into RCPs through a mirror of the handle layout (cwrapper.cpp: struct CRCPBasic { RCP m; }).
#include "sx.h"
#include <symengine/cwrapper.h>
#include <symengine/expression.h>

using namespace SymEngine;
using namespace sx;

namespace
{
struct Mirror {
    RCP<const Basic> m;
};
static_assert(sizeof(Mirror) == sizeof(basic_struct), "handle layout");
struct Handle {
    basic b;
    Handle() { basic_new_stack(b); }
    explicit Handle(const RCP<const Basic> &x)
    {
        basic_new_stack(b);
        reinterpret_cast<Mirror *>(b)->m = x;
    }
    ~Handle() { basic_free_stack(b); }
    RCP<const Basic> get() const { return reinterpret_cast<const Mirror *>(b)->m; }
    Handle(const Handle &) = delete;
    Handle &operator=(const Handle &) = delete;
};
typedef CWRAPPER_OUTPUT_TYPE (*fn1_t)(basic, const basic);
typedef CWRAPPER_OUTPUT_TYPE (*fn2_t)(basic, const basic, const basic);
#define U(n) {#n, basic_##n}
const std::map<std::string, fn1_t> FN1 = {
    U(expand), U(neg), U(abs), U(erf), U(erfc), U(sin), U(cos), U(tan), U(asin), U(acos), U(atan), U(csc), U(sec), U(cot), U(acsc), U(asec), U(acot),
    U(sinh), U(cosh), U(tanh), U(asinh), U(acosh), U(atanh), U(csch), U(sech), U(coth), U(acsch), U(asech), U(acoth), U(lambertw), U(zeta),
    U(dirichlet_eta), U(gamma), U(loggamma), U(sqrt), U(cbrt), U(exp), U(log), U(floor), U(ceiling), U(sign),
    U(set_inf), U(set_sup), U(set_boundary), U(set_interior), U(set_closure)};
const std::map<std::string, fn2_t> FN2 = {
    U(add), U(sub), U(mul), U(div), U(pow), U(diff), U(atan2), U(lowergamma), U(uppergamma), U(beta), U(polygamma), U(set_union), U(set_intersection),
    U(set_complement), U(set_contains), {"rational_set", rational_set}, {"complex_set", complex_set}};
#undef U
// outcome of a C call: {"code": n} plus the value for code 0; {"escaped": "..."} when a C++ exception crossed the C boundary
std::string outcome(CWRAPPER_OUTPUT_TYPE code, const Handle *h)
{
    std::string o = "{\"code\":" + std::to_string((int)code);
    if (code == SYMENGINE_NO_EXCEPTION and h != nullptr) {
        if (h->get().is_null()) o += ",\"null\":true";
        else o += ",\"v\":" + val_json(Val::B(h->get()), true);
    }
    return o + "}";
}
template <class F> Val guarded(F f)
{
    try {
        return Val::J(f());
    } catch (HarnessError &) {
        throw;
    } catch (std::exception &ex) {
        return Val::J(std::string("{\"escaped\":") + jstr(ex.what()) + "}");
    } catch (...) {
        return Val::J("{\"escaped\":\"non-standard exception\"}");
    }
}
} // namespace

SXOP(capi1)
{
    auto it = FN1.find(c.S(e, 1));
    if (it == FN1.end()) throw HarnessError{"capi1: unknown function " + c.S(e, 1)};
    RCP<const Basic> a = c.B(e, 2);
    return guarded([&]() {
        Handle s, ha(a);
        return outcome(it->second(s.b, ha.b), &s);
    });
}
SXOP(capi2)
{
    auto it = FN2.find(c.S(e, 1));
    if (it == FN2.end()) throw HarnessError{"capi2: unknown function " + c.S(e, 1)};
    RCP<const Basic> a = c.B(e, 2), b = c.B(e, 3);
    return guarded([&]() {
        Handle s, ha(a), hb(b);
        return outcome(it->second(s.b, ha.b, hb.b), &s);
    });
}
// result object aliases an operand (documented use: basic_add(a, a, b))
SXOP(capi2_inplace)
{
    auto it = FN2.find(c.S(e, 1));
    if (it == FN2.end()) throw HarnessError{"capi2_inplace: unknown function " + c.S(e, 1)};
    RCP<const Basic> a = c.B(e, 2), b = c.B(e, 3);
    return guarded([&]() {
        Handle ha(a), hb(b);
        return outcome(it->second(ha.b, ha.b, hb.b), &ha);
    });
}
SXOP(capi_subs2)
{
    RCP<const Basic> x = c.B(e, 1), a = c.B(e, 2), b = c.B(e, 3);
    return guarded([&]() {
        Handle s, hx(x), ha(a), hb(b);
        return outcome(basic_subs2(s.b, hx.b, ha.b, hb.b), &s);
    });
}
SXOP(capi_parse)
{
    std::string str = c.S(e, 1);
    return guarded([&]() {
        Handle s;
        return outcome(basic_parse(s.b, str.c_str()), &s);
    });
}
SXOP(capi_integer_str)
{
    std::string str = c.S(e, 1);
    return guarded([&]() {
        Handle s;
        return outcome(integer_set_str(s.b, str.c_str()), &s);
    });
}
SXOP(capi_real)
{
    double d = c.D(e, 1);
    return guarded([&]() {
        Handle s;
        return outcome(real_double_set_d(s.b, d), &s);
    });
}
SXOP(capi_str)
{
    RCP<const Basic> a = c.B(e, 1);
    return guarded([&]() {
        Handle ha(a);
        char *p = basic_str(ha.b);
        std::string r = p ? p : "";
        basic_str_free(p);
        return jstr(r);
    });
}
SXOP(capi_eq_hash)
{
    RCP<const Basic> a = c.B(e, 1), b = c.B(e, 2);
    return guarded([&]() {
        Handle ha(a), hb(b);
        return "{\"eq\":" + std::to_string(basic_eq(ha.b, hb.b)) + ",\"neq\":" + std::to_string(basic_neq(ha.b, hb.b)) + ",\"same_hash\":"
               + (basic_hash(ha.b) == basic_hash(hb.b) ? "true" : "false") + ",\"hash_is_cxx\":" + (basic_hash(ha.b) == a->hash() ? "true" : "false") + "}";
    });
}
SXOP(capi_free_symbols)
{
    RCP<const Basic> a = c.B(e, 1);
    return guarded([&]() {
        Handle ha(a);
        CSetBasic *s = setbasic_new();
        CWRAPPER_OUTPUT_TYPE code = basic_free_symbols(ha.b, s);
        std::string o = "{\"code\":" + std::to_string((int)code) + ",\"e\":[";
        size_t n = setbasic_size(s);
        for (size_t i = 0; i < n; i++) {
            Handle h;
            setbasic_get(s, (int)i, h.b);
            o += (i ? "," : "") + val_json(Val::B(h.get()), true);
        }
        setbasic_free(s);
        return o + "]}";
    });
}
SXOP(capi_get_args)
{
    RCP<const Basic> a = c.B(e, 1);
    return guarded([&]() {
        Handle ha(a);
        CVecBasic *v = vecbasic_new();
        CWRAPPER_OUTPUT_TYPE code = basic_get_args(ha.b, v);
        std::string o = "{\"code\":" + std::to_string((int)code) + ",\"e\":[";
        size_t n = vecbasic_size(v);
        for (size_t i = 0; i < n; i++) {
            Handle h;
            vecbasic_get(v, i, h.b);
            o += (i ? "," : "") + val_json(Val::B(h.get()), true);
        }
        vecbasic_free(v);
        return o + "]}";
    });
}
// (capi_vec step...) step = (push x) | (set i x) | (erase i) | (get i) | (size): one CVecBasic through the whole script
SXOP(capi_vec)
{
    return guarded([&]() {
        CVecBasic *v = vecbasic_new();
        std::string o = "[";
        for (size_t i = 1; i < e.n(); i++) {
            const Sx &st = e.l[i];
            const std::string &w = st.l.at(0).a;
            std::string r;
            if (w == "push") { Handle h(c.B(st, 1)); r = std::to_string((int)vecbasic_push_back(v, h.b)); }
            else if (w == "set") { Handle h(c.B(st, 2)); r = std::to_string((int)vecbasic_set(v, (size_t)c.I(st, 1), h.b)); }
            else if (w == "erase") r = std::to_string((int)vecbasic_erase(v, (size_t)c.I(st, 1)));
            else if (w == "get") { Handle h; CWRAPPER_OUTPUT_TYPE code = vecbasic_get(v, (size_t)c.I(st, 1), h.b); r = outcome(code, &h); }
            else if (w == "size") r = std::to_string(vecbasic_size(v));
            else { vecbasic_free(v); throw HarnessError{"capi_vec: unknown step"}; }
            o += (i > 1 ? "," : "") + r;
        }
        vecbasic_free(v);
        return o + "]";
    });
}
// (capi_set step...) step = (insert x) | (erase x) | (find x) | (size) | (dump)
SXOP(capi_set)
{
    return guarded([&]() {
        CSetBasic *s = setbasic_new();
        std::string o = "[";
        for (size_t i = 1; i < e.n(); i++) {
            const Sx &st = e.l[i];
            const std::string &w = st.l.at(0).a;
            std::string r;
            if (w == "insert") { Handle h(c.B(st, 1)); r = std::to_string(setbasic_insert(s, h.b)); }
            else if (w == "erase") { Handle h(c.B(st, 1)); r = std::to_string(setbasic_erase(s, h.b)); }
            else if (w == "find") { Handle h(c.B(st, 1)); r = std::to_string(setbasic_find(s, h.b)); }
            else if (w == "size") r = std::to_string(setbasic_size(s));
            else if (w == "dump") {
                r = "[";
                for (size_t k = 0; k < setbasic_size(s); k++) { Handle h; setbasic_get(s, (int)k, h.b); r += (k ? "," : "") + val_json(Val::B(h.get()), true); }
                r += "]";
            } else { setbasic_free(s); throw HarnessError{"capi_set: unknown step"}; }
            o += (i > 1 ? "," : "") + r;
        }
        setbasic_free(s);
        return o + "]";
    });
}
// (capi_map step...) step = (insert k v) | (get k) | (size)
SXOP(capi_map)
{
    return guarded([&]() {
        CMapBasicBasic *m = mapbasicbasic_new();
        std::string o = "[";
        for (size_t i = 1; i < e.n(); i++) {
            const Sx &st = e.l[i];
            const std::string &w = st.l.at(0).a;
            std::string r;
            if (w == "insert") { Handle k(c.B(st, 1)), v(c.B(st, 2)); mapbasicbasic_insert(m, k.b, v.b); r = "0"; }
            else if (w == "get") { Handle k(c.B(st, 1)), v; int found = mapbasicbasic_get(m, k.b, v.b); r = "{\"found\":" + std::to_string(found) + (found ? ",\"v\":" + val_json(Val::B(v.get()), true) : "") + "}"; }
            else if (w == "size") r = std::to_string(mapbasicbasic_size(m));
            else { mapbasicbasic_free(m); throw HarnessError{"capi_map: unknown step"}; }
            o += (i > 1 ? "," : "") + r;
        }
        mapbasicbasic_free(m);
        return o + "]";
    });
}
// Expression wrapper: (xpr op a [b])
SXOP(xpr)
{
    std::string op = c.S(e, 1);
    Expression a(c.B(e, 2));
    if (op == "neg") return Val::B((-a).get_basic());
    if (op == "expand") return Val::B(expand(a).get_basic());
    Expression b(c.B(e, 3));
    if (op == "+") return Val::B((a + b).get_basic());
    if (op == "-") return Val::B((a - b).get_basic());
    if (op == "*") return Val::B((a * b).get_basic());
    if (op == "/") return Val::B((a / b).get_basic());
    if (op == "pow") return Val::B(pow(a, b).get_basic());
    if (op == "+=") { Expression t = a; t += b; return Val::B(t.get_basic()); }
    if (op == "-=") { Expression t = a; t -= b; return Val::B(t.get_basic()); }
    if (op == "*=") { Expression t = a; t *= b; return Val::B(t.get_basic()); }
    if (op == "/=") { Expression t = a; t /= b; return Val::B(t.get_basic()); }
    if (op == "==") return Val::T(a == b);
    if (op == "!=") return Val::T(a != b);
    throw HarnessError{"xpr: unknown operator"};
}
