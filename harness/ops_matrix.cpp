// Operators: DenseMatrix (C24) and CSRMatrix (C25)
#include "sx.h"
#include <symengine/matrix.h>

using namespace SymEngine;
using namespace sx;

static DenseMatrix DMV(Ctx &c, const Sx &e, size_t i)
{ // by value: the argument may be a temporary
    Val v = c.A(e, i);
    if (v.k != Val::DENSE) throw HarnessError{"argument is not a dense matrix"};
    return *v.dm;
}
static CSRMatrix CSRV(Ctx &c, const Sx &e, size_t i)
{
    Val v = c.A(e, i);
    if (v.k != Val::CSR) throw HarnessError{"argument is not a CSR matrix"};
    return *v.csr;
}
static Val CV(const CSRMatrix &m)
{
    Val r;
    r.k = Val::CSR;
    r.csr = std::make_shared<CSRMatrix>(m);
    return r;
}
static std::string perm_json(const permutelist &pl)
{
    std::string o = "[";
    for (size_t i = 0; i < pl.size(); i++) o += (i ? "," : "") + std::string("[") + std::to_string(pl[i].first) + "," + std::to_string(pl[i].second) + "]";
    return o + "]";
}

// ------------------------------------------------------------------ construction
SXOP(dense)
{ // (dense r c (e11 e12 ...))  entries row-major; missing entries -> error
    unsigned r = (unsigned)c.I(e, 1), k = (unsigned)c.I(e, 2);
    vec_basic ent;
    const Sx &l = e.l.at(3);
    for (size_t i = 0; i < l.n(); i++) ent.push_back(c.B(l, i));
    if (ent.size() != (size_t)r * k) throw HarnessError{"entry count"};
    return Val::M(DenseMatrix(r, k, ent));
}
SXOP(d_eye) { DenseMatrix A((unsigned)c.I(e, 1), (unsigned)c.I(e, 2)); eye(A, e.n() > 3 ? (int)c.I(e, 3) : 0); return Val::M(A); }
SXOP(d_ones) { DenseMatrix A((unsigned)c.I(e, 1), (unsigned)c.I(e, 2)); ones(A); return Val::M(A); }
SXOP(d_zeros) { DenseMatrix A((unsigned)c.I(e, 1), (unsigned)c.I(e, 2)); zeros(A); return Val::M(A); }
SXOP(d_diag)
{ // (d_diag r c k (v...))
    DenseMatrix A((unsigned)c.I(e, 1), (unsigned)c.I(e, 2));
    vec_basic v;
    const Sx &l = e.l.at(4);
    for (size_t i = 0; i < l.n(); i++) v.push_back(c.B(l, i));
    diag(A, v, (int)c.I(e, 3));
    return Val::M(A);
}

// ------------------------------------------------------------------ scalars
SXOP(d_det) { return Val::B(DMV(c, e, 1).det()); }
SXOP(d_det_bareis) { return Val::B(det_bareis(DMV(c, e, 1))); }
SXOP(d_det_berkowitz) { return Val::B(det_berkowitz(DMV(c, e, 1))); }
SXOP(d_trace) { return Val::B(DMV(c, e, 1).trace()); }
SXOP(d_rank) { return Val::I(DMV(c, e, 1).rank()); }
SXOP(d_get) { return Val::B(DMV(c, e, 1).get((unsigned)c.I(e, 2), (unsigned)c.I(e, 3))); }

// ------------------------------------------------------------------ unary -> matrix
#define D_UN(name, body) \
    SXOP(name) \
    { \
        DenseMatrix A = DMV(c, e, 1); \
        DenseMatrix B(A.nrows(), A.ncols()); \
        body; \
        return Val::M(B); \
    }
D_UN(d_inv, A.inv(B))
D_UN(d_inv_fflu, inverse_fraction_free_LU(A, B))
D_UN(d_inv_lu, inverse_LU(A, B))
D_UN(d_inv_plu, inverse_pivoted_LU(A, B))
D_UN(d_inv_gj, inverse_gauss_jordan(A, B))
D_UN(d_fflu, fraction_free_LU(A, B))
D_UN(d_cholesky, cholesky(A, B))
D_UN(d_ffge, fraction_free_gaussian_elimination(A, B))
D_UN(d_ffgj, fraction_free_gauss_jordan_elimination(A, B))
D_UN(d_conjugate, A.conjugate(B))
SXOP(d_transpose) { DenseMatrix A = DMV(c, e, 1); DenseMatrix B(A.ncols(), A.nrows()); A.transpose(B); return Val::M(B); }
SXOP(d_conjugate_transpose) { DenseMatrix A = DMV(c, e, 1); DenseMatrix B(A.ncols(), A.nrows()); A.conjugate_transpose(B); return Val::M(B); }
SXOP(d_char_poly) { DenseMatrix A = DMV(c, e, 1); DenseMatrix B(A.nrows() + 1, 1); char_poly(A, B); return Val::M(B); }
SXOP(d_add_scalar) { DenseMatrix A = DMV(c, e, 1); DenseMatrix B(A.nrows(), A.ncols()); A.add_scalar(c.B(e, 2), B); return Val::M(B); }
SXOP(d_mul_scalar) { DenseMatrix A = DMV(c, e, 1); DenseMatrix B(A.nrows(), A.ncols()); A.mul_scalar(c.B(e, 2), B); return Val::M(B); }
SXOP(d_submatrix)
{ // (d_submatrix A r0 c0 r1 c1 rstep cstep)
    DenseMatrix A = DMV(c, e, 1);
    unsigned r0 = (unsigned)c.I(e, 2), c0 = (unsigned)c.I(e, 3), r1 = (unsigned)c.I(e, 4), c1 = (unsigned)c.I(e, 5);
    unsigned rs = e.n() > 6 ? (unsigned)c.I(e, 6) : 1, cs = e.n() > 7 ? (unsigned)c.I(e, 7) : 1;
    DenseMatrix B((r1 - r0) / rs + 1, (c1 - c0) / cs + 1);
    A.submatrix(B, r0, c0, r1, c1, rs, cs);
    return Val::M(B);
}

// ------------------------------------------------------------------ binary -> matrix
SXOP(d_add) { DenseMatrix A = DMV(c, e, 1), B = DMV(c, e, 2); DenseMatrix C(A.nrows(), A.ncols()); A.add_matrix(B, C); return Val::M(C); }
SXOP(d_mul) { DenseMatrix A = DMV(c, e, 1), B = DMV(c, e, 2); DenseMatrix C(A.nrows(), B.ncols()); A.mul_matrix(B, C); return Val::M(C); }
SXOP(d_elementwise_mul) { DenseMatrix A = DMV(c, e, 1), B = DMV(c, e, 2); DenseMatrix C(A.nrows(), A.ncols()); A.elementwise_mul_matrix(B, C); return Val::M(C); }
SXOP(d_mul_self) { DenseMatrix A = DMV(c, e, 1); A.mul_matrix(A, A); return Val::M(A); }      // self-aliasing call
SXOP(d_add_self) { DenseMatrix A = DMV(c, e, 1); A.add_matrix(A, A); return Val::M(A); }
// result object is one of the operands
SXOP(d_mul_into_right) { DenseMatrix A = DMV(c, e, 1), B = DMV(c, e, 2); A.mul_matrix(B, B); return Val::M(B); }
SXOP(d_mul_into_left) { DenseMatrix A = DMV(c, e, 1), B = DMV(c, e, 2); A.mul_matrix(B, A); return Val::M(A); }
SXOP(d_mul_dense_into_right) { DenseMatrix A = DMV(c, e, 1), B = DMV(c, e, 2); mul_dense_dense(A, B, B); return Val::M(B); }
SXOP(d_add_into_right) { DenseMatrix A = DMV(c, e, 1), B = DMV(c, e, 2); A.add_matrix(B, B); return Val::M(B); }
SXOP(d_add_into_left) { DenseMatrix A = DMV(c, e, 1), B = DMV(c, e, 2); A.add_matrix(B, A); return Val::M(A); }
SXOP(d_elementwise_mul_into_right) { DenseMatrix A = DMV(c, e, 1), B = DMV(c, e, 2); A.elementwise_mul_matrix(B, B); return Val::M(B); }
SXOP(d_elementwise_mul_into_left) { DenseMatrix A = DMV(c, e, 1), B = DMV(c, e, 2); A.elementwise_mul_matrix(B, A); return Val::M(A); }
SXOP(d_mul_scalar_self) { DenseMatrix A = DMV(c, e, 1); A.mul_scalar(c.B(e, 2), A); return Val::M(A); }
SXOP(d_add_scalar_self) { DenseMatrix A = DMV(c, e, 1); A.add_scalar(c.B(e, 2), A); return Val::M(A); }
#define D_SOLVE(name, call) \
    SXOP(name) \
    { \
        DenseMatrix A = DMV(c, e, 1), b = DMV(c, e, 2); \
        DenseMatrix x(A.ncols(), b.ncols()); \
        call; \
        return Val::M(x); \
    }
D_SOLVE(d_solve_fflu, fraction_free_LU_solve(A, b, x))
D_SOLVE(d_solve_ffgj, fraction_free_gauss_jordan_solve(A, b, x, true))
D_SOLVE(d_solve_ffgj_nopivot, fraction_free_gauss_jordan_solve(A, b, x, false))
D_SOLVE(d_solve_lu, LU_solve(A, b, x))
D_SOLVE(d_solve_plu, pivoted_LU_solve(A, b, x))
D_SOLVE(d_solve_ldl, LDL_solve(A, b, x))
D_SOLVE(d_solve_ffge, fraction_free_gaussian_elimination_solve(A, b, x))
D_SOLVE(d_solve_method_lu, A.LU_solve(b, x))

// ------------------------------------------------------------------ factorisations -> lists
SXOP(d_LU)
{
    DenseMatrix A = DMV(c, e, 1);
    DenseMatrix L(A.nrows(), A.ncols()), U(A.nrows(), A.ncols());
    LU(A, L, U);
    return Val::L({Val::M(L), Val::M(U)});
}
SXOP(d_pivoted_LU)
{
    DenseMatrix A = DMV(c, e, 1);
    DenseMatrix L(A.nrows(), A.ncols()), U(A.nrows(), A.ncols());
    permutelist pl;
    pivoted_LU(A, L, U, pl);
    return Val::L({Val::M(L), Val::M(U), Val::J(perm_json(pl))});
}
SXOP(d_FFLDU)
{
    DenseMatrix A = DMV(c, e, 1);
    DenseMatrix L(A.nrows(), A.ncols()), D(A.nrows(), A.ncols()), U(A.nrows(), A.ncols());
    fraction_free_LDU(A, L, D, U);
    return Val::L({Val::M(L), Val::M(D), Val::M(U)});
}
SXOP(d_QR)
{
    DenseMatrix A = DMV(c, e, 1);
    DenseMatrix Q(A.nrows(), A.ncols()), R(A.ncols(), A.ncols());
    QR(A, Q, R);
    return Val::L({Val::M(Q), Val::M(R)});
}
SXOP(d_LDL)
{
    DenseMatrix A = DMV(c, e, 1);
    DenseMatrix L(A.nrows(), A.ncols()), D(A.nrows(), A.ncols());
    LDL(A, L, D);
    return Val::L({Val::M(L), Val::M(D)});
}
SXOP(d_rref)
{ // (d_rref A normalize_last) -> [B, pivots]
    DenseMatrix A = DMV(c, e, 1);
    DenseMatrix B(A.nrows(), A.ncols());
    vec_uint piv;
    reduced_row_echelon_form(A, B, piv, e.n() > 2 ? c.T(e, 2) : false);
    std::string o = "[";
    for (size_t i = 0; i < piv.size(); i++) o += (i ? "," : "") + std::to_string(piv[i]);
    return Val::L({Val::M(B), Val::J(o + "]")});
}
SXOP(d_pivoted_ge)
{
    DenseMatrix A = DMV(c, e, 1);
    DenseMatrix B(A.nrows(), A.ncols());
    permutelist pl;
    pivoted_gaussian_elimination(A, B, pl);
    return Val::L({Val::M(B), Val::J(perm_json(pl))});
}
// ------------------------------------------------------------------ structural edits (in place on a copy)
SXOP(d_row_join) { DenseMatrix A = DMV(c, e, 1); A.row_join(DMV(c, e, 2)); return Val::M(A); }
SXOP(d_col_join) { DenseMatrix A = DMV(c, e, 1); A.col_join(DMV(c, e, 2)); return Val::M(A); }
SXOP(d_row_join_self) { DenseMatrix A = DMV(c, e, 1); A.row_join(A); return Val::M(A); }
SXOP(d_col_join_self) { DenseMatrix A = DMV(c, e, 1); A.col_join(A); return Val::M(A); }
SXOP(d_row_insert) { DenseMatrix A = DMV(c, e, 1); A.row_insert(DMV(c, e, 2), (unsigned)c.I(e, 3)); return Val::M(A); }
SXOP(d_col_insert) { DenseMatrix A = DMV(c, e, 1); A.col_insert(DMV(c, e, 2), (unsigned)c.I(e, 3)); return Val::M(A); }
SXOP(d_row_del) { DenseMatrix A = DMV(c, e, 1); A.row_del((unsigned)c.I(e, 2)); return Val::M(A); }
SXOP(d_col_del) { DenseMatrix A = DMV(c, e, 1); A.col_del((unsigned)c.I(e, 2)); return Val::M(A); }
SXOP(d_row_exchange) { DenseMatrix A = DMV(c, e, 1); row_exchange_dense(A, (unsigned)c.I(e, 2), (unsigned)c.I(e, 3)); return Val::M(A); }
SXOP(d_column_exchange) { DenseMatrix A = DMV(c, e, 1); column_exchange_dense(A, (unsigned)c.I(e, 2), (unsigned)c.I(e, 3)); return Val::M(A); }
static Val tri3(tribool t) { return Val::S(is_true(t) ? "true" : (is_false(t) ? "false" : "indet")); }
SXOP(d_is_symmetric) { return tri3(DMV(c, e, 1).is_symmetric()); }
SXOP(d_is_zero) { return tri3(DMV(c, e, 1).is_zero()); }
SXOP(d_is_diagonal) { return tri3(DMV(c, e, 1).is_diagonal()); }
SXOP(d_is_lower) { return Val::T(DMV(c, e, 1).is_lower()); }
SXOP(d_is_upper) { return Val::T(DMV(c, e, 1).is_upper()); }
SXOP(d_is_positive_definite) { return tri3(DMV(c, e, 1).is_positive_definite()); }
SXOP(d_dumps_loads)
{
    DenseMatrix A = DMV(c, e, 1);
    return Val::M(DenseMatrix::loads(A.dumps()));
}

// ------------------------------------------------------------------ CSR
SXOP(csr_from_coo)
{ // (csr_from_coo r c (i...) (j...) (x...))
    std::vector<unsigned> I, J;
    vec_basic X;
    for (auto &t : e.l.at(3).l) I.push_back((unsigned)strtoul(t.a.c_str(), nullptr, 10));
    for (auto &t : e.l.at(4).l) J.push_back((unsigned)strtoul(t.a.c_str(), nullptr, 10));
    const Sx &l = e.l.at(5);
    for (size_t i = 0; i < l.n(); i++) X.push_back(c.B(l, i));
    return CV(CSRMatrix::from_coo((unsigned)c.I(e, 1), (unsigned)c.I(e, 2), I, J, X));
}
SXOP(csr_empty) { return CV(CSRMatrix((unsigned)c.I(e, 1), (unsigned)c.I(e, 2))); }
SXOP(csr_set)
{ // returns a new matrix with the entry set
    CSRMatrix A = CSRV(c, e, 1);
    A.set((unsigned)c.I(e, 2), (unsigned)c.I(e, 3), c.B(e, 4));
    return CV(A);
}
SXOP(csr_get) { return Val::B(CSRV(c, e, 1).get((unsigned)c.I(e, 2), (unsigned)c.I(e, 3))); }
SXOP(csr_is_canonical) { return Val::T(CSRV(c, e, 1).is_canonical()); }
SXOP(csr_to_dense)
{
    CSRMatrix A = CSRV(c, e, 1);
    DenseMatrix D(A.nrows(), A.ncols());
    for (unsigned i = 0; i < A.nrows(); i++)
        for (unsigned j = 0; j < A.ncols(); j++) D.set(i, j, A.get(i, j));
    return Val::M(D);
}
SXOP(csr_add) { CSRMatrix A = CSRV(c, e, 1), B = CSRV(c, e, 2); CSRMatrix C(A.nrows(), A.ncols()); A.add_matrix(B, C); return CV(C); }
SXOP(csr_binop_add) { CSRMatrix A = CSRV(c, e, 1), B = CSRV(c, e, 2); CSRMatrix C(A.nrows(), A.ncols()); csr_binop_csr_canonical(A, B, C, add); return CV(C); }
SXOP(csr_binop_sub) { CSRMatrix A = CSRV(c, e, 1), B = CSRV(c, e, 2); CSRMatrix C(A.nrows(), A.ncols()); csr_binop_csr_canonical(A, B, C, sub); return CV(C); }
SXOP(csr_binop_mul) { CSRMatrix A = CSRV(c, e, 1), B = CSRV(c, e, 2); CSRMatrix C(A.nrows(), A.ncols()); csr_binop_csr_canonical(A, B, C, mul); return CV(C); }
SXOP(csr_mul) { CSRMatrix A = CSRV(c, e, 1), B = CSRV(c, e, 2); CSRMatrix C(A.nrows(), B.ncols()); A.mul_matrix(B, C); return CV(C); }
SXOP(csr_elementwise_mul) { CSRMatrix A = CSRV(c, e, 1), B = CSRV(c, e, 2); CSRMatrix C(A.nrows(), A.ncols()); A.elementwise_mul_matrix(B, C); return CV(C); }
SXOP(csr_add_scalar) { CSRMatrix A = CSRV(c, e, 1); DenseMatrix C(A.nrows(), A.ncols()); A.add_scalar(c.B(e, 2), C); return Val::M(C); }
SXOP(csr_mul_scalar) { CSRMatrix A = CSRV(c, e, 1); CSRMatrix C(A.nrows(), A.ncols()); A.mul_scalar(c.B(e, 2), C); return CV(C); }
SXOP(csr_transpose) { CSRMatrix A = CSRV(c, e, 1); CSRMatrix C(A.ncols(), A.nrows()); A.transpose(C); return CV(C); }
SXOP(csr_conjugate) { CSRMatrix A = CSRV(c, e, 1); CSRMatrix C(A.nrows(), A.ncols()); A.conjugate(C); return CV(C); }
SXOP(csr_conjugate_transpose) { CSRMatrix A = CSRV(c, e, 1); CSRMatrix C(A.ncols(), A.nrows()); A.conjugate_transpose(C); return CV(C); }
SXOP(csr_submatrix)
{
    CSRMatrix A = CSRV(c, e, 1);
    unsigned r0 = (unsigned)c.I(e, 2), c0 = (unsigned)c.I(e, 3), r1 = (unsigned)c.I(e, 4), c1 = (unsigned)c.I(e, 5);
    CSRMatrix B(r1 - r0 + 1, c1 - c0 + 1);
    A.submatrix(B, r0, c0, r1, c1);
    return CV(B);
}
SXOP(csr_diagonal_)
{
    CSRMatrix A = CSRV(c, e, 1);
    DenseMatrix D(std::min(A.nrows(), A.ncols()), 1);
    csr_diagonal(A, D);
    return Val::M(D);
}
SXOP(csr_scale_rows_) { CSRMatrix A = CSRV(c, e, 1); csr_scale_rows(A, DMV(c, e, 2)); return CV(A); }
SXOP(csr_scale_columns_) { CSRMatrix A = CSRV(c, e, 1); csr_scale_columns(A, DMV(c, e, 2)); return CV(A); }
SXOP(csr_jacobian)
{ // (csr_jacobian (vec exprs) (vec syms))
    vec_basic ex = c.VEC(e, 1), sy = c.VEC(e, 2);
    vec_sym syms;
    for (auto &s : sy) {
        if (not is_a_sub<Symbol>(*s)) throw HarnessError{"symbol expected"};
        syms.push_back(rcp_static_cast<const Symbol>(s));
    }
    return CV(CSRMatrix::jacobian(ex, syms));
}
SXOP(d_jacobian)
{
    vec_basic ex = c.VEC(e, 1), sy = c.VEC(e, 2);
    DenseMatrix A((unsigned)ex.size(), 1, ex), X((unsigned)sy.size(), 1, sy), J((unsigned)ex.size(), (unsigned)sy.size());
    jacobian(A, X, J, true);
    return Val::M(J);
}
SXOP(csr_eq) { return Val::T(CSRV(c, e, 1).eq(CSRV(c, e, 2))); }
