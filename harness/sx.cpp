// sxec core: reader, evaluator, tree dump, main loop.
#include "sx.h"
#include <symengine/logic.h>
#include <symengine/sets.h>
#include <symengine/polys/uintpoly.h>
#include <symengine/polys/uratpoly.h>
#include <symengine/polys/uexprpoly.h>
#include <symengine/polys/msymenginepoly.h>
#include <symengine/fields.h>
#include <symengine/series_generic.h>
#include <symengine/matrix_expressions.h>
#include <symengine/tuple.h>
#include <symengine/number.h>
#ifdef HAVE_SYMENGINE_MPFR
#include <symengine/real_mpfr.h>
#endif
#ifdef HAVE_SYMENGINE_MPC
#include <symengine/complex_mpc.h>
#endif

#include <csignal>
#include <cstdio>
#include <cstring>
#include <cxxabi.h>
#include <fstream>
#include <iostream>
#include <unistd.h>

using namespace SymEngine;

namespace sx
{

const std::string &Sx::head() const
{
    static std::string empty;
    if (atom or l.empty() or not l[0].atom)
        return empty;
    return l[0].a;
}

static void skip_ws(const std::string &t, size_t &p)
{
    while (p < t.size()) {
        char ch = t[p];
        if (ch == ' ' or ch == '\n' or ch == '\t' or ch == '\r')
            p++;
        else if (ch == ';') {
            while (p < t.size() and t[p] != '\n')
                p++;
        } else
            break;
    }
}

static int hexv(char ch)
{
    if (ch >= '0' and ch <= '9') return ch - '0';
    if (ch >= 'a' and ch <= 'f') return ch - 'a' + 10;
    if (ch >= 'A' and ch <= 'F') return ch - 'A' + 10;
    return 0;
}

bool read_sx(const std::string &t, size_t &p, Sx &out)
{
    skip_ws(t, p);
    if (p >= t.size())
        return false;
    out = Sx();
    if (t[p] == '(') {
        p++;
        while (true) {
            skip_ws(t, p);
            if (p >= t.size())
                throw HarnessError{"unterminated list"};
            if (t[p] == ')') {
                p++;
                break;
            }
            Sx child;
            read_sx(t, p, child);
            out.l.push_back(std::move(child));
        }
        return true;
    }
    if (t[p] == ')')
        throw HarnessError{"unexpected )"};
    out.atom = true;
    if (t[p] == '"') {
        out.quoted = true;
        p++;
        while (p < t.size() and t[p] != '"') {
            if (t[p] == '\\' and p + 1 < t.size()) {
                char e = t[p + 1];
                if (e == 'n') { out.a += '\n'; p += 2; }
                else if (e == 't') { out.a += '\t'; p += 2; }
                else if (e == 'x' and p + 3 < t.size()) { out.a += char(hexv(t[p + 2]) * 16 + hexv(t[p + 3])); p += 4; }
                else { out.a += e; p += 2; }
            } else {
                out.a += t[p++];
            }
        }
        p++; // closing quote
        return true;
    }
    while (p < t.size()) {
        char ch = t[p];
        if (ch == ' ' or ch == '\n' or ch == '\t' or ch == '\r' or ch == '(' or ch == ')')
            break;
        out.a += ch;
        p++;
    }
    return true;
}

std::map<std::string, OpFn> &registry()
{
    static std::map<std::string, OpFn> r;
    return r;
}

std::map<std::string, std::function<std::string(const Val &)>> &obj_printers()
{
    static std::map<std::string, std::function<std::string(const Val &)>> r;
    return r;
}

// ------------------------------------------------------------------ JSON helpers
std::string jstr(const std::string &s)
{
    std::string o = "\"";
    char buf[8];
    for (unsigned char ch : s) {
        if (ch == '"') o += "\\\"";
        else if (ch == '\\') o += "\\\\";
        else if (ch == '\n') o += "\\n";
        else if (ch == '\t') o += "\\t";
        else if (ch < 0x20 or ch >= 0x7f) { snprintf(buf, sizeof buf, "\\u%04x", ch); o += buf; }
        else o += char(ch);
    }
    o += "\"";
    return o;
}

std::string hexdouble(double d)
{
    unsigned long long u;
    memcpy(&u, &d, 8);
    char buf[24];
    snprintf(buf, sizeof buf, "%016llx", u);
    return buf;
}

std::string zstr(const integer_class &z)
{
    std::ostringstream ss;
    ss << z;
    return ss.str();
}

static std::string qstr(const rational_class &q)
{
    std::ostringstream ss;
    ss << get_num(q) << "/" << get_den(q);
    return ss.str();
}

static void dump(const Basic &b, std::string &o, int depth);

static void dump_children(const vec_basic &v, std::string &o, int depth)
{
    for (const auto &a : v) {
        o += ",";
        dump(*a, o, depth + 1);
    }
}

static void dump(const Basic &b, std::string &o, int depth)
{
    if (depth > 3000) {
        o += "[\"TOO_DEEP\"]";
        return;
    }
    TypeID t = b.get_type_code();
    o += "[\"";
    o += type_code_name(t);
    o += "\"";
    switch (t) {
        case SYMENGINE_INTEGER:
            o += "," + jstr(zstr(static_cast<const Integer &>(b).as_integer_class()));
            break;
        case SYMENGINE_RATIONAL: {
            const Rational &r = static_cast<const Rational &>(b);
            o += "," + jstr(zstr(get_num(r.as_rational_class()))) + "," + jstr(zstr(get_den(r.as_rational_class())));
            break;
        }
        case SYMENGINE_COMPLEX: {
            const Complex &z = static_cast<const Complex &>(b);
            o += "," + jstr(qstr(z.real_)) + "," + jstr(qstr(z.imaginary_));
            break;
        }
        case SYMENGINE_REAL_DOUBLE:
            o += "," + jstr(hexdouble(static_cast<const RealDouble &>(b).i));
            break;
        case SYMENGINE_COMPLEX_DOUBLE: {
            const ComplexDouble &z = static_cast<const ComplexDouble &>(b);
            o += "," + jstr(hexdouble(z.i.real())) + "," + jstr(hexdouble(z.i.imag()));
            break;
        }
#ifdef HAVE_SYMENGINE_MPFR
        case SYMENGINE_REAL_MPFR: {
            const RealMPFR &r = static_cast<const RealMPFR &>(b);
            mpfr_exp_t ex;
            char *s = mpfr_get_str(nullptr, &ex, 16, 0, r.i.get_mpfr_t(), MPFR_RNDN);
            o += "," + jstr(std::to_string(r.get_prec())) + "," + jstr(std::string(s ? s : "")) + "," + jstr(std::to_string((long)ex));
            if (s) mpfr_free_str(s);
            break;
        }
#endif
#ifdef HAVE_SYMENGINE_MPC
        case SYMENGINE_COMPLEX_MPC: {
            const ComplexMPC &z = static_cast<const ComplexMPC &>(b);
            o += "," + jstr(std::to_string(z.get_prec()));
            o += ",";
            dump(*z.real_part(), o, depth + 1);
            o += ",";
            dump(*z.imaginary_part(), o, depth + 1);
            break;
        }
#endif
        case SYMENGINE_INFTY:
            o += ",";
            dump(*static_cast<const Infty &>(b).get_direction(), o, depth + 1);
            break;
        case SYMENGINE_NOT_A_NUMBER:
            break;
        case SYMENGINE_SYMBOL:
            o += "," + jstr(static_cast<const Symbol &>(b).get_name());
            break;
        case SYMENGINE_DUMMY:
            o += "," + jstr(static_cast<const Dummy &>(b).get_name()) + ","
                 + jstr(std::to_string(static_cast<const Dummy &>(b).get_index()));
            break;
        case SYMENGINE_CONSTANT:
            o += "," + jstr(static_cast<const Constant &>(b).get_name());
            break;
        case SYMENGINE_BOOLEAN_ATOM:
            o += static_cast<const BooleanAtom &>(b).get_val() ? ",\"true\"" : ",\"false\"";
            break;
        case SYMENGINE_ADD: {
            const Add &a = static_cast<const Add &>(b);
            o += ",";
            dump(*a.get_coef(), o, depth + 1);
            for (const auto &p : a.get_dict()) {
                o += ",[\"T\",";
                dump(*p.first, o, depth + 1);
                o += ",";
                dump(*p.second, o, depth + 1);
                o += "]";
            }
            break;
        }
        case SYMENGINE_MUL: {
            const Mul &a = static_cast<const Mul &>(b);
            o += ",";
            dump(*a.get_coef(), o, depth + 1);
            for (const auto &p : a.get_dict()) {
                o += ",[\"T\",";
                dump(*p.first, o, depth + 1);
                o += ",";
                dump(*p.second, o, depth + 1);
                o += "]";
            }
            break;
        }
        case SYMENGINE_FUNCTIONSYMBOL:
            o += "," + jstr(static_cast<const FunctionSymbol &>(b).get_name());
            dump_children(b.get_args(), o, depth);
            break;
        case SYMENGINE_FUNCTIONWRAPPER:
            o += "," + jstr(static_cast<const FunctionSymbol &>(b).get_name());
            dump_children(b.get_args(), o, depth);
            break;
        case SYMENGINE_INTERVAL: {
            const Interval &i = static_cast<const Interval &>(b);
            o += i.get_left_open() ? ",\"lopen\"" : ",\"lclosed\"";
            o += i.get_right_open() ? ",\"ropen\"" : ",\"rclosed\"";
            o += ",";
            dump(*i.get_start(), o, depth + 1);
            o += ",";
            dump(*i.get_end(), o, depth + 1);
            break;
        }
        case SYMENGINE_SUBS: {
            const Subs &s = static_cast<const Subs &>(b);
            o += ",";
            dump(*s.get_arg(), o, depth + 1);
            o += ",[\"Vars\"";
            dump_children(s.get_variables(), o, depth);
            o += "],[\"Point\"";
            dump_children(s.get_point(), o, depth);
            o += "]";
            break;
        }
        case SYMENGINE_UINTPOLY: {
            const UIntPoly &p = static_cast<const UIntPoly &>(b);
            o += ",";
            dump(*p.get_var(), o, depth + 1);
            for (const auto &kv : p.get_poly().get_dict())
                o += ",[\"M\"," + jstr(std::to_string(kv.first)) + "," + jstr(zstr(kv.second)) + "]";
            break;
        }
        case SYMENGINE_URATPOLY: {
            const URatPoly &p = static_cast<const URatPoly &>(b);
            o += ",";
            dump(*p.get_var(), o, depth + 1);
            for (const auto &kv : p.get_poly().get_dict())
                o += ",[\"M\"," + jstr(std::to_string(kv.first)) + "," + jstr(qstr(kv.second)) + "]";
            break;
        }
        case SYMENGINE_UEXPRPOLY: {
            const UExprPoly &p = static_cast<const UExprPoly &>(b);
            o += ",";
            dump(*p.get_var(), o, depth + 1);
            for (const auto &kv : p.get_poly().get_dict()) {
                o += ",[\"M\"," + jstr(std::to_string(kv.first)) + ",";
                dump(*kv.second.get_basic(), o, depth + 1);
                o += "]";
            }
            break;
        }
        case SYMENGINE_MINTPOLY: {
            const MIntPoly &p = static_cast<const MIntPoly &>(b);
            o += ",[\"Vars\"";
            for (const auto &s : p.get_vars()) {
                o += ",";
                dump(*s, o, depth + 1);
            }
            o += "]";
            for (const auto &kv : p.get_poly().dict_) {
                o += ",[\"M\"";
                for (auto ex : kv.first)
                    o += "," + jstr(std::to_string(ex));
                o += "," + jstr(zstr(kv.second)) + "]";
            }
            break;
        }
        case SYMENGINE_MEXPRPOLY: {
            const MExprPoly &p = static_cast<const MExprPoly &>(b);
            o += ",[\"Vars\"";
            for (const auto &s : p.get_vars()) {
                o += ",";
                dump(*s, o, depth + 1);
            }
            o += "]";
            for (const auto &kv : p.get_poly().dict_) {
                o += ",[\"M\"";
                for (auto ex : kv.first)
                    o += "," + jstr(std::to_string(ex));
                o += ",";
                dump(*kv.second.get_basic(), o, depth + 1);
                o += "]";
            }
            break;
        }
        case SYMENGINE_GALOISFIELD: {
            const GaloisField &p = static_cast<const GaloisField &>(b);
            o += ",";
            dump(*p.get_var(), o, depth + 1);
            o += "," + jstr(zstr(p.get_poly().modulo_));
            for (const auto &cf : p.get_poly().dict_)
                o += "," + jstr(zstr(cf));
            break;
        }
        case SYMENGINE_UNIVARIATESERIES: {
            const UnivariateSeries &p = static_cast<const UnivariateSeries &>(b);
            o += "," + jstr(p.get_var()) + "," + jstr(std::to_string(p.get_degree()));
            for (const auto &kv : p.get_poly().get_dict()) {
                o += ",[\"M\"," + jstr(std::to_string(kv.first)) + ",";
                dump(*kv.second.get_basic(), o, depth + 1);
                o += "]";
            }
            break;
        }
        case SYMENGINE_MATRIXSYMBOL:
            o += "," + jstr(static_cast<const MatrixSymbol &>(b).get_name());
            break;
        case SYMENGINE_IMMUTABLEDENSEMATRIX: {
            const ImmutableDenseMatrix &m = static_cast<const ImmutableDenseMatrix &>(b);
            o += "," + jstr(std::to_string(m.nrows())) + "," + jstr(std::to_string(m.ncols()));
            dump_children(m.get_values(), o, depth);
            break;
        }
        case SYMENGINE_NUMBER_WRAPPER:
            o += "," + jstr(b.__str__());
            break;
        default:
            dump_children(b.get_args(), o, depth);
    }
    o += "]";
}

std::string dump_tree(const Basic &b)
{
    std::string o;
    dump(b, o, 0);
    return o;
}

std::string dense_json(const DenseMatrix &m)
{
    std::string o = "{\"k\":\"dense\",\"r\":" + std::to_string(m.nrows()) + ",\"c\":" + std::to_string(m.ncols()) + ",\"e\":[";
    for (unsigned i = 0; i < m.nrows(); i++)
        for (unsigned j = 0; j < m.ncols(); j++) {
            if (i + j > 0) o += ",";
            RCP<const Basic> x = m.get(i, j);
            if (x.is_null()) o += "null";
            else o += dump_tree(*x);
        }
    o += "]}";
    return o;
}

static std::string basic_json(const RCP<const Basic> &b, bool full)
{
    if (b.is_null())
        return "{\"k\":\"null\"}";
    std::string o = "{\"k\":\"b\",\"t\":" + dump_tree(*b);
    if (full) {
        char buf[32];
        snprintf(buf, sizeof buf, "%016llx", (unsigned long long)b->hash());
        o += ",\"h\":\"" + std::string(buf) + "\"";
        o += ",\"s\":" + jstr(b->__str__());
    }
    o += "}";
    return o;
}

std::string val_json(const Val &v, bool full)
{
    switch (v.k) {
        case Val::NONE: return "null";
        case Val::BASIC: return basic_json(v.b, full);
        case Val::VEC: {
            std::string o = "{\"k\":\"v\",\"e\":[";
            for (size_t i = 0; i < v.v.size(); i++) {
                if (i) o += ",";
                o += basic_json(v.v[i], full);
            }
            return o + "]}";
        }
        case Val::BOOL: return v.t ? "true" : "false";
        case Val::INT: return std::to_string(v.i);
        case Val::DBL: return "{\"k\":\"d\",\"x\":\"" + hexdouble(v.d) + "\"}";
        case Val::STR: return jstr(v.s);
        case Val::RAWJSON: return v.s;
        case Val::DENSE: return dense_json(*v.dm);
        case Val::CSR: {
            std::string o = "{\"k\":\"csr\",\"r\":" + std::to_string(v.csr->nrows()) + ",\"c\":" + std::to_string(v.csr->ncols());
            auto t = v.csr->as_vectors();
            o += ",\"p\":[";
            for (size_t i = 0; i < std::get<0>(t).size(); i++) o += (i ? "," : "") + std::to_string(std::get<0>(t)[i]);
            o += "],\"j\":[";
            for (size_t i = 0; i < std::get<1>(t).size(); i++) o += (i ? "," : "") + std::to_string(std::get<1>(t)[i]);
            o += "],\"x\":[";
            for (size_t i = 0; i < std::get<2>(t).size(); i++) o += (i ? "," : "") + dump_tree(*std::get<2>(t)[i]);
            o += "]}";
            return o;
        }
        case Val::OBJ: {
            auto it = obj_printers().find(v.s);
            if (it != obj_printers().end()) return it->second(v);
            return "{\"k\":\"obj\",\"type\":" + jstr(v.s) + "}";
        }
        case Val::LIST: {
            std::string o = "[";
            for (size_t i = 0; i < v.list.size(); i++) {
                if (i) o += ",";
                o += val_json(v.list[i], full);
            }
            return o + "]";
        }
    }
    return "null";
}

// ------------------------------------------------------------------ evaluator
static RCP<const Basic> leaf_const(const std::string &n)
{
    if (n == "pi") return pi;
    if (n == "E") return E;
    if (n == "EulerGamma") return EulerGamma;
    if (n == "Catalan") return Catalan;
    if (n == "GoldenRatio") return GoldenRatio;
    if (n == "I") return I;
    if (n == "oo") return Inf;
    if (n == "-oo") return NegInf;
    if (n == "zoo") return ComplexInf;
    if (n == "nan") return Nan;
    if (n == "true") return boolTrue;
    if (n == "false") return boolFalse;
    if (n == "zero") return zero;
    if (n == "one") return one;
    if (n == "minus_one") return minus_one;
    throw HarnessError{"unknown constant " + n};
}

double parse_double(const std::string &s)
{
    if (s.size() == 18 and s[0] == 'h' and s[1] == ':') {
        unsigned long long u = strtoull(s.c_str() + 2, nullptr, 16);
        double d;
        memcpy(&d, &u, 8);
        return d;
    }
    return strtod(s.c_str(), nullptr);
}

Val Ctx::eval(const Sx &e)
{
    if (e.atom) {
        if (not e.quoted and not e.a.empty() and e.a[0] == '$') {
            auto it = regs.find(e.a.substr(1));
            if (it == regs.end())
                throw HarnessError{"unbound register " + e.a};
            return it->second;
        }
        if (e.quoted)
            return Val::S(e.a);
        // bare atom: integer literal if it looks like one, else string
        const std::string &a = e.a;
        size_t st = (a[0] == '-' or a[0] == '+') ? 1 : 0;
        bool digits = a.size() > st;
        for (size_t i = st; i < a.size(); i++)
            if (a[i] < '0' or a[i] > '9') digits = false;
        if (digits and a.size() < 18)
            return Val::I(strtol(a.c_str(), nullptr, 10));
        if (a == "true") return Val::T(true);
        if (a == "false") return Val::T(false);
        return Val::S(a);
    }
    if (e.l.empty())
        return Val();
    const std::string &h = e.head();
    auto it = registry().find(h);
    if (it == registry().end())
        throw HarnessError{"unknown operator " + h};
    return it->second(*this, e);
}

Val Ctx::A(const Sx &e, size_t i)
{
    if (i >= e.l.size())
        throw HarnessError{"missing argument " + std::to_string(i) + " of " + e.head()};
    return eval(e.l[i]);
}
RCP<const Basic> Ctx::B(const Sx &e, size_t i)
{
    Val v = A(e, i);
    if (v.k == Val::BASIC) return v.b;
    if (v.k == Val::INT) return integer(v.i);
    throw HarnessError{"argument " + std::to_string(i) + " of " + e.head() + " is not an expression"};
}
RCP<const Number> Ctx::N(const Sx &e, size_t i)
{
    RCP<const Basic> b = B(e, i);
    if (not is_a_Number(*b)) throw HarnessError{"argument is not a Number"};
    return rcp_static_cast<const Number>(b);
}
RCP<const Symbol> Ctx::SYM(const Sx &e, size_t i)
{
    RCP<const Basic> b = B(e, i);
    if (not is_a_sub<Symbol>(*b)) throw HarnessError{"argument is not a Symbol"};
    return rcp_static_cast<const Symbol>(b);
}
RCP<const Boolean> Ctx::BOOLE(const Sx &e, size_t i)
{
    RCP<const Basic> b = B(e, i);
    if (not is_a_Boolean(*b)) throw HarnessError{"argument is not a Boolean"};
    return rcp_static_cast<const Boolean>(b);
}
RCP<const Set> Ctx::SET(const Sx &e, size_t i)
{
    RCP<const Basic> b = B(e, i);
    if (not is_a_Set(*b)) throw HarnessError{"argument is not a Set"};
    return rcp_static_cast<const Set>(b);
}
vec_basic Ctx::VEC(const Sx &e, size_t i)
{
    Val v = A(e, i);
    if (v.k == Val::VEC) return v.v;
    if (v.k == Val::BASIC) return {v.b};
    if (v.k == Val::LIST) {
        vec_basic r;
        for (auto &x : v.list) {
            if (x.k == Val::BASIC) r.push_back(x.b);
            else if (x.k == Val::INT) r.push_back(integer(x.i));
            else throw HarnessError{"list element is not an expression"};
        }
        return r;
    }
    if (v.k == Val::NONE) return {};
    throw HarnessError{"argument is not a vector"};
}
vec_basic Ctx::REST(const Sx &e, size_t from)
{
    vec_basic r;
    for (size_t i = from; i < e.l.size(); i++)
        r.push_back(B(e, i));
    return r;
}
long Ctx::I(const Sx &e, size_t i)
{
    Val v = A(e, i);
    if (v.k == Val::INT) return v.i;
    if (v.k == Val::BOOL) return v.t;
    if (v.k == Val::STR) return strtol(v.s.c_str(), nullptr, 10);
    throw HarnessError{"argument " + std::to_string(i) + " of " + e.head() + " is not an int"};
}
extern double parse_double(const std::string &s);
double Ctx::D(const Sx &e, size_t i)
{
    Val v = A(e, i);
    if (v.k == Val::DBL) return v.d;
    if (v.k == Val::INT) return (double)v.i;
    if (v.k == Val::STR) return parse_double(v.s);
    throw HarnessError{"argument is not a double"};
}
bool Ctx::T(const Sx &e, size_t i)
{
    Val v = A(e, i);
    if (v.k == Val::BOOL) return v.t;
    if (v.k == Val::INT) return v.i != 0;
    throw HarnessError{"argument is not a bool"};
}
std::string Ctx::S(const Sx &e, size_t i)
{
    if (i >= e.l.size()) throw HarnessError{"missing string argument of " + e.head()};
    if (e.l[i].atom and not(e.l[i].a.size() and e.l[i].a[0] == '$' and not e.l[i].quoted))
        return e.l[i].a;
    Val v = A(e, i);
    if (v.k == Val::STR) return v.s;
    if (v.k == Val::INT) return std::to_string(v.i);
    throw HarnessError{"argument is not a string"};
}
DenseMatrix &Ctx::DM(const Sx &e, size_t i)
{
    Val v = A(e, i);
    if (v.k != Val::DENSE) throw HarnessError{"argument is not a dense matrix"};
    return *v.dm; // shared_ptr keeps it alive only while a register holds it
}
integer_class Ctx::Z(const Sx &e, size_t i)
{
    if (i < e.l.size() and e.l[i].atom and not(e.l[i].a[0] == '$' and not e.l[i].quoted))
        return integer_class(e.l[i].a);
    Val v = A(e, i);
    if (v.k == Val::INT) return integer_class(v.i);
    if (v.k == Val::BASIC and is_a<Integer>(*v.b)) return static_cast<const Integer &>(*v.b).as_integer_class();
    throw HarnessError{"argument is not an integer"};
}

// leaves -------------------------------------------------------------
SXOPN(int_, "int") { return Val::B(integer(c.Z(e, 1))); }
SXOP(rat)
{
    integer_class n = c.Z(e, 1), d = c.Z(e, 2);
    return Val::B(Rational::from_two_ints(*integer(n), *integer(d)));
}
SXOP(cpx) { return Val::B(Complex::from_two_nums(*c.N(e, 1), *c.N(e, 2))); }
SXOP(real) { return Val::B(real_double(parse_double(c.S(e, 1)))); }
SXOP(cdbl) { return Val::B(complex_double(std::complex<double>(parse_double(c.S(e, 1)), parse_double(c.S(e, 2))))); }
SXOP(sym) { return Val::B(symbol(c.S(e, 1))); }
SXOP(dummy)
{
    if (e.n() > 1) return Val::B(dummy(c.S(e, 1)));
    return Val::B(dummy());
}
SXOPN(const_, "const") { return Val::B(leaf_const(c.S(e, 1))); }
SXOP(vec) { return Val::V(c.REST(e, 1)); }
SXOP(list)
{
    std::vector<Val> r;
    for (size_t i = 1; i < e.n(); i++) r.push_back(c.A(e, i));
    return Val::L(r);
}
SXOP(str_) { return Val::S(c.S(e, 1)); }
SXOP(dbl) { return Val::D(parse_double(c.S(e, 1))); }
SXOP(nth)
{
    Val v = c.A(e, 1);
    long i = c.I(e, 2);
    if (v.k == Val::VEC) { if (i < 0 or (size_t)i >= v.v.size()) throw HarnessError{"nth out of range"}; return Val::B(v.v[i]); }
    if (v.k == Val::LIST) { if (i < 0 or (size_t)i >= v.list.size()) throw HarnessError{"nth out of range"}; return v.list[i]; }
    throw HarnessError{"nth: not a vector"};
}

} // namespace sx

// ------------------------------------------------------------------ main loop
using namespace sx;

static long g_case_timeout = 20;
static std::string g_cur = "-";

static void on_alarm(int)
{
    std::string m = "\n{\"c\":" + jstr(g_cur) + ",\"st\":\"timeout\"}\n";
    ssize_t r = write(1, m.c_str(), m.size());
    (void)r;
    _exit(97);
}

static std::string demangle(const char *n)
{
    int st = 0;
    char *d = abi::__cxa_demangle(n, nullptr, nullptr, &st);
    std::string r = (st == 0 and d) ? d : n;
    free(d);
    return r;
}

static unsigned long g_assert_seen = 0;
static std::string drain_asserts()
{
#if defined(SYMENGINE_VERIF) && defined(WITH_SYMENGINE_ASSERT)
    auto &log = SymEngine::verif::assert_log();
    std::lock_guard<std::mutex> lk(log.m);
    std::string o;
    for (auto &ev : log.events) {
        if (ev.seq <= g_assert_seen) continue;
        g_assert_seen = ev.seq;
        if (not o.empty()) o += ",";
        std::string f = ev.file;
        size_t p = f.rfind("/symengine/");
        if (p != std::string::npos) f = f.substr(p + 1);
        o += "{\"file\":" + jstr(f) + ",\"line\":" + std::to_string(ev.line) + ",\"func\":" + jstr(ev.func) + ",\"cond\":" + jstr(ev.cond) + "}";
    }
    return o;
#else
    return "";
#endif
}

static void live_counts(unsigned long &cr, unsigned long &de)
{
#if defined(SYMENGINE_VERIF)
    cr = SymEngine::verif::basic_created().load();
    de = SymEngine::verif::basic_destroyed().load();
#else
    cr = de = 0;
#endif
}

static void run_stmt(Ctx &ctx, const std::string &cid, size_t idx, const Sx &st, FILE *out)
{
    std::string pre = "{\"c\":" + jstr(cid) + ",\"i\":" + std::to_string(idx);
    std::string line;
    const std::string &h = st.head();
    bool is_let = (h == "let"), is_emit = (h == "emit"), is_do = (h == "do"), is_drop = (h == "drop");
    try {
        if (is_drop) {
            for (size_t i = 1; i < st.n(); i++) ctx.regs.erase(st.l[i].a);
            line = pre + ",\"st\":\"ok\"}";
        } else if (is_let) {
            if (st.n() != 3) throw HarnessError{"let needs name and expr"};
            Val v = ctx.eval(st.l[2]);
            ctx.regs[st.l[1].a] = v;
            line = pre + ",\"st\":\"ok\"}";
        } else if (is_emit or is_do) {
            Val v = ctx.eval(st.l.at(1));
            if (is_emit) line = pre + ",\"st\":\"ok\",\"v\":" + val_json(v, true) + "}";
            else line = pre + ",\"st\":\"ok\"}";
        } else {
            Val v = ctx.eval(st);
            line = pre + ",\"st\":\"ok\",\"v\":" + val_json(v, true) + "}";
        }
    } catch (HarnessError &he) {
        line = pre + ",\"st\":\"harness\",\"msg\":" + jstr(he.msg) + "}";
        if (is_let and st.n() >= 2) ctx.regs.erase(st.l[1].a);
#if defined(SYMENGINE_VERIF)
    } catch (SymEngine::verif::AssertionFailure &af) {
        line = pre + ",\"st\":\"assert\"}";
        if (is_let and st.n() >= 2) ctx.regs.erase(st.l[1].a);
#endif
    } catch (SymEngineException &ex) {
        line = pre + ",\"st\":\"exc\",\"ty\":" + jstr(demangle(typeid(ex).name())) + ",\"lib\":true,\"msg\":" + jstr(ex.what()) + "}";
        if (is_let and st.n() >= 2) ctx.regs.erase(st.l[1].a);
    } catch (std::exception &ex) {
        line = pre + ",\"st\":\"exc\",\"ty\":" + jstr(demangle(typeid(ex).name())) + ",\"lib\":false,\"msg\":" + jstr(ex.what()) + "}";
        if (is_let and st.n() >= 2) ctx.regs.erase(st.l[1].a);
    } catch (...) {
        line = pre + ",\"st\":\"exc\",\"ty\":\"unknown\",\"lib\":false,\"msg\":\"\"}";
        if (is_let and st.n() >= 2) ctx.regs.erase(st.l[1].a);
    }
    std::string as = drain_asserts();
    if (not as.empty()) {
        line.pop_back();
        line += ",\"asserts\":[" + as + "]}";
    }
    fputs(line.c_str(), out);
    fputc('\n', out);
    fflush(out);
}

int main(int argc, char **argv)
{
    std::string path;
    long skip_to = -1; // resume: skip cases before this ordinal
    for (int i = 1; i < argc; i++) {
        std::string a = argv[i];
        if (a == "--timeout" and i + 1 < argc) g_case_timeout = atol(argv[++i]);
        else if (a == "--from" and i + 1 < argc) skip_to = atol(argv[++i]);
        else if (a == "--ops") { for (auto &kv : registry()) printf("%s\n", kv.first.c_str()); return 0; }
        else path = a;
    }
    std::string text;
    if (path.empty() or path == "-") {
        std::stringstream ss;
        ss << std::cin.rdbuf();
        text = ss.str();
    } else {
        std::ifstream f(path, std::ios::binary);
        if (not f) { fprintf(stderr, "sxec: cannot open %s\n", path.c_str()); return 2; }
        std::stringstream ss;
        ss << f.rdbuf();
        text = ss.str();
    }
    signal(SIGALRM, on_alarm);
    FILE *out = stdout;
    size_t pos = 0;
    long ordinal = -1;
    Sx top;
    try {
        while (read_sx(text, pos, top)) {
            if (top.head() != "case") { fprintf(stderr, "sxec: top-level form must be (case id ...)\n"); return 2; }
            ordinal++;
            if (ordinal < skip_to) continue;
            std::string cid = top.l.at(1).a;
            g_cur = cid;
            unsigned long c0, d0, c1, d1;
            fprintf(out, "{\"c\":%s,\"begin\":%ld}\n", jstr(cid).c_str(), ordinal);
            fflush(out);
            // a case id ending in "~2" is run twice; outputs and the live-object balance are those of the second pass
            // (objects created once per process - lazily built singletons and caches - are then already there)
            if (cid.size() > 2 and cid.compare(cid.size() - 2, 2, "~2") == 0) {
                static FILE *devnull = fopen("/dev/null", "w");
                Ctx warm;
                alarm(g_case_timeout);
                for (size_t i = 2; i < top.n(); i++)
                    run_stmt(warm, cid, i - 2, top.l[i], devnull);
                alarm(0);
            }
            {
                Ctx ctx;
                live_counts(c0, d0);
                alarm(g_case_timeout);
                for (size_t i = 2; i < top.n(); i++)
                    run_stmt(ctx, cid, i - 2, top.l[i], out);
                alarm(0);
            }
            live_counts(c1, d1);
            fprintf(out, "{\"c\":%s,\"end\":%ld,\"live\":%ld}\n", jstr(cid).c_str(), ordinal, (long)(c1 - c0) - (long)(d1 - d0));
            fflush(out);
        }
    } catch (HarnessError &he) {
        fprintf(stderr, "sxec: program syntax error: %s\n", he.msg.c_str());
        return 2;
    }
    fprintf(out, "{\"done\":%ld}\n", ordinal + 1);
    fflush(out);
    return 0;
}
