// sxec: S-expression executor over the real SymEngine API.  Core declarations.
#ifndef VERIF_SX_H
#define VERIF_SX_H

#include <symengine/basic.h>
#include <symengine/add.h>
#include <symengine/mul.h>
#include <symengine/pow.h>
#include <symengine/integer.h>
#include <symengine/rational.h>
#include <symengine/complex.h>
#include <symengine/complex_double.h>
#include <symengine/real_double.h>
#include <symengine/symbol.h>
#include <symengine/constants.h>
#include <symengine/functions.h>
#include <symengine/infinity.h>
#include <symengine/nan.h>
#include <symengine/matrix.h>
#include <symengine/visitor.h>
#include <symengine/symengine_exception.h>

#include <functional>
#include <map>
#include <memory>
#include <sstream>
#include <string>
#include <vector>

namespace sx
{
using SymEngine::Basic;
using SymEngine::RCP;
using SymEngine::vec_basic;

// ---------------------------------------------------------------- S-expressions
struct Sx {
    bool atom = false;
    bool quoted = false;
    std::string a;        // atom text
    std::vector<Sx> l;    // list
    const std::string &head() const;
    size_t n() const { return l.size(); }
};
bool read_sx(const std::string &text, size_t &pos, Sx &out); // false at EOF

// ---------------------------------------------------------------- values
struct Val {
    enum K { NONE, BASIC, VEC, BOOL, INT, DBL, STR, DENSE, CSR, OBJ, LIST, RAWJSON } k = NONE;
    RCP<const Basic> b;
    vec_basic v;
    bool t = false;
    long i = 0;
    double d = 0;
    std::string s; // STR payload, RAWJSON payload, or OBJ type tag
    std::shared_ptr<SymEngine::DenseMatrix> dm;
    std::shared_ptr<SymEngine::CSRMatrix> csr;
    std::shared_ptr<void> obj;
    std::vector<Val> list;

    Val() {}
    static Val B(const RCP<const Basic> &x) { Val r; r.k = BASIC; r.b = x; return r; }
    static Val V(const vec_basic &x) { Val r; r.k = VEC; r.v = x; return r; }
    static Val T(bool x) { Val r; r.k = BOOL; r.t = x; return r; }
    static Val I(long x) { Val r; r.k = INT; r.i = x; return r; }
    static Val D(double x) { Val r; r.k = DBL; r.d = x; return r; }
    static Val S(const std::string &x) { Val r; r.k = STR; r.s = x; return r; }
    static Val J(const std::string &x) { Val r; r.k = RAWJSON; r.s = x; return r; }
    static Val L(const std::vector<Val> &x) { Val r; r.k = LIST; r.list = x; return r; }
    static Val M(const SymEngine::DenseMatrix &m) { Val r; r.k = DENSE; r.dm = std::make_shared<SymEngine::DenseMatrix>(m); return r; }
    template <class T> static Val O(const std::string &tag, std::shared_ptr<T> p) { Val r; r.k = OBJ; r.s = tag; r.obj = std::static_pointer_cast<void>(p); return r; }
    template <class T> T *as(const std::string &tag) const;
};

struct HarnessError {
    std::string msg;
};

template <class T> T *Val::as(const std::string &tag) const
{
    if (k != OBJ or s != tag)
        throw HarnessError{"expected object of type " + tag};
    return static_cast<T *>(obj.get());
}

// ---------------------------------------------------------------- context + registry
struct Ctx {
    std::map<std::string, Val> regs;
    Val eval(const Sx &e);
    // typed argument helpers (evaluate argument i of list e, i>=1)
    RCP<const Basic> B(const Sx &e, size_t i);
    RCP<const SymEngine::Number> N(const Sx &e, size_t i);
    RCP<const SymEngine::Symbol> SYM(const Sx &e, size_t i);
    RCP<const SymEngine::Boolean> BOOLE(const Sx &e, size_t i);
    RCP<const SymEngine::Set> SET(const Sx &e, size_t i);
    vec_basic VEC(const Sx &e, size_t i);        // vector value, or list of basics
    vec_basic REST(const Sx &e, size_t from);    // all remaining args as basics
    long I(const Sx &e, size_t i);
    double D(const Sx &e, size_t i);
    bool T(const Sx &e, size_t i);
    std::string S(const Sx &e, size_t i);
    Val A(const Sx &e, size_t i);
    SymEngine::DenseMatrix &DM(const Sx &e, size_t i);
    SymEngine::integer_class Z(const Sx &e, size_t i);
};

typedef std::function<Val(Ctx &, const Sx &)> OpFn;
std::map<std::string, OpFn> &registry();
// JSON printers for OBJ values, keyed by type tag
std::map<std::string, std::function<std::string(const Val &)>> &obj_printers();
struct RegPrinter {
    RegPrinter(const char *tag, std::function<std::string(const Val &)> f) { obj_printers()[tag] = f; }
};
struct Reg {
    Reg(const char *name, OpFn f) { registry()[name] = f; }
};
#define SXOP(name) \
    static sx::Val sxop_##name(sx::Ctx &c, const sx::Sx &e); \
    static sx::Reg sxreg_##name(#name, sxop_##name); \
    static sx::Val sxop_##name(sx::Ctx &c, const sx::Sx &e)
#define SXOPN(ident, name) \
    static sx::Val sxop_##ident(sx::Ctx &c, const sx::Sx &e); \
    static sx::Reg sxreg_##ident(name, sxop_##ident); \
    static sx::Val sxop_##ident(sx::Ctx &c, const sx::Sx &e)

// ---------------------------------------------------------------- JSON / dumps
std::string jstr(const std::string &s);        // JSON string literal (bytes >=0x80 escaped as \u00XX)
std::string dump_tree(const Basic &b);         // structural dump, public accessors only
std::string val_json(const Val &v, bool full); // JSON for a value
std::string hexdouble(double d);
std::string zstr(const SymEngine::integer_class &z);
std::string dense_json(const SymEngine::DenseMatrix &m);

} // namespace sx
#endif
