// Operators: number theory (C32), prime sieve (C33), finite differences (C38), diophantine (C46), GF(p) polynomials (C23)
#include "sx.h"
#include <symengine/ntheory.h>
#include <symengine/ntheory_funcs.h>
#include <symengine/prime_sieve.h>
#include <symengine/finitediff.h>
#include <symengine/diophantine.h>
#include <symengine/fields.h>
#include <symengine/polys/basic_conversions.h>

using namespace SymEngine;
using namespace sx;

static std::string zj(const integer_class &z) { return "\"" + zstr(z) + "\""; }
static std::string ij(const RCP<const Integer> &z) { return z.is_null() ? std::string("null") : zj(z->as_integer_class()); }
static RCP<const Integer> ZI(Ctx &c, const Sx &e, size_t i) { return integer(c.Z(e, i)); }
static unsigned long UL(Ctx &c, const Sx &e, size_t i)
{
    integer_class z = c.Z(e, i);
    if (z < 0) throw HarnessError{"negative value for unsigned argument"};
    return mp_get_ui(z);
}
static std::string veci(const std::vector<RCP<const Integer>> &v)
{
    std::string o = "[";
    for (size_t i = 0; i < v.size(); i++) o += (i ? "," : "") + ij(v[i]);
    return o + "]";
}

// ------------------------------------------------------------------ C32 number theory
SXOP(nt_probab_prime_p) { return Val::I(probab_prime_p(*ZI(c, e, 1))); }
SXOP(nt_nextprime) { return Val::J(ij(nextprime(*ZI(c, e, 1)))); }
SXOP(nt_gcd) { return Val::J(ij(gcd(*ZI(c, e, 1), *ZI(c, e, 2)))); }
SXOP(nt_lcm) { return Val::J(ij(lcm(*ZI(c, e, 1), *ZI(c, e, 2)))); }
SXOP(nt_gcd_ext)
{
    RCP<const Integer> g, s, t;
    gcd_ext(outArg(g), outArg(s), outArg(t), *ZI(c, e, 1), *ZI(c, e, 2));
    return Val::J("[" + ij(g) + "," + ij(s) + "," + ij(t) + "]");
}
SXOP(nt_mod) { return Val::J(ij(mod(*ZI(c, e, 1), *ZI(c, e, 2)))); }
SXOP(nt_quotient) { return Val::J(ij(quotient(*ZI(c, e, 1), *ZI(c, e, 2)))); }
SXOP(nt_quotient_mod)
{
    RCP<const Integer> q, r;
    quotient_mod(outArg(q), outArg(r), *ZI(c, e, 1), *ZI(c, e, 2));
    return Val::J("[" + ij(q) + "," + ij(r) + "]");
}
SXOP(nt_mod_f) { return Val::J(ij(mod_f(*ZI(c, e, 1), *ZI(c, e, 2)))); }
SXOP(nt_quotient_f) { return Val::J(ij(quotient_f(*ZI(c, e, 1), *ZI(c, e, 2)))); }
SXOP(nt_quotient_mod_f)
{
    RCP<const Integer> q, r;
    quotient_mod_f(outArg(q), outArg(r), *ZI(c, e, 1), *ZI(c, e, 2));
    return Val::J("[" + ij(q) + "," + ij(r) + "]");
}
SXOP(nt_mod_inverse)
{
    RCP<const Integer> b;
    int r = mod_inverse(outArg(b), *ZI(c, e, 1), *ZI(c, e, 2));
    return Val::J("[" + std::to_string(r) + "," + ij(b) + "]");
}
SXOP(nt_crt)
{ // (nt_crt (rems...) (mods...))
    std::vector<RCP<const Integer>> rem, mo;
    for (size_t i = 1; i < e.l[1].n() + 0; i++) (void)i;
    for (auto &x : e.l.at(1).l) rem.push_back(integer(integer_class(x.a)));
    for (auto &x : e.l.at(2).l) mo.push_back(integer(integer_class(x.a)));
    RCP<const Integer> R;
    bool ok = crt(outArg(R), rem, mo);
    return Val::J(std::string("[") + (ok ? "true" : "false") + "," + ij(R) + "]");
}
SXOP(nt_fibonacci) { return Val::J(ij(fibonacci(UL(c, e, 1)))); }
SXOP(nt_fibonacci2)
{
    RCP<const Integer> g, s;
    fibonacci2(outArg(g), outArg(s), UL(c, e, 1));
    return Val::J("[" + ij(g) + "," + ij(s) + "]");
}
SXOP(nt_lucas) { return Val::J(ij(lucas(UL(c, e, 1)))); }
SXOP(nt_lucas2)
{
    RCP<const Integer> g, s;
    lucas2(outArg(g), outArg(s), UL(c, e, 1));
    return Val::J("[" + ij(g) + "," + ij(s) + "]");
}
SXOP(nt_binomial) { return Val::J(ij(binomial(*ZI(c, e, 1), UL(c, e, 2)))); }
SXOP(nt_factorial) { return Val::J(ij(factorial(UL(c, e, 1)))); }
SXOP(nt_divides) { return Val::T(divides(*ZI(c, e, 1), *ZI(c, e, 2))); }
#define FACT(name, call) \
    SXOP(name) \
    { \
        RCP<const Integer> f; \
        int r = call; \
        return Val::J("[" + std::to_string(r) + "," + ij(f) + "]"); \
    }
FACT(nt_factor, factor(outArg(f), *ZI(c, e, 1)))
FACT(nt_factor_trial_division, factor_trial_division(outArg(f), *ZI(c, e, 1)))
FACT(nt_factor_lehman_method, factor_lehman_method(outArg(f), *ZI(c, e, 1)))
FACT(nt_factor_pollard_pm1_method, factor_pollard_pm1_method(outArg(f), *ZI(c, e, 1), (unsigned)c.I(e, 2), (unsigned)c.I(e, 3)))
FACT(nt_factor_pollard_rho_method, factor_pollard_rho_method(outArg(f), *ZI(c, e, 1), (unsigned)c.I(e, 2)))
SXOP(nt_prime_factors)
{
    std::vector<RCP<const Integer>> v;
    prime_factors(v, *ZI(c, e, 1));
    return Val::J(veci(v));
}
SXOP(nt_prime_factor_multiplicities)
{
    map_integer_uint m;
    prime_factor_multiplicities(m, *ZI(c, e, 1));
    std::string o = "[";
    bool first = true;
    for (auto &kv : m) {
        o += (first ? "" : ",") + std::string("[") + ij(kv.first) + "," + std::to_string(kv.second) + "]";
        first = false;
    }
    return Val::J(o + "]");
}
SXOP(nt_bernoulli) { return Val::B(bernoulli(UL(c, e, 1))); }
SXOP(nt_harmonic) { return Val::B(harmonic(UL(c, e, 1), e.n() > 2 ? c.I(e, 2) : 1)); }
SXOP(nt_primitive_root)
{
    RCP<const Integer> g;
    bool ok = primitive_root(outArg(g), *ZI(c, e, 1));
    return Val::J(std::string("[") + (ok ? "true" : "false") + "," + ij(g) + "]");
}
SXOP(nt_primitive_root_list)
{
    std::vector<RCP<const Integer>> v;
    primitive_root_list(v, *ZI(c, e, 1));
    return Val::J(veci(v));
}
SXOP(nt_totient) { return Val::J(ij(totient(ZI(c, e, 1)))); }
SXOP(nt_carmichael) { return Val::J(ij(carmichael(ZI(c, e, 1)))); }
SXOP(nt_multiplicative_order)
{
    RCP<const Integer> o;
    bool ok = multiplicative_order(outArg(o), ZI(c, e, 1), ZI(c, e, 2));
    return Val::J(std::string("[") + (ok ? "true" : "false") + "," + ij(o) + "]");
}
SXOP(nt_legendre) { return Val::I(legendre(*ZI(c, e, 1), *ZI(c, e, 2))); }
SXOP(nt_jacobi) { return Val::I(jacobi(*ZI(c, e, 1), *ZI(c, e, 2))); }
SXOP(nt_kronecker) { return Val::I(kronecker(*ZI(c, e, 1), *ZI(c, e, 2))); }
SXOP(nt_nthroot_mod_list)
{
    std::vector<RCP<const Integer>> v;
    nthroot_mod_list(v, ZI(c, e, 1), ZI(c, e, 2), ZI(c, e, 3));
    return Val::J(veci(v));
}
SXOP(nt_nthroot_mod)
{
    RCP<const Integer> r;
    bool ok = nthroot_mod(outArg(r), ZI(c, e, 1), ZI(c, e, 2), ZI(c, e, 3));
    return Val::J(std::string("[") + (ok ? "true" : "false") + "," + ij(r) + "]");
}
SXOP(nt_powermod)
{ // (nt_powermod a b m) with b an integer or rational expression
    RCP<const Integer> r;
    RCP<const Basic> b = c.B(e, 2);
    if (not is_a_Number(*b)) throw HarnessError{"exponent is not a number"};
    bool ok = powermod(outArg(r), ZI(c, e, 1), rcp_static_cast<const Number>(b), ZI(c, e, 3));
    return Val::J(std::string("[") + (ok ? "true" : "false") + "," + ij(r) + "]");
}
SXOP(nt_powermod_list)
{
    std::vector<RCP<const Integer>> v;
    RCP<const Basic> b = c.B(e, 2);
    if (not is_a_Number(*b)) throw HarnessError{"exponent is not a number"};
    powermod_list(v, ZI(c, e, 1), rcp_static_cast<const Number>(b), ZI(c, e, 3));
    return Val::J(veci(v));
}
SXOP(nt_quadratic_residues)
{
    vec_integer_class v = quadratic_residues(*ZI(c, e, 1));
    std::string o = "[";
    for (size_t i = 0; i < v.size(); i++) o += (i ? "," : "") + zj(v[i]);
    return Val::J(o + "]");
}
SXOP(nt_is_quad_residue) { return Val::T(is_quad_residue(*ZI(c, e, 1), *ZI(c, e, 2))); }
SXOP(nt_is_nth_residue) { return Val::T(is_nth_residue(*ZI(c, e, 1), *ZI(c, e, 2), *ZI(c, e, 3))); }
SXOP(nt_mobius) { return Val::I(mobius(*ZI(c, e, 1))); }
SXOP(nt_mertens) { return Val::I(mertens(UL(c, e, 1))); }
SXOP(nt_polygonal_number) { return Val::J(zj(mp_polygonal_number(c.Z(e, 1), c.Z(e, 2)))); }
SXOP(nt_principal_polygonal_root) { return Val::J(zj(mp_principal_polygonal_root(c.Z(e, 1), c.Z(e, 2)))); }
SXOP(nt_perfect_power_decomposition)
{
    auto pr = mp_perfect_power_decomposition(c.Z(e, 1), e.n() > 2 ? c.T(e, 2) : false);
    return Val::J("[" + zj(pr.first) + "," + zj(pr.second) + "]");
}
SXOP(nt_isqrt) { return Val::J(ij(isqrt(*ZI(c, e, 1)))); }
SXOP(nt_i_nth_root)
{
    RCP<const Integer> r;
    int ex = i_nth_root(outArg(r), *ZI(c, e, 1), (unsigned long)c.I(e, 2));
    return Val::J("[" + std::to_string(ex) + "," + ij(r) + "]");
}
SXOP(nt_perfect_square) { return Val::T(perfect_square(*ZI(c, e, 1))); }
SXOP(nt_perfect_power) { return Val::T(perfect_power(*ZI(c, e, 1))); }
SXOP(nt_iabs) { return Val::J(ij(iabs(*ZI(c, e, 1)))); }

// ------------------------------------------------------------------ C33 sieve
static std::string primes_digest(const std::vector<unsigned> &v, bool full)
{
    unsigned long long h = 1469598103934665603ULL, sum = 0;
    bool inc = true;
    for (size_t i = 0; i < v.size(); i++) {
        h = (h ^ v[i]) * 1099511628211ULL;
        sum += v[i];
        if (i and v[i] <= v[i - 1]) inc = false;
    }
    char buf[64];
    snprintf(buf, sizeof buf, "%016llx", h);
    std::string o = "{\"n\":" + std::to_string(v.size()) + ",\"h\":\"" + buf + "\",\"sum\":" + std::to_string(sum) + ",\"inc\":" + (inc ? "true" : "false")
                    + ",\"last\":" + (v.empty() ? std::string("null") : std::to_string(v.back()));
    if (full or v.size() <= 64) {
        o += ",\"p\":[";
        for (size_t i = 0; i < v.size(); i++) o += (i ? "," : "") + std::to_string(v[i]);
        o += "]";
    }
    return o + "}";
}
SXOP(sieve_generate)
{
    std::vector<unsigned> v;
    Sieve::generate_primes(v, (unsigned)c.I(e, 1));
    return Val::J(primes_digest(v, e.n() > 2 and c.T(e, 2)));
}
SXOP(sieve_clear) { Sieve::clear(); return Val::T(true); }
SXOP(sieve_set_size) { Sieve::set_sieve_size((unsigned)c.I(e, 1)); return Val::T(true); }
SXOP(sieve_set_clear) { Sieve::set_clear(c.T(e, 1)); return Val::T(true); }
SXOP(sieve_iter)
{
    if (e.n() > 1) return Val::O("sieve_iter", std::make_shared<Sieve::iterator>((unsigned)c.I(e, 1)));
    return Val::O("sieve_iter", std::make_shared<Sieve::iterator>());
}
SXOP(sieve_next)
{ // (sieve_next it count) -> list of the next `count` outputs
    Sieve::iterator *it = c.A(e, 1).as<Sieve::iterator>("sieve_iter");
    long n = e.n() > 2 ? c.I(e, 2) : 1;
    std::vector<unsigned> v;
    for (long i = 0; i < n; i++) v.push_back(it->next_prime());
    return Val::J(primes_digest(v, true));
}

// ------------------------------------------------------------------ C38 finite differences
SXOP(fdiff_weights)
{ // (fdiff_weights (vec grid...) maxorder around)
    return Val::V(generate_fdiff_weights_vector(c.VEC(e, 1), (unsigned)c.I(e, 2), c.B(e, 3)));
}

// ------------------------------------------------------------------ C46 diophantine
SXOP(homogeneous_lde)
{ // (homogeneous_lde rows cols (entries...)) -> list of solution vectors (ints)
    unsigned r = (unsigned)c.I(e, 1), k = (unsigned)c.I(e, 2);
    vec_basic ent;
    for (auto &x : e.l.at(3).l) ent.push_back(integer(integer_class(x.a)));
    if (ent.size() != (size_t)r * k) throw HarnessError{"entry count"};
    DenseMatrix A(r, k, ent);
    std::vector<DenseMatrix> basis;
    homogeneous_lde(basis, A);
    std::string o = "[";
    for (size_t i = 0; i < basis.size(); i++) {
        o += (i ? ",[" : "[");
        for (unsigned j = 0; j < basis[i].ncols() * basis[i].nrows(); j++) {
            RCP<const Basic> x = basis[i].nrows() == 1 ? basis[i].get(0, j) : basis[i].get(j, 0);
            o += (j ? "," : "") + (is_a<Integer>(*x) ? zj(static_cast<const Integer &>(*x).as_integer_class()) : jstr(x->__str__()));
        }
        o += "]";
    }
    return Val::J(o + "]");
}

// ------------------------------------------------------------------ C23 GF(p)
typedef GaloisFieldDict GFD;
static Val GFV(const GFD &d) { return Val::O("gf", std::make_shared<GFD>(d)); }
static GFD GF(Ctx &c, const Sx &e, size_t i) { return *c.A(e, i).as<GFD>("gf"); } // by value: the argument may be a temporary
static std::string gf_json(const GFD &d)
{
    std::string o = "{\"k\":\"gf\",\"p\":" + zj(d.modulo_) + ",\"c\":[";
    const auto &v = d.get_dict();
    for (size_t i = 0; i < v.size(); i++) o += (i ? "," : "") + zj(v[i]);
    return o + "]}";
}
static RegPrinter gfprinter("gf", [](const Val &v) { return gf_json(*static_cast<GFD *>(v.obj.get())); });
static std::string gf_pairs(const std::vector<std::pair<GFD, unsigned>> &v)
{
    std::string o = "[";
    for (size_t i = 0; i < v.size(); i++) o += (i ? "," : "") + std::string("[") + gf_json(v[i].first) + "," + std::to_string(v[i].second) + "]";
    return o + "]";
}
template <class S> static std::string gf_set(const S &s)
{
    std::string o = "[";
    bool first = true;
    for (auto &x : s) {
        o += (first ? "" : ",") + gf_json(x);
        first = false;
    }
    return o + "]";
}
SXOP(gf)
{ // (gf (c0 c1 ...) p)
    std::vector<integer_class> v;
    for (auto &x : e.l.at(1).l) v.push_back(integer_class(x.a));
    return GFV(GFD::from_vec(v, c.Z(e, 2)));
}
SXOP(gf_map)
{ // (gf_map ((deg coef)...) p)
    map_uint_mpz m;
    for (auto &x : e.l.at(1).l) m[(unsigned)strtoul(x.l.at(0).a.c_str(), nullptr, 10)] = integer_class(x.l.at(1).a);
    return GFV(GFD(m, c.Z(e, 2)));
}
SXOP(gf_const) { return GFV(GFD(c.Z(e, 1), c.Z(e, 2))); }
SXOP(gf_add) { return GFV(GF(c, e, 1) + GF(c, e, 2)); }
SXOP(gf_sub) { return GFV(GF(c, e, 1) - GF(c, e, 2)); }
SXOP(gf_mul) { return GFV(GF(c, e, 1) * GF(c, e, 2)); }
SXOP(gf_neg) { return GFV(-GF(c, e, 1)); }
SXOP(gf_quo) { return GFV(GF(c, e, 1) / GF(c, e, 2)); }
SXOP(gf_rem) { return GFV(GF(c, e, 1) % GF(c, e, 2)); }
SXOP(gf_iadd) { GFD a = GF(c, e, 1); a += GF(c, e, 2); return GFV(a); }
SXOP(gf_isub) { GFD a = GF(c, e, 1); a -= GF(c, e, 2); return GFV(a); }
SXOP(gf_imul) { GFD a = GF(c, e, 1); a *= GF(c, e, 2); return GFV(a); }
SXOP(gf_add_int) { GFD a = GF(c, e, 1); a += c.Z(e, 2); return GFV(a); }
SXOP(gf_mul_int) { GFD a = GF(c, e, 1); a *= c.Z(e, 2); return GFV(a); }
SXOP(gf_div_int) { GFD a = GF(c, e, 1); a /= c.Z(e, 2); return GFV(a); }
SXOP(gf_self_mul) { GFD a = GF(c, e, 1); a *= a; return GFV(a); }
SXOP(gf_self_add) { GFD a = GF(c, e, 1); a += a; return GFV(a); }
SXOP(gf_self_sub) { GFD a = GF(c, e, 1); a -= a; return GFV(a); }
SXOP(gf_div)
{
    GFD q, r;
    GF(c, e, 1).gf_div(GF(c, e, 2), outArg(q), outArg(r));
    return Val::J("[" + gf_json(q) + "," + gf_json(r) + "]");
}
SXOP(gf_lshift) { return GFV(GF(c, e, 1).gf_lshift(c.Z(e, 2))); }
SXOP(gf_rshift)
{
    GFD q, r;
    GF(c, e, 1).gf_rshift(c.Z(e, 2), outArg(q), outArg(r));
    return Val::J("[" + gf_json(q) + "," + gf_json(r) + "]");
}
SXOP(gf_sqr) { return GFV(GF(c, e, 1).gf_sqr()); }
SXOP(gf_pow) { return GFV(GF(c, e, 1).gf_pow((unsigned long)c.I(e, 2))); }
SXOP(gf_monic)
{
    integer_class lc;
    GFD m;
    GF(c, e, 1).gf_monic(lc, outArg(m));
    return Val::J("[" + zj(lc) + "," + gf_json(m) + "]");
}
SXOP(gf_gcd) { return GFV(GF(c, e, 1).gf_gcd(GF(c, e, 2))); }
SXOP(gf_lcm) { return GFV(GF(c, e, 1).gf_lcm(GF(c, e, 2))); }
SXOP(gf_diff) { return GFV(GF(c, e, 1).gf_diff()); }
SXOP(gf_eval) { return Val::J(zj(GF(c, e, 1).gf_eval(c.Z(e, 2)))); }
SXOP(gf_multi_eval)
{
    vec_integer_class v;
    for (auto &x : e.l.at(2).l) v.push_back(integer_class(x.a));
    vec_integer_class r = GF(c, e, 1).gf_multi_eval(v);
    std::string o = "[";
    for (size_t i = 0; i < r.size(); i++) o += (i ? "," : "") + zj(r[i]);
    return Val::J(o + "]");
}
SXOP(gf_is_sqf) { return Val::T(GF(c, e, 1).gf_is_sqf()); }
SXOP(gf_sqf_list) { return Val::J(gf_pairs(GF(c, e, 1).gf_sqf_list())); }
SXOP(gf_sqf_part) { return GFV(GF(c, e, 1).gf_sqf_part()); }
SXOP(gf_compose_mod) { return GFV(GF(c, e, 1).gf_compose_mod(GF(c, e, 2), GF(c, e, 3))); }
SXOP(gf_pow_mod) { return GFV(GF(c, e, 1).gf_pow_mod(GF(c, e, 2), (unsigned long)c.I(e, 3))); }
SXOP(gf_frobenius_monomial_base)
{
    auto v = GF(c, e, 1).gf_frobenius_monomial_base();
    return Val::J(gf_set(v));
}
SXOP(gf_ddf_zassenhaus) { return Val::J(gf_pairs(GF(c, e, 1).gf_ddf_zassenhaus())); }
SXOP(gf_ddf_shoup) { return Val::J(gf_pairs(GF(c, e, 1).gf_ddf_shoup())); }
SXOP(gf_edf_zassenhaus) { return Val::J(gf_set(GF(c, e, 1).gf_edf_zassenhaus((unsigned)c.I(e, 2)))); }
SXOP(gf_edf_shoup) { return Val::J(gf_set(GF(c, e, 1).gf_edf_shoup((unsigned)c.I(e, 2)))); }
SXOP(gf_zassenhaus) { return Val::J(gf_set(GF(c, e, 1).gf_zassenhaus())); }
SXOP(gf_shoup) { return Val::J(gf_set(GF(c, e, 1).gf_shoup())); }
SXOP(gf_factor)
{
    auto pr = GF(c, e, 1).gf_factor();
    std::vector<std::pair<GFD, unsigned>> v(pr.second.begin(), pr.second.end());
    return Val::J("[" + zj(pr.first) + "," + gf_pairs(v) + "]");
}
SXOP(gf_eq) { return Val::T(GF(c, e, 1) == GF(c, e, 2)); }
SXOP(gf_degree) { return Val::I(GF(c, e, 1).degree()); }
// GaloisField as a Basic
SXOP(gfpoly) { return Val::B(GaloisField::from_dict(c.B(e, 1), GFD(GF(c, e, 2)))); }
SXOP(gfpoly_from_uint)
{
    RCP<const Basic> p = c.B(e, 1);
    if (not is_a<UIntPoly>(*p)) throw HarnessError{"not a UIntPoly"};
    return Val::B(GaloisField::from_uintpoly(static_cast<const UIntPoly &>(*p), c.Z(e, 2)));
}
SXOP(gf_monic_poly)
{
    integer_class lc;
    GFD m;
    GF(c, e, 1).gf_monic(lc, outArg(m));
    return GFV(m);
}
