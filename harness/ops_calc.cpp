// series / solve operations
#include "sx.h"
#include <symengine/series.h>
#include <symengine/series_generic.h>
#include <symengine/solve.h>
#include <symengine/matrix.h>

using namespace SymEngine;
using namespace sx;

// (series_coeffs expr sym prec) -> coefficients c0 .. c_{prec-1} of the library's series object
SXOP(series_coeffs)
{
    unsigned prec = (unsigned)c.I(e, 3);
    auto s = SymEngine::series(c.B(e, 1), c.SYM(e, 2), prec);
    vec_basic v;
    for (unsigned i = 0; i < prec; i++)
        v.push_back(s->get_coeff((int)i));
    return Val::V(v);
}
SXOP(series_as_basic) { return Val::B(SymEngine::series(c.B(e, 1), c.SYM(e, 2), (unsigned)c.I(e, 3))->as_basic()); }
// the same through the generic series class directly and through its as_dict()
SXOP(useries_coeffs)
{
    unsigned prec = (unsigned)c.I(e, 3);
    auto s = UnivariateSeries::series(c.B(e, 1), c.SYM(e, 2)->get_name(), prec);
    auto d = s->as_dict();
    vec_basic v;
    for (unsigned i = 0; i < prec; i++) {
        auto it = d.find((int)i);
        v.push_back(it == d.end() ? RCP<const Basic>(integer(0)) : it->second);
    }
    return Val::V(v);
}

SXOPN(solve_, "solve")
{
    if (e.n() > 3)
        return Val::B(solve(c.B(e, 1), c.SYM(e, 2), c.SET(e, 3)));
    return Val::B(solve(c.B(e, 1), c.SYM(e, 2)));
}
SXOPN(solve_poly_, "solve_poly")
{
    if (e.n() > 3)
        return Val::B(solve_poly(c.B(e, 1), c.SYM(e, 2), c.SET(e, 3)));
    return Val::B(solve_poly(c.B(e, 1), c.SYM(e, 2)));
}
SXOPN(solve_rational_, "solve_rational")
{
    if (e.n() > 3)
        return Val::B(solve_rational(c.B(e, 1), c.SYM(e, 2), c.SET(e, 3)));
    return Val::B(solve_rational(c.B(e, 1), c.SYM(e, 2)));
}
SXOPN(solve_trig_, "solve_trig")
{
    if (e.n() > 3)
        return Val::B(solve_trig(c.B(e, 1), c.SYM(e, 2), c.SET(e, 3)));
    return Val::B(solve_trig(c.B(e, 1), c.SYM(e, 2)));
}
// (solve_poly_coeffs (c0 c1 ...) [domain]) : coefficient-list entry point (lowest degree first)
SXOP(solve_poly_coeffs)
{
    vec_basic cs = c.VEC(e, 1);
    if (e.n() > 2)
        return Val::B(solve_poly_heuristics(cs, c.SET(e, 2)));
    return Val::B(solve_poly_heuristics(cs));
}
// (linsolve (eq1 eq2 ...) (sym1 sym2 ...))
SXOPN(linsolve_, "linsolve")
{
    vec_basic eqs = c.VEC(e, 1);
    vec_basic sv = c.VEC(e, 2);
    vec_sym syms;
    for (auto &s : sv) {
        if (not is_a<Symbol>(*s))
            throw HarnessError{"linsolve: symbol expected"};
        syms.push_back(rcp_static_cast<const Symbol>(s));
    }
    return Val::V(linsolve(eqs, syms));
}

// ------------------------------------------------------------------ lambda double evaluators (C13)
#include <symengine/lambda_double.h>
#include <complex>
// (lambda_seq real|complex step...) with step = (init (sym...) (expr...) cse) | (call x...)   [complex call: re im re im ...]
// One evaluator object lives through the whole sequence; returns the outputs of every call.
SXOP(lambda_seq)
{
    std::string mode = c.S(e, 1);
    LambdaRealDoubleVisitor rv;
    LambdaComplexDoubleVisitor cv;
    size_t nout = 0, nin = 0;
    bool inited = false;
    std::string out = "{\"calls\":[";
    bool first = true;
    for (size_t i = 2; i < e.n(); i++) {
        const Sx &st = e.l[i];
        if (st.atom or st.l.empty() or not st.l[0].atom) throw HarnessError{"lambda_seq: bad step"};
        const std::string &what = st.l[0].a;
        if (what == "init") {
            vec_basic ins = c.VEC(st, 1), outs = c.VEC(st, 2);
            bool cse = st.l.size() > 3 and c.T(st, 3);
            if (mode == "real") rv.init(ins, outs, cse);
            else cv.init(ins, outs, cse);
            nin = ins.size();
            nout = outs.size();
            inited = true;
        } else if (what == "call") {
            if (not inited) throw HarnessError{"lambda_seq: call before init"};
            if (not first) out += ",";
            first = false;
            out += "[";
            if (mode == "real") {
                std::vector<double> in(nin), res(nout);
                if (st.l.size() - 1 != nin) throw HarnessError{"lambda_seq: wrong number of inputs"};
                for (size_t k = 0; k < nin; k++) in[k] = c.D(st, k + 1);
                rv.call(res.data(), in.data());
                for (size_t k = 0; k < nout; k++) out += (k ? ",\"" : "\"") + hexdouble(res[k]) + "\"";
            } else {
                std::vector<std::complex<double>> in(nin), res(nout);
                if (st.l.size() - 1 != 2 * nin) throw HarnessError{"lambda_seq: wrong number of inputs"};
                for (size_t k = 0; k < nin; k++) in[k] = std::complex<double>(c.D(st, 2 * k + 1), c.D(st, 2 * k + 2));
                cv.call(res.data(), in.data());
                for (size_t k = 0; k < nout; k++)
                    out += (k ? ",[\"" : "[\"") + hexdouble(res[k].real()) + "\",\"" + hexdouble(res[k].imag()) + "\"]";
            }
            out += "]";
        } else {
            throw HarnessError{"lambda_seq: unknown step"};
        }
    }
    return Val::J(out + "]}");
}
