// series / solve operations
#include "sx.h"
#include <symengine/series.h>
#include <symengine/series_generic.h>
#include <symengine/solve.h>
#include <symengine/matrix.h>

using namespace SymEngine;
using namespace sx;

// (series_coeffs expr sym prec) -> coefficients c0 .. c_{prec-1} of the library's series object
SXOP(series_coeffs)
{
    unsigned prec = (unsigned)c.I(e, 3);
    auto s = SymEngine::series(c.B(e, 1), c.SYM(e, 2), prec);
    vec_basic v;
    for (unsigned i = 0; i < prec; i++)
        v.push_back(s->get_coeff((int)i));
    return Val::V(v);
}
SXOP(series_as_basic) { return Val::B(SymEngine::series(c.B(e, 1), c.SYM(e, 2), (unsigned)c.I(e, 3))->as_basic()); }
// the same through the generic series class directly and through its as_dict()
SXOP(useries_coeffs)
{
    unsigned prec = (unsigned)c.I(e, 3);
    auto s = UnivariateSeries::series(c.B(e, 1), c.SYM(e, 2)->get_name(), prec);
    auto d = s->as_dict();
    vec_basic v;
    for (unsigned i = 0; i < prec; i++) {
        auto it = d.find((int)i);
        v.push_back(it == d.end() ? RCP<const Basic>(integer(0)) : it->second);
    }
    return Val::V(v);
}

SXOPN(solve_, "solve")
{
    if (e.n() > 3)
        return Val::B(solve(c.B(e, 1), c.SYM(e, 2), c.SET(e, 3)));
    return Val::B(solve(c.B(e, 1), c.SYM(e, 2)));
}
SXOPN(solve_poly_, "solve_poly")
{
    if (e.n() > 3)
        return Val::B(solve_poly(c.B(e, 1), c.SYM(e, 2), c.SET(e, 3)));
    return Val::B(solve_poly(c.B(e, 1), c.SYM(e, 2)));
}
SXOPN(solve_rational_, "solve_rational")
{
    if (e.n() > 3)
        return Val::B(solve_rational(c.B(e, 1), c.SYM(e, 2), c.SET(e, 3)));
    return Val::B(solve_rational(c.B(e, 1), c.SYM(e, 2)));
}
SXOPN(solve_trig_, "solve_trig")
{
    if (e.n() > 3)
        return Val::B(solve_trig(c.B(e, 1), c.SYM(e, 2), c.SET(e, 3)));
    return Val::B(solve_trig(c.B(e, 1), c.SYM(e, 2)));
}
// (solve_poly_coeffs (c0 c1 ...) [domain]) : coefficient-list entry point (lowest degree first)
SXOP(solve_poly_coeffs)
{
    vec_basic cs = c.VEC(e, 1);
    if (e.n() > 2)
        return Val::B(solve_poly_heuristics(cs, c.SET(e, 2)));
    return Val::B(solve_poly_heuristics(cs));
}
// (linsolve (eq1 eq2 ...) (sym1 sym2 ...))
SXOPN(linsolve_, "linsolve")
{
    vec_basic eqs = c.VEC(e, 1);
    vec_basic sv = c.VEC(e, 2);
    vec_sym syms;
    for (auto &s : sv) {
        if (not is_a<Symbol>(*s))
            throw HarnessError{"linsolve: symbol expected"};
        syms.push_back(rcp_static_cast<const Symbol>(s));
    }
    return Val::V(linsolve(eqs, syms));
}
