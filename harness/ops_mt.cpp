// Multi-threaded driver for C41: several threads work concurrently on the same immutable expression objects.
#include "sx.h"
#include <symengine/visitor.h>
#include <symengine/subs.h>
#include <symengine/derivative.h>
#include <thread>
#include <random>
#include <atomic>
#include <sched.h>

using namespace SymEngine;
using namespace sx;

namespace
{
std::atomic<unsigned> g_yield_seed{1};
thread_local unsigned t_rng = 0;
void yield_hook(int site)
{
    // called by the library (hook H3) where another thread can interleave: perturb the schedule
    if (t_rng == 0) t_rng = g_yield_seed.fetch_add(7919) | 1u;
    t_rng = t_rng * 1664525u + 1013904223u;
    unsigned r = (t_rng >> 16) & 63u;
    if (r < 6) sched_yield();
    else if (r < 8) { for (volatile int i = 0; i < 200; i++) {} }
}

std::string one_op(unsigned kind, const vec_basic &sh, unsigned i, unsigned j, const RCP<const Basic> &x, const RCP<const Basic> &y)
{
    const RCP<const Basic> &a = sh[i % sh.size()], &b = sh[j % sh.size()];
    try {
        switch (kind % 12) {
            case 0: return "h" + std::to_string((unsigned long long)a->hash());
            case 1: return "s" + a->__str__();
            case 2: return std::string("e") + (eq(*a, *b) ? "1" : "0");
            case 3: return "c" + std::to_string(a->__cmp__(*b) > 0 ? 1 : (a->__cmp__(*b) < 0 ? -1 : 0));
            case 4: return "d" + a->diff(rcp_static_cast<const Symbol>(x))->__str__();
            case 5: { map_basic_basic m; m[x] = y; return "u" + a->subs(m)->__str__(); }
            case 6: return "x" + expand(a)->__str__();
            case 7: return "+" + add(a, b)->__str__();
            case 8: return "*" + mul(a, b)->__str__();
            case 9: return "^" + pow(a, integer(2))->__str__();
            case 10: return "f" + std::to_string(free_symbols(*a).size());
            default: return "a" + std::to_string(a->get_args().size()) + ":" + std::to_string((unsigned long long)add(a, integer(1))->hash());
        }
    } catch (std::exception &ex) {
        return std::string("!") + ex.what();
    }
}
} // namespace

// (mt_run threads ops seed builder-count) evaluates the REST arguments twice into two separate but identical vectors of shared objects:
//   (mt_run T N SEED e1 e2 ...)  - the e_k are evaluated once per copy
// concurrent phase on copy A (T threads, N ops each), sequential phase on copy B with the same op sequences; reports differing results.
SXOP(mt_run)
{
    unsigned T = (unsigned)c.I(e, 1), N = (unsigned)c.I(e, 2), seed = (unsigned)c.I(e, 3);
    vec_basic A, B;
    for (size_t i = 4; i < e.n(); i++) A.push_back(c.B(e, i));
    for (size_t i = 4; i < e.n(); i++) B.push_back(c.B(e, i));      // evaluated again: fresh objects, nothing cached
    if (A.empty()) throw HarnessError{"mt_run: no shared expressions"};
    RCP<const Basic> x = symbol("x"), y = symbol("y");
    std::vector<std::vector<std::array<unsigned, 3>>> plan(T);
    std::mt19937 gen(seed);
    for (unsigned t = 0; t < T; t++)
        for (unsigned k = 0; k < N; k++) plan[t].push_back({(unsigned)gen(), (unsigned)gen(), (unsigned)gen()});
    std::vector<std::vector<std::string>> conc(T), seq(T);
#if defined(SYMENGINE_VERIF)
    g_yield_seed.store(seed | 1u);
    SymEngine::verif::yield_fn().store(&yield_hook);
#endif
    std::atomic<int> go{0};
    std::vector<std::thread> th;
    for (unsigned t = 0; t < T; t++) {
        th.emplace_back([&, t]() {
            while (go.load(std::memory_order_acquire) == 0) {}
            for (auto &p : plan[t]) conc[t].push_back(one_op(p[0], A, p[1], p[2], x, y));
        });
    }
    go.store(1, std::memory_order_release);
    for (auto &h : th) h.join();
#if defined(SYMENGINE_VERIF)
    SymEngine::verif::yield_fn().store(nullptr);
#endif
    for (unsigned t = 0; t < T; t++)
        for (auto &p : plan[t]) seq[t].push_back(one_op(p[0], B, p[1], p[2], x, y));
    std::string o = "{\"threads\":" + std::to_string(T) + ",\"ops\":" + std::to_string(T * N) + ",\"mismatches\":[";
    bool first = true;
    size_t nm = 0;
    for (unsigned t = 0; t < T; t++)
        for (unsigned k = 0; k < N; k++)
            if (conc[t][k] != seq[t][k]) {
                nm++;
                if (nm > 5) continue;
                o += std::string(first ? "" : ",") + "{\"thread\":" + std::to_string(t) + ",\"op\":" + std::to_string(plan[t][k][0] % 12) + ",\"concurrent\":" + jstr(conc[t][k].substr(0, 200))
                     + ",\"sequential\":" + jstr(seq[t][k].substr(0, 200)) + "}";
                first = false;
            }
    return Val::J(o + "],\"count\":" + std::to_string(nm) + "}");
}
