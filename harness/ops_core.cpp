// Core operators: arithmetic, functions, transformations, evaluation, printing, parsing, serialization
#include "sx.h"
#include <symengine/logic.h>
#include <symengine/sets.h>
#include <symengine/eval.h>
#include <symengine/eval_double.h>
#include <symengine/parser.h>
#include <symengine/parser/parser.h>
#include <symengine/parser/sbml/sbml_parser.h>
#include <symengine/printers.h>
#include <symengine/printers/codegen.h>
#include <symengine/subs.h>
#include <symengine/derivative.h>
#include <symengine/simplify.h>
#include <symengine/refine.h>
#include <symengine/assumptions.h>
#include <symengine/test_visitors.h>
#include <symengine/ntheory_funcs.h>
#include <symengine/tuple.h>
#include <symengine/number.h>
#include <unordered_set>

using namespace SymEngine;
using namespace sx;

// ---- arithmetic
SXOP(add)
{
    if (e.n() == 3) return Val::B(add(c.B(e, 1), c.B(e, 2)));
    return Val::B(add(c.REST(e, 1)));
}
SXOP(addv) { return Val::B(add(c.VEC(e, 1))); }
SXOP(mulv) { return Val::B(mul(c.VEC(e, 1))); }
SXOP(sub) { return Val::B(sub(c.B(e, 1), c.B(e, 2))); }
SXOP(mul)
{
    if (e.n() == 3) return Val::B(mul(c.B(e, 1), c.B(e, 2)));
    return Val::B(mul(c.REST(e, 1)));
}
SXOPN(div_, "div") { return Val::B(div(c.B(e, 1), c.B(e, 2))); }
SXOP(neg) { return Val::B(neg(c.B(e, 1))); }
SXOP(pow) { return Val::B(pow(c.B(e, 1), c.B(e, 2))); }
SXOPN(exp_, "exp") { return Val::B(exp(c.B(e, 1))); }
SXOPN(sqrt_, "sqrt") { return Val::B(sqrt(c.B(e, 1))); }
SXOPN(cbrt_, "cbrt") { return Val::B(cbrt(c.B(e, 1))); }

// Number:: double-dispatch methods
SXOP(nadd) { return Val::B(c.N(e, 1)->add(*c.N(e, 2))); }
SXOP(nsub) { return Val::B(c.N(e, 1)->sub(*c.N(e, 2))); }
SXOP(nrsub) { return Val::B(c.N(e, 1)->rsub(*c.N(e, 2))); }
SXOP(nmul) { return Val::B(c.N(e, 1)->mul(*c.N(e, 2))); }
SXOP(ndiv) { return Val::B(c.N(e, 1)->div(*c.N(e, 2))); }
SXOP(nrdiv) { return Val::B(c.N(e, 1)->rdiv(*c.N(e, 2))); }
SXOP(npow) { return Val::B(c.N(e, 1)->pow(*c.N(e, 2))); }
SXOP(nrpow) { return Val::B(c.N(e, 1)->rpow(*c.N(e, 2))); }
SXOP(addnum) { return Val::B(addnum(c.N(e, 1), c.N(e, 2))); }
SXOP(subnum) { return Val::B(subnum(c.N(e, 1), c.N(e, 2))); }
SXOP(mulnum) { return Val::B(mulnum(c.N(e, 1), c.N(e, 2))); }
SXOP(divnum) { return Val::B(divnum(c.N(e, 1), c.N(e, 2))); }
SXOP(pownum) { return Val::B(pownum(c.N(e, 1), c.N(e, 2))); }

// ---- one-arg functions
#define F1(name, fn) SXOPN(f_##name, #name) { return Val::B(fn(c.B(e, 1))); }
F1(sin, sin) F1(cos, cos) F1(tan, tan) F1(cot, cot) F1(csc, csc) F1(sec, sec)
F1(asin, asin) F1(acos, acos) F1(asec, asec) F1(acsc, acsc) F1(atan, atan) F1(acot, acot)
F1(sinh, sinh) F1(cosh, cosh) F1(tanh, tanh) F1(coth, coth) F1(csch, csch) F1(sech, sech)
F1(asinh, asinh) F1(acosh, acosh) F1(atanh, atanh) F1(acoth, acoth) F1(acsch, acsch) F1(asech, asech)
F1(abs, abs) F1(sign, sign) F1(floor, floor) F1(ceiling, ceiling) F1(truncate, truncate) F1(conjugate, conjugate)
F1(gamma, gamma) F1(loggamma, loggamma) F1(erf, erf) F1(erfc, erfc) F1(lambertw, lambertw)
F1(dirichlet_eta, dirichlet_eta) F1(digamma, digamma) F1(trigamma, trigamma)
F1(primepi, primepi) F1(primorial, primorial) F1(unevaluated_expr, unevaluated_expr)
SXOPN(f_log, "log")
{
    if (e.n() == 3) return Val::B(log(c.B(e, 1), c.B(e, 2)));
    return Val::B(log(c.B(e, 1)));
}
SXOPN(f_zeta, "zeta")
{
    if (e.n() == 3) return Val::B(zeta(c.B(e, 1), c.B(e, 2)));
    return Val::B(zeta(c.B(e, 1)));
}
#define F2(name, fn) SXOPN(f_##name, #name) { return Val::B(fn(c.B(e, 1), c.B(e, 2))); }
F2(atan2, atan2) F2(lowergamma, lowergamma) F2(uppergamma, uppergamma) F2(beta, beta) F2(polygamma, polygamma)
F2(kronecker_delta, kronecker_delta)
SXOP(levi_civita) { return Val::B(levi_civita(c.REST(e, 1))); }
SXOPN(f_max, "max") { return Val::B(max(c.REST(e, 1))); }
SXOPN(f_min, "min") { return Val::B(min(c.REST(e, 1))); }
SXOP(func) { return Val::B(function_symbol(c.S(e, 1), c.REST(e, 2))); }
SXOP(derivative)
{ // (derivative expr sym...)
    multiset_basic ms;
    for (size_t i = 2; i < e.n(); i++) ms.insert(c.B(e, i));
    return Val::B(Derivative::create(c.B(e, 1), ms));
}
SXOP(subs_node)
{ // (subs_node expr (k v)...)
    map_basic_basic d;
    for (size_t i = 2; i < e.n(); i++) d[c.B(e.l[i], 0)] = c.B(e.l[i], 1);
    return Val::B(Subs::create(c.B(e, 1), d));
}
SXOP(tuple) { return Val::B(tuple(c.REST(e, 1))); }

// ---- relationals / logic
SXOP(Eq)
{
    if (e.n() == 2) return Val::B(Eq(c.B(e, 1)));
    return Val::B(Eq(c.B(e, 1), c.B(e, 2)));
}
SXOP(Ne) { return Val::B(Ne(c.B(e, 1), c.B(e, 2))); }
SXOP(Lt) { return Val::B(Lt(c.B(e, 1), c.B(e, 2))); }
SXOP(Le) { return Val::B(Le(c.B(e, 1), c.B(e, 2))); }
SXOP(Gt) { return Val::B(Gt(c.B(e, 1), c.B(e, 2))); }
SXOP(Ge) { return Val::B(Ge(c.B(e, 1), c.B(e, 2))); }
static set_boolean boolset(Ctx &c, const Sx &e, size_t from)
{
    set_boolean s;
    for (size_t i = from; i < e.n(); i++) s.insert(c.BOOLE(e, i));
    return s;
}
static vec_boolean boolvec(Ctx &c, const Sx &e, size_t from)
{
    vec_boolean s;
    for (size_t i = from; i < e.n(); i++) s.push_back(c.BOOLE(e, i));
    return s;
}
SXOP(logical_and) { return Val::B(logical_and(boolset(c, e, 1))); }
SXOP(logical_or) { return Val::B(logical_or(boolset(c, e, 1))); }
SXOP(logical_nand) { return Val::B(logical_nand(boolset(c, e, 1))); }
SXOP(logical_nor) { return Val::B(logical_nor(boolset(c, e, 1))); }
SXOP(logical_not) { return Val::B(logical_not(c.BOOLE(e, 1))); }
SXOP(logical_xor) { return Val::B(logical_xor(boolvec(c, e, 1))); }
SXOP(logical_xnor) { return Val::B(logical_xnor(boolvec(c, e, 1))); }
SXOP(contains) { return Val::B(contains(c.B(e, 1), c.SET(e, 2))); }
SXOP(piecewise)
{ // (piecewise (expr cond)...)
    PiecewiseVec v;
    for (size_t i = 1; i < e.n(); i++) v.push_back({c.B(e.l[i], 0), c.BOOLE(e.l[i], 1)});
    return Val::B(piecewise(std::move(v)));
}

// ---- transformations
SXOPN(expand_, "expand")
{
    bool deep = e.n() > 2 ? c.T(e, 2) : true;
    return Val::B(expand(c.B(e, 1), deep));
}
SXOPN(diff_, "diff")
{
    bool cache = e.n() > 3 ? c.T(e, 3) : true;
    return Val::B(diff(c.B(e, 1), c.SYM(e, 2), cache));
}
SXOP(sdiff)
{
    bool cache = e.n() > 3 ? c.T(e, 3) : true;
    return Val::B(sdiff(c.B(e, 1), c.B(e, 2), cache));
}
SXOP(mdiff) { return Val::B(c.B(e, 1)->diff(c.SYM(e, 2))); }
static map_basic_basic submap(Ctx &c, const Sx &e, size_t from)
{
    map_basic_basic d;
    for (size_t i = from; i < e.n(); i++) {
        if (e.l[i].atom) continue;
        d[c.B(e.l[i], 0)] = c.B(e.l[i], 1);
    }
    return d;
}
// (subs expr cache? (k v)...)  -- cache flag optional as bare true/false after expr
static bool opt_flag(const Sx &e, size_t i, bool dflt)
{
    if (i < e.n() and e.l[i].atom and (e.l[i].a == "true" or e.l[i].a == "false")) return e.l[i].a == "true";
    return dflt;
}
SXOPN(subs_, "subs") { return Val::B(subs(c.B(e, 1), submap(c, e, 2), opt_flag(e, 2, true))); }
SXOPN(xreplace_, "xreplace") { return Val::B(xreplace(c.B(e, 1), submap(c, e, 2), opt_flag(e, 2, true))); }
SXOPN(msubs_, "msubs") { return Val::B(msubs(c.B(e, 1), submap(c, e, 2), opt_flag(e, 2, true))); }
SXOPN(ssubs_, "ssubs") { return Val::B(ssubs(c.B(e, 1), submap(c, e, 2), opt_flag(e, 2, true))); }
SXOP(msubs_method) { return Val::B(c.B(e, 1)->subs(submap(c, e, 2))); }
SXOP(xreplace_method) { return Val::B(c.B(e, 1)->xreplace(submap(c, e, 2))); }

SXOP(rewrite_as_exp) { return Val::B(rewrite_as_exp(c.B(e, 1))); }
SXOP(rewrite_as_sin) { return Val::B(rewrite_as_sin(c.B(e, 1))); }
SXOP(rewrite_as_cos) { return Val::B(rewrite_as_cos(c.B(e, 1))); }
SXOP(expand_as_exp) { return Val::B(c.B(e, 1)->expand_as_exp()); }
SXOP(trig_to_sqrt) { return Val::B(trig_to_sqrt(c.B(e, 1))); }
SXOP(as_numer_denom)
{
    RCP<const Basic> n, d;
    as_numer_denom(c.B(e, 1), outArg(n), outArg(d));
    return Val::V({n, d});
}
SXOP(as_real_imag)
{
    RCP<const Basic> re, im;
    as_real_imag(c.B(e, 1), outArg(re), outArg(im));
    return Val::V({re, im});
}

// ---- assumptions (assume (kind sym)...) where kind in real rational integer complex positive negative nonnegative nonpositive nonzero zero
static std::shared_ptr<Assumptions> mk_assum(Ctx &c, const Sx &a)
{
    set_basic st;
    for (size_t i = 1; i < a.n(); i++) {
        const Sx &it = a.l[i];
        std::string k = it.l.at(0).a;
        RCP<const Basic> s = c.B(it, 1);
        if (k == "real") st.insert(contains(s, reals()));
        else if (k == "rational") st.insert(contains(s, rationals()));
        else if (k == "integer") st.insert(contains(s, integers()));
        else if (k == "complex") st.insert(contains(s, complexes()));
        else if (k == "positive") st.insert(Gt(s, zero));
        else if (k == "negative") st.insert(Lt(s, zero));
        else if (k == "nonnegative") st.insert(Ge(s, zero));
        else if (k == "nonpositive") st.insert(Le(s, zero));
        else if (k == "nonzero") st.insert(Ne(s, zero));
        else if (k == "zero") st.insert(Eq(s, zero));
        else throw HarnessError{"unknown assumption " + k};
    }
    return std::make_shared<Assumptions>(st);
}
SXOP(assume) { return Val::O("assum", mk_assum(c, e)); }
static const Assumptions *get_assum(Ctx &c, const Sx &e, size_t i)
{
    if (i >= e.n()) return nullptr;
    Val v = c.A(e, i);
    if (v.k == Val::NONE) return nullptr;
    return v.as<Assumptions>("assum");
}
SXOPN(refine_, "refine") { Val a = e.n() > 2 ? c.A(e, 2) : Val(); const Assumptions *p = a.k == Val::OBJ ? a.as<Assumptions>("assum") : nullptr; return Val::B(refine(c.B(e, 1), p)); }
SXOPN(simplify_, "simplify") { Val a = e.n() > 2 ? c.A(e, 2) : Val(); const Assumptions *p = a.k == Val::OBJ ? a.as<Assumptions>("assum") : nullptr; return Val::B(simplify(c.B(e, 1), p)); }
static Val tri(tribool t) { return Val::S(is_true(t) ? "true" : (is_false(t) ? "false" : "indet")); }
#define QOP(name) SXOP(name) { Val a = e.n() > 2 ? c.A(e, 2) : Val(); const Assumptions *p = a.k == Val::OBJ ? a.as<Assumptions>("assum") : nullptr; return tri(name(*c.B(e, 1), p)); }
QOP(is_zero) QOP(is_nonzero) QOP(is_positive) QOP(is_nonpositive) QOP(is_negative) QOP(is_nonnegative)
QOP(is_integer) QOP(is_real) QOP(is_complex) QOP(is_finite) QOP(is_infinite)
SXOP(is_rational) { return tri(is_rational(*c.B(e, 1))); }
SXOP(is_irrational) { return tri(is_irrational(*c.B(e, 1))); }
QOP(is_even) QOP(is_odd) QOP(is_algebraic) QOP(is_transcendental)
SXOP(is_polynomial)
{
    set_basic vars;
    for (size_t i = 2; i < e.n(); i++) vars.insert(c.B(e, i));
    return Val::T(is_polynomial(*c.B(e, 1), vars));
}

// ---- comparisons / hashing
SXOPN(eq_, "eq") { return Val::T(eq(*c.B(e, 1), *c.B(e, 2))); }
SXOP(cmp) { return Val::I(c.B(e, 1)->__cmp__(*c.B(e, 2))); }
SXOP(hash)
{
    char buf[32];
    snprintf(buf, sizeof buf, "%016llx", (unsigned long long)c.B(e, 1)->hash());
    return Val::S(buf);
}
SXOP(same) { return Val::T(c.B(e, 1).get() == c.B(e, 2).get()); }
// (cmp_matrix v): for all ordered pairs: cmp, eq, keyless; hashes
static Val cmp_matrix_impl(const vec_basic &v, const std::string &idx);
SXOP(cmp_matrix) { return cmp_matrix_impl(c.VEC(e, 1), ""); }
// (cmp_matrix_regs r0 r1 ...): uses the registers that are bound to expressions, reports which
SXOP(cmp_matrix_regs)
{
    vec_basic v;
    std::string idx;
    for (size_t i = 1; i < e.n(); i++) {
        auto it = c.regs.find(e.l[i].a);
        if (it == c.regs.end() or it->second.k != Val::BASIC) continue;
        if (not idx.empty()) idx += ",";
        idx += std::to_string(i - 1);
        v.push_back(it->second.b);
    }
    return cmp_matrix_impl(v, idx);
}
static Val cmp_matrix_impl(const vec_basic &v, const std::string &idx)
{
    size_t n = v.size();
    std::string o = "{\"n\":" + std::to_string(n) + ",\"idx\":[" + idx + "],\"cmp\":[";
    RCPBasicKeyLess less;
    std::string eqs, ls, hs, errs;
    for (size_t i = 0; i < n; i++) {
        for (size_t j = 0; j < n; j++) {
            int r = 9;
            bool q = false, l = false;
#if defined(SYMENGINE_VERIF)
            try {
#endif
            try {
                r = v[i]->__cmp__(*v[j]);
            } catch (SymEngineException &ex) {
                r = 8;
            }
            try { q = eq(*v[i], *v[j]); } catch (SymEngineException &ex) { r = 8; }
            try { l = less(v[i], v[j]); } catch (SymEngineException &ex) { r = 8; }
#if defined(SYMENGINE_VERIF)
            } catch (SymEngine::verif::AssertionFailure &af) {
                r = 7; // assertion hook fired inside a comparison: pair is reported under C03
            }
#endif
            if (i + j) { o += ","; eqs += ","; ls += ","; }
            o += std::to_string(r);
            eqs += q ? "1" : "0";
            ls += l ? "1" : "0";
        }
        char buf[32];
        snprintf(buf, sizeof buf, "\"%016llx\"", (unsigned long long)v[i]->hash());
        if (i) hs += ",";
        hs += buf;
    }
    o += "],\"eq\":[" + eqs + "],\"less\":[" + ls + "],\"hash\":[" + hs + "]";
    // container probes: set_basic, unordered set
    set_basic sb;
    std::unordered_set<RCP<const Basic>, RCPBasicHash, RCPBasicKeyEq> us;
#if defined(SYMENGINE_VERIF)
    try {
#endif
    sb.insert(v.begin(), v.end());
    us.insert(v.begin(), v.end());
#if defined(SYMENGINE_VERIF)
    } catch (SymEngine::verif::AssertionFailure &af) {
        return Val::J(o + ",\"container_assert\":true}");
    }
#endif
    o += ",\"set_size\":" + std::to_string(sb.size()) + ",\"uset_size\":" + std::to_string(us.size());
    set_basic sb2(v.rbegin(), v.rend());
    bool same_iter = sb.size() == sb2.size();
    if (same_iter) {
        auto a = sb.begin(); auto b = sb2.begin();
        for (; a != sb.end(); ++a, ++b) if (not eq(**a, **b)) same_iter = false;
    }
    o += std::string(",\"set_order_indep\":") + (same_iter ? "true" : "false") + "}";
    return Val::J(o);
}
// sharing statistics of an expression DAG: nodes visited (tree size), distinct pointers, distinct classes under eq
static void walk_share(const RCP<const Basic> &b, std::unordered_set<const Basic *> &ptrs, set_basic &classes, long &total, int depth,
                       std::vector<RCP<const Basic>> &keep)
{
    total++;
    if (depth > 2000) return;
    if (ptrs.insert(b.get()).second) {
        keep.push_back(b);      // get_args() of sums and products returns temporaries: their addresses must not be reused during the walk
        classes.insert(b);
        for (const auto &a : b->get_args()) walk_share(a, ptrs, classes, total, depth + 1, keep);
    }
}
SXOP(sharing)
{
    std::unordered_set<const Basic *> ptrs;
    set_basic classes;
    std::vector<RCP<const Basic>> keep;
    long total = 0;
    walk_share(c.B(e, 1), ptrs, classes, total, 0, keep);
    return Val::J("{\"visits\":" + std::to_string(total) + ",\"ptrs\":" + std::to_string(ptrs.size()) + ",\"classes\":" + std::to_string(classes.size()) + "}");
}

// ---- structural queries
static Val setval(const set_basic &s) { return Val::V(vec_basic(s.begin(), s.end())); }
SXOPN(free_symbols_, "free_symbols") { return setval(free_symbols(*c.B(e, 1))); }
SXOPN(function_symbols_, "function_symbols") { return setval(function_symbols(*c.B(e, 1))); }
SXOPN(has_symbol_, "has_symbol") { return Val::T(has_symbol(*c.B(e, 1), *c.B(e, 2))); }
SXOPN(has_basic_, "has_basic") { return Val::T(has_basic(*c.B(e, 1), *c.B(e, 2))); }
SXOPN(coeff_, "coeff") { return Val::B(coeff(*c.B(e, 1), *c.B(e, 2), *c.B(e, 3))); }
SXOP(get_args) { return Val::V(c.B(e, 1)->get_args()); }
SXOP(atoms_symbol) { return setval(atoms<Symbol>(*c.B(e, 1))); }
SXOP(atoms_number) { return setval(atoms<Number>(*c.B(e, 1))); }
SXOP(atoms_func) { return setval(atoms<FunctionSymbol>(*c.B(e, 1))); }
SXOP(atoms_sym_func) { return setval(atoms<Symbol, FunctionSymbol>(*c.B(e, 1))); }
SXOP(atoms_const) { return setval(atoms<Constant>(*c.B(e, 1))); }
SXOPN(count_ops_, "count_ops") { return Val::I(count_ops(c.VEC(e, 1))); }
SXOP(type_name) { return Val::S(type_code_name(c.B(e, 1)->get_type_code())); }

// ---- numeric evaluation
SXOPN(eval_double_, "eval_double") { return Val::D(eval_double(*c.B(e, 1))); }
SXOPN(eval_double_sd, "eval_double_sd") { return Val::D(eval_double_single_dispatch(*c.B(e, 1))); }
SXOPN(eval_double_vp, "eval_double_vp") { return Val::D(eval_double_visitor_pattern(*c.B(e, 1))); }
SXOPN(eval_complex_double_, "eval_complex_double")
{
    std::complex<double> z = eval_complex_double(*c.B(e, 1));
    return Val::L({Val::D(z.real()), Val::D(z.imag())});
}
SXOPN(evalf_, "evalf")
{ // (evalf expr bits real|complex|any)
    std::string dom = e.n() > 3 ? c.S(e, 3) : "real";
    EvalfDomain d = dom == "real" ? EvalfDomain::Real : (dom == "complex" ? EvalfDomain::Complex : EvalfDomain::Symbolic);
    return Val::B(evalf(*c.B(e, 1), c.I(e, 2), d));
}

// ---- printing
SXOPN(str__, "str") { return Val::S(c.B(e, 1)->__str__()); }
SXOPN(pstr, "print_str") { return Val::S(str(*c.B(e, 1))); }
SXOPN(latex_, "latex") { return Val::S(latex(*c.B(e, 1))); }
SXOPN(mathml_, "mathml") { return Val::S(mathml(*c.B(e, 1))); }
SXOPN(unicode_, "unicode") { return Val::S(unicode(*c.B(e, 1))); }
SXOPN(julia_, "julia_str") { return Val::S(julia_str(*c.B(e, 1))); }
SXOPN(sbml_, "sbml") { return Val::S(sbml(*c.B(e, 1))); }
SXOPN(ccode_, "ccode")
{
    if (e.n() > 2 and c.S(e, 2) == "float") return Val::S(ccode(*c.B(e, 1), CodePrinterPrecision::Float));
    return Val::S(ccode(*c.B(e, 1)));
}
SXOPN(c89code_, "c89code") { C89CodePrinter p(e.n() > 2 and c.S(e, 2) == "float" ? CodePrinterPrecision::Float : CodePrinterPrecision::Double); return Val::S(p.apply(*c.B(e, 1))); }
SXOPN(c99code_, "c99code") { C99CodePrinter p(e.n() > 2 and c.S(e, 2) == "float" ? CodePrinterPrecision::Float : CodePrinterPrecision::Double); return Val::S(p.apply(*c.B(e, 1))); }
SXOPN(jscode_, "jscode") { return Val::S(jscode(*c.B(e, 1))); }
SXOPN(cudacode_, "cudacode") { return Val::S(cudacode(*c.B(e, 1))); }
SXOPN(metalcode_, "metalcode") { return Val::S(metalcode(*c.B(e, 1), CodePrinterPrecision::Float)); }

// ---- parsing
SXOPN(parse_, "parse")
{
    bool cx = e.n() > 2 ? c.T(e, 2) : true;
    return Val::B(parse(c.S(e, 1), cx));
}
SXOPN(parse_old_, "parse_old") { return Val::B(parse_old(c.S(e, 1))); }
SXOPN(parse_sbml_, "parse_sbml") { return Val::B(parse_sbml(c.S(e, 1))); }
SXOP(parser_new) { return Val::O("parser", std::make_shared<Parser>()); }
SXOP(parser_parse)
{
    Val p = c.A(e, 1);
    bool cx = e.n() > 3 ? c.T(e, 3) : true;
    return Val::B(p.as<Parser>("parser")->parse(c.S(e, 2), cx));
}
SXOP(sbml_parser_new) { return Val::O("sbmlparser", std::make_shared<SbmlParser>()); }
SXOP(sbml_parser_parse)
{
    Val p = c.A(e, 1);
    return Val::B(p.as<SbmlParser>("sbmlparser")->parse(c.S(e, 2)));
}

// ---- serialization
static std::string tohex(const std::string &s)
{
    static const char *hx = "0123456789abcdef";
    std::string o;
    for (unsigned char ch : s) { o += hx[ch >> 4]; o += hx[ch & 15]; }
    return o;
}
static std::string fromhex(const std::string &s)
{
    std::string o;
    for (size_t i = 0; i + 1 < s.size(); i += 2) o += char(strtol(s.substr(i, 2).c_str(), nullptr, 16));
    return o;
}
SXOP(dumps) { return Val::S(tohex(c.B(e, 1)->dumps())); }
SXOP(loads) { return Val::B(Basic::loads(fromhex(c.S(e, 1)))); }
SXOP(roundtrip) { return Val::B(Basic::loads(c.B(e, 1)->dumps())); }

// (eq_all v): compares element 0 with every element: eq both directions, same str, same hash
SXOP(eq_all)
{
    vec_basic v = c.VEC(e, 1);
    std::string o = "{\"eq\":[", s = "\"str\":[", h = "\"hash\":[";
    for (size_t i = 0; i < v.size(); i++) {
        if (i) { o += ","; s += ","; h += ","; }
        bool q = eq(*v[0], *v[i]) and eq(*v[i], *v[0]);
        o += q ? "1" : "0";
        s += (v[0]->__str__() == v[i]->__str__()) ? "1" : "0";
        h += (v[0]->hash() == v[i]->hash()) ? "1" : "0";
    }
    return Val::J(o + "]," + s + "]," + h + "]}");
}
// (eq_all_regs r0 r1 ...): like eq_all on the bound registers; reports which were bound
SXOP(eq_all_regs)
{
    vec_basic v;
    std::string idx;
    for (size_t i = 1; i < e.n(); i++) {
        auto it = c.regs.find(e.l[i].a);
        if (it == c.regs.end() or it->second.k != Val::BASIC) continue;
        if (not idx.empty()) idx += ",";
        idx += std::to_string(i - 1);
        v.push_back(it->second.b);
    }
    std::string o = "{\"idx\":[" + idx + "],\"eq\":[", s = "\"str\":[", h = "\"hash\":[";
    for (size_t i = 0; i < v.size(); i++) {
        if (i) { o += ","; s += ","; h += ","; }
        bool q = eq(*v[0], *v[i]) and eq(*v[i], *v[0]);
        o += q ? "1" : "0";
        s += (v[0]->__str__() == v[i]->__str__()) ? "1" : "0";
        h += (v[0]->hash() == v[i]->hash()) ? "1" : "0";
    }
    return Val::J(o + "]," + s + "]," + h + "]}");
}

// ---- common subexpression elimination: (cse (vec e1 e2 ...)) -> {"repl":[[sym, body]...], "reduced":[...]} as tree dumps
#include <symengine/visitor.h>
SXOPN(cse_, "cse")
{
    vec_basic exprs = c.VEC(e, 1);
    vec_pair repl;
    vec_basic reduced;
    cse(repl, reduced, exprs);
    std::string o = "{\"repl\":[";
    for (size_t i = 0; i < repl.size(); i++) {
        o += (i ? "," : "") + std::string("[") + dump_tree(*repl[i].first) + "," + dump_tree(*repl[i].second) + "," + jstr(repl[i].second->__str__()) + "]";
    }
    o += "],\"reduced\":[";
    for (size_t i = 0; i < reduced.size(); i++) o += (i ? "," : "") + dump_tree(*reduced[i]);
    o += "],\"n_in\":" + std::to_string(exprs.size()) + "}";
    return Val::J(o);
}
