// Operators: sets, polynomials (UIntPoly, URatPoly, UExprPoly, MIntPoly, MExprPoly), matrix expressions
#include "sx.h"
#include <symengine/logic.h>
#include <symengine/sets.h>
#include <symengine/polys/uintpoly.h>
#include <symengine/polys/uratpoly.h>
#include <symengine/polys/uexprpoly.h>
#include <symengine/polys/msymenginepoly.h>
#include <symengine/polys/basic_conversions.h>
#include <symengine/matrix_expressions.h>
#include <symengine/expression.h>

using namespace SymEngine;
using namespace sx;

// ------------------------------------------------------------------ sets
SXOPN(interval_, "interval")
{ // (interval a b lopen ropen)
    bool lo = e.n() > 3 ? c.T(e, 3) : false, ro = e.n() > 4 ? c.T(e, 4) : false;
    return Val::B(interval(c.N(e, 1), c.N(e, 2), lo, ro));
}
SXOPN(finiteset_, "finiteset")
{
    set_basic s;
    for (size_t i = 1; i < e.n(); i++) s.insert(c.B(e, i));
    return Val::B(finiteset(s));
}
SXOP(setconst)
{
    std::string n = c.S(e, 1);
    if (n == "emptyset") return Val::B(emptyset());
    if (n == "universalset") return Val::B(universalset());
    if (n == "reals") return Val::B(reals());
    if (n == "rationals") return Val::B(rationals());
    if (n == "integers") return Val::B(integers());
    if (n == "naturals") return Val::B(naturals());
    if (n == "naturals0") return Val::B(naturals0());
    if (n == "complexes") return Val::B(complexes());
    throw HarnessError{"unknown set " + n};
}
static set_set setset(Ctx &c, const Sx &e, size_t from)
{
    set_set s;
    for (size_t i = from; i < e.n(); i++) s.insert(c.SET(e, i));
    return s;
}
SXOPN(set_union_, "set_union") { return Val::B(set_union(setset(c, e, 1))); }
SXOPN(set_intersection_, "set_intersection") { return Val::B(set_intersection(setset(c, e, 1))); }
SXOPN(set_complement_, "set_complement") { return Val::B(set_complement(c.SET(e, 1), c.SET(e, 2))); }
SXOP(m_set_union) { return Val::B(c.SET(e, 1)->set_union(c.SET(e, 2))); }
SXOP(m_set_intersection) { return Val::B(c.SET(e, 1)->set_intersection(c.SET(e, 2))); }
SXOP(m_set_complement) { return Val::B(c.SET(e, 1)->set_complement(c.SET(e, 2))); }
SXOP(m_contains) { return Val::B(c.SET(e, 1)->contains(c.B(e, 2))); }
SXOPN(sup_, "sup") { return Val::B(sup(*c.SET(e, 1))); }
SXOPN(inf_, "inf") { return Val::B(inf(*c.SET(e, 1))); }
SXOPN(boundary_, "boundary") { return Val::B(boundary(*c.SET(e, 1))); }
SXOPN(interior_, "interior") { return Val::B(interior(*c.SET(e, 1))); }
SXOPN(closure_, "closure") { return Val::B(closure(*c.SET(e, 1))); }
SXOPN(imageset_, "imageset") { return Val::B(imageset(c.B(e, 1), c.B(e, 2), c.SET(e, 3))); }
SXOPN(conditionset_, "conditionset") { return Val::B(conditionset(c.B(e, 1), c.BOOLE(e, 2))); }

// ------------------------------------------------------------------ univariate polynomials
// (uintpoly var (exp coef)...)
SXOP(uintpoly)
{
    map_uint_mpz d;
    for (size_t i = 2; i < e.n(); i++) d[(unsigned)c.I(e.l[i], 0)] = c.Z(e.l[i], 1);
    return Val::B(UIntPoly::from_dict(c.B(e, 1), std::move(d)));
}
static rational_class Qarg(Ctx &c, const Sx &e, size_t i)
{
    RCP<const Basic> b = c.B(e, i);
    if (is_a<Integer>(*b)) return rational_class(down_cast<const Integer &>(*b).as_integer_class());
    if (is_a<Rational>(*b)) return down_cast<const Rational &>(*b).as_rational_class();
    throw HarnessError{"rational coefficient expected"};
}
SXOP(uratpoly)
{
    map_uint_mpq d;
    for (size_t i = 2; i < e.n(); i++) d[(unsigned)c.I(e.l[i], 0)] = Qarg(c, e.l[i], 1);
    return Val::B(URatPoly::from_dict(c.B(e, 1), std::move(d)));
}
SXOP(uexprpoly)
{
    map_int_Expr d;
    for (size_t i = 2; i < e.n(); i++) d[(int)c.I(e.l[i], 0)] = Expression(c.B(e.l[i], 1));
    return Val::B(UExprPoly::from_dict(c.B(e, 1), std::move(d)));
}
SXOP(uintpoly_vec)
{ // (uintpoly_vec var c0 c1 ...)
    std::vector<integer_class> v;
    for (size_t i = 2; i < e.n(); i++) v.push_back(c.Z(e, i));
    return Val::B(UIntPoly::from_vec(c.B(e, 1), v));
}
template <class P> static RCP<const P> PP(Ctx &c, const Sx &e, size_t i)
{
    RCP<const Basic> b = c.B(e, i);
    if (not is_a<P>(*b)) throw HarnessError{"polynomial of the wrong type"};
    return rcp_static_cast<const P>(b);
}
#define UPOLY_OPS(P, pfx) \
    SXOPN(pfx##_add, #pfx "_add") { return Val::B(add_upoly(*PP<P>(c, e, 1), *PP<P>(c, e, 2))); } \
    SXOPN(pfx##_sub, #pfx "_sub") { return Val::B(sub_upoly(*PP<P>(c, e, 1), *PP<P>(c, e, 2))); } \
    SXOPN(pfx##_mul, #pfx "_mul") { return Val::B(mul_upoly(*PP<P>(c, e, 1), *PP<P>(c, e, 2))); } \
    SXOPN(pfx##_neg, #pfx "_neg") { return Val::B(neg_upoly(*PP<P>(c, e, 1))); } \
    SXOPN(pfx##_pow, #pfx "_pow") { return Val::B(pow_upoly(*PP<P>(c, e, 1), (unsigned)c.I(e, 2))); } \
    SXOPN(pfx##_degree, #pfx "_degree") { return Val::I(PP<P>(c, e, 1)->get_degree()); } \
    SXOPN(pfx##_as_symbolic, #pfx "_as_symbolic") { return Val::B(PP<P>(c, e, 1)->as_symbolic()); } \
    SXOPN(pfx##_from_basic, #pfx "_from_basic") { return Val::B(from_basic<P>(c.B(e, 1), c.B(e, 2))); } \
    SXOPN(pfx##_from_basic_auto, #pfx "_from_basic_auto") { return Val::B(from_basic<P>(c.B(e, 1))); }
UPOLY_OPS(UIntPoly, uint)
UPOLY_OPS(URatPoly, urat)
UPOLY_OPS(UExprPoly, uexpr)
SXOP(uint_divides)
{
    RCP<const UIntPoly> q;
    bool r = divides_upoly(*PP<UIntPoly>(c, e, 1), *PP<UIntPoly>(c, e, 2), outArg(q));
    std::vector<Val> out{Val::T(r)};
    if (r) out.push_back(Val::B(q));
    return Val::L(out);
}
SXOP(urat_divides)
{
    RCP<const URatPoly> q;
    bool r = divides_upoly(*PP<URatPoly>(c, e, 1), *PP<URatPoly>(c, e, 2), outArg(q));
    std::vector<Val> out{Val::T(r)};
    if (r) out.push_back(Val::B(q));
    return Val::L(out);
}
SXOP(uint_eval) { return Val::B(integer(PP<UIntPoly>(c, e, 1)->eval(c.Z(e, 2)))); }
SXOP(urat_eval) { return Val::B(Rational::from_mpq(PP<URatPoly>(c, e, 1)->eval(Qarg(c, e, 2)))); }
SXOP(uexpr_eval) { return Val::B(PP<UExprPoly>(c, e, 1)->eval(Expression(c.B(e, 2))).get_basic()); }
SXOP(uint_multieval)
{
    std::vector<integer_class> v;
    for (size_t i = 2; i < e.n(); i++) v.push_back(c.Z(e, i));
    std::vector<integer_class> r = PP<UIntPoly>(c, e, 1)->multieval(v);
    vec_basic out;
    for (auto &x : r) out.push_back(integer(x));
    return Val::V(out);
}
SXOP(uint_get_coeff) { return Val::B(integer(PP<UIntPoly>(c, e, 1)->get_coeff((unsigned)c.I(e, 2)))); }
SXOP(urat_get_coeff) { return Val::B(Rational::from_mpq(PP<URatPoly>(c, e, 1)->get_coeff((unsigned)c.I(e, 2)))); }
SXOP(uexpr_get_coeff) { return Val::B(PP<UExprPoly>(c, e, 1)->get_coeff((int)c.I(e, 2)).get_basic()); }
SXOP(uint_eval_bit) { return Val::B(integer(PP<UIntPoly>(c, e, 1)->get_poly().eval_bit((unsigned)c.I(e, 2)))); }
SXOP(uint_max_abs_coef) { return Val::B(integer(PP<UIntPoly>(c, e, 1)->get_poly().max_abs_coef())); }
SXOP(urat_from_uint) { return Val::B(URatPoly::from_poly(*PP<UIntPoly>(c, e, 1))); }
SXOP(uexpr_max_coef) { return Val::B(PP<UExprPoly>(c, e, 1)->max_coef().get_basic()); }

// ------------------------------------------------------------------ multivariate polynomials
// (mintpoly (vars...) ((e1 e2 ...) coef)...)
SXOP(mintpoly)
{
    vec_basic vars;
    const Sx &vs = e.l.at(1);
    for (size_t i = 0; i < vs.n(); i++) vars.push_back(c.B(vs, i));
    umap_uvec_mpz d;
    for (size_t i = 2; i < e.n(); i++) {
        vec_uint ex;
        const Sx &es = e.l[i].l.at(0);
        for (size_t j = 0; j < es.n(); j++) ex.push_back((unsigned)c.I(es, j));
        d[ex] = c.Z(e.l[i], 1);
    }
    return Val::B(MIntPoly::from_dict(vars, std::move(d)));
}
SXOP(mexprpoly)
{
    vec_basic vars;
    const Sx &vs = e.l.at(1);
    for (size_t i = 0; i < vs.n(); i++) vars.push_back(c.B(vs, i));
    umap_vec_expr d;
    for (size_t i = 2; i < e.n(); i++) {
        vec_int ex;
        const Sx &es = e.l[i].l.at(0);
        for (size_t j = 0; j < es.n(); j++) ex.push_back((int)c.I(es, j));
        d[ex] = Expression(c.B(e.l[i], 1));
    }
    return Val::B(MExprPoly::from_dict(vars, std::move(d)));
}
#define MPOLY_OPS(P, pfx) \
    SXOPN(pfx##_add, #pfx "_add") { return Val::B(add_mpoly(*PP<P>(c, e, 1), *PP<P>(c, e, 2))); } \
    SXOPN(pfx##_sub, #pfx "_sub") { return Val::B(sub_mpoly(*PP<P>(c, e, 1), *PP<P>(c, e, 2))); } \
    SXOPN(pfx##_mul, #pfx "_mul") { return Val::B(mul_mpoly(*PP<P>(c, e, 1), *PP<P>(c, e, 2))); } \
    SXOPN(pfx##_neg, #pfx "_neg") { return Val::B(neg_mpoly(*PP<P>(c, e, 1))); } \
    SXOPN(pfx##_pow, #pfx "_pow") { return Val::B(pow_mpoly(*PP<P>(c, e, 1), (unsigned)c.I(e, 2))); } \
    SXOPN(pfx##_as_symbolic, #pfx "_as_symbolic") { return Val::B(PP<P>(c, e, 1)->as_symbolic()); }
MPOLY_OPS(MIntPoly, mint)
MPOLY_OPS(MExprPoly, mexpr)
SXOP(mint_from_basic)
{
    set_basic gens;
    for (size_t i = 2; i < e.n(); i++) gens.insert(c.B(e, i));
    return Val::B(from_basic<MIntPoly>(c.B(e, 1), gens));
}
SXOP(mexpr_from_basic)
{
    set_basic gens;
    for (size_t i = 2; i < e.n(); i++) gens.insert(c.B(e, i));
    return Val::B(from_basic<MExprPoly>(c.B(e, 1), gens));
}
SXOP(mint_from_basic_auto) { return Val::B(from_basic<MIntPoly>(c.B(e, 1))); }
SXOP(mint_from_uint) { return Val::B(MIntPoly::from_poly(*PP<UIntPoly>(c, e, 1))); }
SXOP(mexpr_from_uexpr) { return Val::B(MExprPoly::from_poly(*PP<UExprPoly>(c, e, 1))); }
SXOP(mint_eval)
{ // (mint_eval poly (sym val)...)
    std::map<RCP<const Basic>, integer_class, RCPBasicKeyLess> vals;
    for (size_t i = 2; i < e.n(); i++) vals[c.B(e.l[i], 0)] = c.Z(e.l[i], 1);
    return Val::B(integer(PP<MIntPoly>(c, e, 1)->eval(vals)));
}
SXOP(mexpr_eval)
{
    std::map<RCP<const Basic>, Expression, RCPBasicKeyLess> vals;
    for (size_t i = 2; i < e.n(); i++) vals[c.B(e.l[i], 0)] = Expression(c.B(e.l[i], 1));
    return Val::B(PP<MExprPoly>(c, e, 1)->eval(vals).get_basic());
}

// ------------------------------------------------------------------ matrix expressions
SXOPN(identity_matrix_, "identity_matrix") { return Val::B(identity_matrix(c.B(e, 1))); }
SXOPN(zero_matrix_, "zero_matrix") { return Val::B(zero_matrix(c.B(e, 1), c.B(e, 2))); }
SXOPN(matrix_symbol_, "matrix_symbol") { return Val::B(matrix_symbol(c.S(e, 1))); }
SXOPN(diagonal_matrix_, "diagonal_matrix") { return Val::B(diagonal_matrix(c.REST(e, 1))); }
SXOPN(immutable_dense_matrix_, "immutable_dense_matrix") { return Val::B(immutable_dense_matrix((size_t)c.I(e, 1), (size_t)c.I(e, 2), c.REST(e, 3))); }
SXOPN(matrix_add_, "matrix_add") { return Val::B(matrix_add(c.REST(e, 1))); }
SXOPN(matrix_mul_, "matrix_mul") { return Val::B(matrix_mul(c.REST(e, 1))); }
SXOPN(hadamard_product_, "hadamard_product") { return Val::B(hadamard_product(c.REST(e, 1))); }
static RCP<const MatrixExpr> MX(Ctx &c, const Sx &e, size_t i)
{
    RCP<const Basic> b = c.B(e, i);
    if (not is_a_MatrixExpr(*b)) throw HarnessError{"matrix expression expected"};
    return rcp_static_cast<const MatrixExpr>(b);
}
SXOPN(mtranspose_, "mx_transpose") { return Val::B(transpose(MX(c, e, 1))); }
SXOPN(mconj_, "mx_conjugate") { return Val::B(conjugate_matrix(MX(c, e, 1))); }
SXOPN(mtrace_, "mx_trace") { return Val::B(trace(MX(c, e, 1))); }
static Val tri2(tribool t) { return Val::S(is_true(t) ? "true" : (is_false(t) ? "false" : "indet")); }
SXOP(mx_is_zero) { return tri2(is_zero(*MX(c, e, 1))); }
SXOP(mx_is_real) { return tri2(is_real(*MX(c, e, 1))); }
SXOP(mx_is_symmetric) { return tri2(is_symmetric(*MX(c, e, 1))); }
SXOP(mx_is_square) { return tri2(is_square(*MX(c, e, 1))); }
SXOP(mx_is_diagonal) { return tri2(is_diagonal(*MX(c, e, 1))); }
SXOP(mx_is_lower) { return tri2(is_lower(*MX(c, e, 1))); }
SXOP(mx_is_upper) { return tri2(is_upper(*MX(c, e, 1))); }
SXOP(mx_is_toeplitz) { return tri2(is_toeplitz(*MX(c, e, 1))); }
SXOP(mx_size)
{
    auto sz = size(*MX(c, e, 1));
    return Val::V({sz.first, sz.second});
}
