"""Oracle E: independent high-precision evaluation (mpmath) of tree dumps produced by the executor
and of recipes produced by the generators.  Principal branches, mpmath conventions."""
import mpmath
from mpmath import mp, mpf, mpc
from fractions import Fraction
from .core import bits_to_float


class Unsupported(Exception):
    pass


class Undefined(Exception):
    """Evaluation hit an indeterminate form / pole: the point is unusable."""


ZOO = 'zoo'


def _frac(s):
    if '/' in s:
        a, b = s.split('/')
        return mpf(int(a)) / mpf(int(b))
    return mpf(int(s))


def is_finite(v):
    if isinstance(v, bool):
        return True
    if v is ZOO:
        return False
    try:
        return bool(mp.isfinite(v))
    except Exception:
        return False


def kind_of(v):
    """Classify a value: 'finite', 'nan', 'zoo', '+inf', '-inf', 'cinf'"""
    if v is ZOO:
        return 'zoo'
    if isinstance(v, bool):
        return 'finite'
    if mp.isnan(v):
        return 'nan'
    if mp.isinf(v):
        if isinstance(v, mpc) and v.imag != 0:
            return 'cinf'
        re = v.real if isinstance(v, mpc) else v
        return '+inf' if re > 0 else '-inf'
    return 'finite'


def _isint(e):
    if isinstance(e, mpc):
        if e.imag != 0:
            return False
        e = e.real
    return mp.isfinite(e) and e == mp.floor(e) and abs(e) < 10 ** 7


def _real(v):
    if isinstance(v, mpc):
        if v.imag != 0:
            # tolerate rounding dust
            if abs(v.imag) > mpf(10) ** (-mp.dps + 8) * max(1, abs(v.real)):
                raise Undefined('real value needed')
        return v.real
    return v


def power(b, e):
    if b is ZOO or e is ZOO:
        raise Undefined('zoo in power')
    if _isint(e):
        n = int(e.real if isinstance(e, mpc) else e)
        if b == 0:
            if n > 0:
                return mpf(0)
            if n == 0:
                return mpf(1)
            return ZOO
        return mp.power(b, n)
    if b == 0:
        er = e.real if isinstance(e, mpc) else e
        if er > 0:
            return mpf(0)
        if er < 0:
            return ZOO
        raise Undefined('0**imaginary')
    return mp.exp(e * mp.log(b))


def _cx(v):
    if v is ZOO:
        raise Undefined('zoo operand')
    return v


def _atan2(y, x):
    y = _cx(y)
    x = _cx(x)
    if (not isinstance(y, mpc) or y.imag == 0) and (not isinstance(x, mpc) or x.imag == 0):
        yr, xr = _real(y), _real(x)
        if yr == 0 and xr == 0:
            raise Undefined('atan2(0,0)')
        return mp.atan2(yr, xr)
    d = mp.sqrt(x * x + y * y)
    if d == 0:
        raise Undefined('atan2 on null cone')
    return -1j * mp.log((x + 1j * y) / d)


def _floor(v):
    v = _cx(v)
    if isinstance(v, mpc) and v.imag != 0:
        return mpc(mp.floor(v.real), mp.floor(v.imag))
    return mp.floor(_real(v))


def _ceil(v):
    v = _cx(v)
    if isinstance(v, mpc) and v.imag != 0:
        return mpc(mp.ceil(v.real), mp.ceil(v.imag))
    return mp.ceil(_real(v))


def _trunc(v):
    v = _cx(v)

    def t(r):
        return mp.floor(r) if r >= 0 else mp.ceil(r)
    if isinstance(v, mpc) and v.imag != 0:
        return mpc(t(v.real), t(v.imag))
    return t(_real(v))


def _sign(v):
    v = _cx(v)
    if v == 0:
        return mpf(0)
    return v / abs(v)


def _wrap1(f):
    def g(v):
        v = _cx(v)
        try:
            return f(v)
        except ZeroDivisionError:
            raise Undefined('pole')
        except ValueError as ex:
            raise Undefined(str(ex))
    return g


def _acot(v):
    if v == 0:
        return mp.pi / 2
    return mp.atan(1 / v)


def _acoth(v):
    if v == 0:
        return mpc(0, mp.pi / 2)
    return mp.atanh(1 / v)


def _asec(v):
    if v == 0:
        raise Undefined('asec(0)')
    return mp.acos(1 / v)


def _acsc(v):
    if v == 0:
        raise Undefined('acsc(0)')
    return mp.asin(1 / v)


def _asech(v):
    if v == 0:
        raise Undefined('asech(0)')
    return mp.acosh(1 / v)


def _acsch(v):
    if v == 0:
        raise Undefined('acsch(0)')
    return mp.asinh(1 / v)


FUNC1 = {
    'Sin': mp.sin, 'Cos': mp.cos, 'Tan': mp.tan, 'Cot': mp.cot, 'Csc': mp.csc, 'Sec': mp.sec,
    'ASin': mp.asin, 'ACos': mp.acos, 'ATan': mp.atan, 'ACot': _acot, 'ASec': _asec, 'ACsc': _acsc,
    'Sinh': mp.sinh, 'Cosh': mp.cosh, 'Tanh': mp.tanh, 'Coth': mp.coth, 'Csch': mp.csch, 'Sech': mp.sech,
    'ASinh': mp.asinh, 'ACosh': mp.acosh, 'ATanh': mp.atanh, 'ACoth': _acoth, 'ACsch': _acsch, 'ASech': _asech,
    'Log': mp.log, 'Abs': lambda v: abs(v), 'Conjugate': mp.conj, 'Gamma': mp.gamma, 'LogGamma': mp.loggamma,
    'Erf': mp.erf, 'Erfc': mp.erfc, 'LambertW': mp.lambertw, 'Dirichlet_eta': mp.altzeta,
    'Exp': mp.exp,
}
FUNC1 = {k: _wrap1(v) for k, v in FUNC1.items()}
FUNC1.update({'Sign': _sign, 'Floor': _floor, 'Ceiling': _ceil, 'Truncate': _trunc})

RECIPE_NAMES = {
    'sin': 'Sin', 'cos': 'Cos', 'tan': 'Tan', 'cot': 'Cot', 'csc': 'Csc', 'sec': 'Sec',
    'asin': 'ASin', 'acos': 'ACos', 'atan': 'ATan', 'acot': 'ACot', 'asec': 'ASec', 'acsc': 'ACsc',
    'sinh': 'Sinh', 'cosh': 'Cosh', 'tanh': 'Tanh', 'coth': 'Coth', 'csch': 'Csch', 'sech': 'Sech',
    'asinh': 'ASinh', 'acosh': 'ACosh', 'atanh': 'ATanh', 'acoth': 'ACoth', 'acsch': 'ACsch', 'asech': 'ASech',
    'log': 'Log', 'abs': 'Abs', 'conjugate': 'Conjugate', 'gamma': 'Gamma', 'loggamma': 'LogGamma',
    'erf': 'Erf', 'erfc': 'Erfc', 'lambertw': 'LambertW', 'dirichlet_eta': 'Dirichlet_eta', 'exp': 'Exp',
    'sign': 'Sign', 'floor': 'Floor', 'ceiling': 'Ceiling', 'truncate': 'Truncate',
}

CONSTS = {
    'pi': lambda: +mp.pi, 'E': lambda: +mp.e, 'EulerGamma': lambda: +mp.euler, 'Catalan': lambda: +mp.catalan,
    'GoldenRatio': lambda: (1 + mp.sqrt(5)) / 2,
}

_PRIMES_CACHE = [2, 3]


def _primes_upto(n):
    n = int(n)
    if n < 2:
        return []
    sieve = bytearray([1]) * (n + 1)
    sieve[0:2] = b'\0\0'
    for i in range(2, int(n ** 0.5) + 1):
        if sieve[i]:
            sieve[i * i::i] = bytearray(len(sieve[i * i::i]))
    return [i for i in range(n + 1) if sieve[i]]


def _interp(kind):
    """Fixed analytic interpretations of uninterpreted function symbols (any identity between expressions must survive them)."""
    def f(*a):
        t = sum((i + 1) * x for i, x in enumerate(a))
        if kind == 0:
            return mpmath.sin(t) * mpmath.exp(a[0] / 3) + mpf(1) / 7
        if kind == 1:
            return mpmath.cos(2 * t + mpf(1) / 3) + a[0] * a[0] / 5
        return mpmath.exp(t / 4) - mpmath.sin(t / 2) * a[-1]
    return f


DEFAULT_FUNCS = {'f': _interp(0), 'g': _interp(1), 'h': _interp(2), 'F': _interp(1), 'G': _interp(2)}


class Evaluator:
    def __init__(self, env=None, funcs=None):
        self.env = env or {}
        self.funcs = DEFAULT_FUNCS if funcs is None else funcs

    # ---- numeric value of a node
    def ev(self, t):
        name = t[0]
        m = getattr(self, 'n_' + name, None)
        if m is not None:
            return m(t)
        f = FUNC1.get(name)
        if f is not None:
            a = self.ev(t[1])
            return f(a)
        r = RECIPE_NAMES.get(name)
        if r is not None:
            return FUNC1[r](self.ev(t[1]))
        raise Unsupported(name)

    # leaves
    def n_Integer(self, t):
        return mpf(int(t[1]))

    def n_int(self, t):
        return mpf(int(t[1]))

    def n_Rational(self, t):
        return mpf(int(t[1])) / mpf(int(t[2]))

    def n_rat(self, t):
        if int(t[2]) == 0:
            raise Undefined('rat x/0')
        return mpf(int(t[1])) / mpf(int(t[2]))

    def n_Complex(self, t):
        return mpc(_frac(t[1]), _frac(t[2]))

    def n_cpx(self, t):
        return mpc(_real(self.ev(t[1])), _real(self.ev(t[2])))

    def n_RealDouble(self, t):
        return mpf(bits_to_float(t[1]))

    def n_real(self, t):
        x = t[1]
        if isinstance(x, float):
            return mpf(x)
        if isinstance(x, str) and x.startswith('h:'):
            return mpf(bits_to_float(x[2:]))
        return mpf(float(x))

    def n_ComplexDouble(self, t):
        return mpc(bits_to_float(t[1]), bits_to_float(t[2]))

    def n_cdbl(self, t):
        def g(x):
            if isinstance(x, float):
                return x
            if isinstance(x, str) and x.startswith('h:'):
                return bits_to_float(x[2:])
            return float(x)
        return mpc(g(t[1]), g(t[2]))

    def n_RealMPFR(self, t):
        # t = [name, prec, hexdigits, exp]
        digits = t[2]
        neg = digits.startswith('-')
        if neg:
            digits = digits[1:]
        if digits.startswith('@'):
            if 'Inf' in digits:
                return -mp.inf if neg else mp.inf
            return mp.nan
        mant = int(digits, 16) if digits else 0
        ex = int(t[3])
        v = mpf(mant) * mpf(16) ** (ex - len(digits))
        return -v if neg else v

    def n_ComplexMPC(self, t):
        return mpc(self.ev(t[2]), self.ev(t[3]))

    def n_Infty(self, t):
        d = self.ev(t[1])
        if d == 0:
            return ZOO
        if d == 1:
            return mp.inf
        if d == -1:
            return -mp.inf
        raise Unsupported('complex directed infinity')

    def n_NaN(self, t):
        return mp.nan

    def n_Symbol(self, t):
        try:
            return self.env[t[1]]
        except KeyError:
            raise Unsupported('unbound symbol ' + t[1])
    n_sym = n_Symbol
    n_Dummy = n_Symbol

    def n_Constant(self, t):
        try:
            return CONSTS[t[1]]()
        except KeyError:
            raise Unsupported('constant ' + t[1])

    def n_const(self, t):
        n = t[1]
        if n in CONSTS:
            return CONSTS[n]()
        if n == 'I':
            return mpc(0, 1)
        if n == 'oo':
            return mp.inf
        if n == '-oo':
            return -mp.inf
        if n == 'zoo':
            return ZOO
        if n == 'nan':
            return mp.nan
        if n == 'zero':
            return mpf(0)
        if n == 'one':
            return mpf(1)
        if n == 'minus_one':
            return mpf(-1)
        if n == 'true':
            return True
        if n == 'false':
            return False
        raise Unsupported('const ' + n)

    # arithmetic (dump form)
    def n_Add(self, t):
        s = self.ev(t[1])
        if s is ZOO:
            raise Undefined('zoo')
        for term in t[2:]:
            k = self.ev(term[1])
            c = self.ev(term[2])
            if k is ZOO or c is ZOO:
                raise Undefined('zoo')
            s = s + k * c
        return s

    def n_Mul(self, t):
        p = self.ev(t[1])
        if p is ZOO:
            raise Undefined('zoo')
        for term in t[2:]:
            b = self.ev(term[1])
            e = self.ev(term[2])
            v = power(b, e)
            if v is ZOO:
                raise Undefined('zoo factor')
            p = p * v
        return p

    def n_Pow(self, t):
        return power(self.ev(t[1]), self.ev(t[2]))

    # arithmetic (recipe form)
    def n_add(self, t):
        s = mpf(0)
        for a in t[1:]:
            v = self.ev(a)
            if v is ZOO:
                raise Undefined('zoo')
            s = s + v
        return s
    n_addv = n_add

    def n_mul(self, t):
        s = mpf(1)
        for a in t[1:]:
            v = self.ev(a)
            if v is ZOO:
                raise Undefined('zoo')
            s = s * v
        return s

    def n_sub(self, t):
        a, b = self.ev(t[1]), self.ev(t[2])
        if a is ZOO or b is ZOO:
            raise Undefined('zoo')
        return a - b

    def n_neg(self, t):
        a = self.ev(t[1])
        if a is ZOO:
            return ZOO
        return -a

    def n_div(self, t):
        a, b = self.ev(t[1]), self.ev(t[2])
        if a is ZOO or b is ZOO:
            raise Undefined('zoo')
        if b == 0:
            if a == 0:
                raise Undefined('0/0')
            return ZOO
        return a / b

    def n_pow(self, t):
        return power(self.ev(t[1]), self.ev(t[2]))

    def n_sqrt(self, t):
        return power(self.ev(t[1]), mpf(1) / 2)

    def n_cbrt(self, t):
        return power(self.ev(t[1]), mpf(1) / 3)

    # multi-arg functions
    def n_ATan2(self, t):
        return _atan2(self.ev(t[1]), self.ev(t[2]))
    n_atan2 = n_ATan2

    def n_log(self, t):
        if len(t) == 3:
            return mp.log(_cx(self.ev(t[1]))) / mp.log(_cx(self.ev(t[2])))
        return FUNC1['Log'](self.ev(t[1]))

    def n_LowerGamma(self, t):
        s, x = _cx(self.ev(t[1])), _cx(self.ev(t[2]))
        try:
            return mp.gammainc(s, 0, x)
        except (ZeroDivisionError, ValueError):
            raise Undefined('lowergamma pole')
    n_lowergamma = n_LowerGamma

    def n_UpperGamma(self, t):
        s, x = _cx(self.ev(t[1])), _cx(self.ev(t[2]))
        try:
            return mp.gammainc(s, x, mp.inf)
        except (ZeroDivisionError, ValueError):
            raise Undefined('uppergamma pole')
    n_uppergamma = n_UpperGamma

    def n_Beta(self, t):
        try:
            return mp.beta(_cx(self.ev(t[1])), _cx(self.ev(t[2])))
        except (ZeroDivisionError, ValueError):
            raise Undefined('beta pole')
    n_beta = n_Beta

    def n_PolyGamma(self, t):
        n, x = _cx(self.ev(t[1])), _cx(self.ev(t[2]))
        if not _isint(n) or n < 0:
            raise Unsupported('polygamma order')
        try:
            return mp.psi(int(_real(n)), x)
        except (ZeroDivisionError, ValueError):
            raise Undefined('polygamma pole')
    n_polygamma = n_PolyGamma

    def n_digamma(self, t):
        return self.n_PolyGamma(['PolyGamma', ['Integer', '0'], t[1]])

    def n_trigamma(self, t):
        return self.n_PolyGamma(['PolyGamma', ['Integer', '1'], t[1]])

    def n_Zeta(self, t):
        s = _cx(self.ev(t[1]))
        a = _cx(self.ev(t[2])) if len(t) > 2 else mpf(1)
        try:
            return mp.zeta(s, a)
        except (ZeroDivisionError, ValueError):
            raise Undefined('zeta pole')
    n_zeta = n_Zeta

    def n_KroneckerDelta(self, t):
        a, b = self.ev(t[1]), self.ev(t[2])
        return mpf(1) if a == b else mpf(0)
    n_kronecker_delta = n_KroneckerDelta

    def n_LeviCivita(self, t):
        vals = [self.ev(a) for a in t[1:]]
        n = len(vals)
        p = mpf(1)
        for i in range(n):
            for j in range(i + 1, n):
                p *= (vals[j] - vals[i])
        d = mpf(1)
        for i in range(n):
            d *= mp.factorial(i)
        return p / d
    n_levi_civita = n_LeviCivita

    def n_Max(self, t):
        vals = [_real(_cx(self.ev(a))) for a in t[1:]]
        return max(vals)
    n_max = n_Max

    def n_Min(self, t):
        vals = [_real(_cx(self.ev(a))) for a in t[1:]]
        return min(vals)
    n_min = n_Min

    def n_PrimePi(self, t):
        x = _real(_cx(self.ev(t[1])))
        if x > 10 ** 6:
            raise Unsupported('primepi too large')
        return mpf(len(_primes_upto(int(mp.floor(x)))))
    n_primepi = n_PrimePi

    def n_Primorial(self, t):
        x = _real(_cx(self.ev(t[1])))
        if x > 10 ** 4:
            raise Unsupported('primorial too large')
        p = 1
        for q in _primes_upto(int(mp.floor(x))):
            p *= q
        return mpf(p)
    n_primorial = n_Primorial

    def n_UnevaluatedExpr(self, t):
        return self.ev(t[1])
    n_unevaluated_expr = n_UnevaluatedExpr

    def n_Piecewise(self, t):
        args = t[1:]
        for i in range(0, len(args) - 1, 2):
            if self.truth(args[i + 1]):
                return self.ev(args[i])
        raise Undefined('no piecewise branch')

    def n_piecewise(self, t):
        for pr in t[1:]:
            if self.truth(pr[1]):
                return self.ev(pr[0])
        raise Undefined('no piecewise branch')

    def n_FunctionSymbol(self, t):
        f = self.funcs.get(t[1])
        if f is None:
            raise Unsupported('function symbol ' + t[1])
        return f(*[self.ev(a) for a in t[2:]])

    def n_func(self, t):
        return self.n_FunctionSymbol(t)

    def n_Subs(self, t):
        # [Subs, arg, [Vars...], [Point...]]
        vars_ = t[2][1:]
        pts = t[3][1:]
        env2 = dict(self.env)
        for v, p in zip(vars_, pts):
            if v[0] not in ('Symbol', 'Dummy'):
                raise Unsupported('Subs of non-symbol')
            env2[v[1]] = self.ev(p)
        return Evaluator(env2, self.funcs).ev(t[1])

    def n_Derivative(self, t):
        # [Derivative, arg, sym...]  numerical differentiation of the interpreted argument
        arg = t[1]
        syms = t[2:]
        names = []
        for s in syms:
            if s[0] not in ('Symbol', 'Dummy'):
                raise Unsupported('Derivative wrt non-symbol')
            names.append(s[1])
        if len(names) > 3:
            raise Unsupported('high-order derivative')
        order = {}
        for n in names:
            order[n] = order.get(n, 0) + 1
        vs = sorted(order)
        base = [self.env[v] for v in vs]

        def f(*xs):
            env2 = dict(self.env)
            for v, x in zip(vs, xs):
                env2[v] = x
            return Evaluator(env2, self.funcs).ev(arg)
        with mp.workdps(mp.dps * 2 + 10):
            try:
                if len(vs) == 1:
                    return mp.diff(f, base[0], order[vs[0]])
                return mp.diff(f, tuple(base), tuple(order[v] for v in vs))
            except ZeroDivisionError:
                raise Undefined('derivative at singular point')

    # booleans as numbers (Piecewise values etc.)
    def n_BooleanAtom(self, t):
        return t[1] == 'true'

    # ---- truth value of a boolean node
    def truth(self, t):
        name = t[0]
        if name == 'BooleanAtom':
            return t[1] == 'true'
        if name == 'const':
            return t[1] == 'true'
        if name in ('And', 'logical_and'):
            return all(self.truth(a) for a in t[1:])
        if name in ('Or', 'logical_or'):
            return any(self.truth(a) for a in t[1:])
        if name in ('Not', 'logical_not'):
            return not self.truth(t[1])
        if name in ('Xor', 'logical_xor'):
            r = False
            for a in t[1:]:
                r ^= self.truth(a)
            return r
        if name == 'logical_nand':
            return not all(self.truth(a) for a in t[1:])
        if name == 'logical_nor':
            return not any(self.truth(a) for a in t[1:])
        if name == 'logical_xnor':
            r = False
            for a in t[1:]:
                r ^= self.truth(a)
            return not r
        if name in ('Equality', 'Eq'):
            if len(t) == 2:
                return self.ev(t[1]) == 0
            return self.ev(t[1]) == self.ev(t[2])
        if name in ('Unequality', 'Ne'):
            return self.ev(t[1]) != self.ev(t[2])
        if name in ('LessThan', 'Le'):
            return self._rv(t[1]) <= self._rv(t[2])
        if name in ('StrictLessThan', 'Lt'):
            return self._rv(t[1]) < self._rv(t[2])
        if name == 'Gt':
            return self._rv(t[1]) > self._rv(t[2])
        if name == 'Ge':
            return self._rv(t[1]) >= self._rv(t[2])
        if name in ('Contains', 'contains'):
            return self.member(self.ev(t[1]), t[2])
        raise Unsupported('boolean ' + name)

    def _rv(self, t):
        v = self.ev(t)
        if v is ZOO:
            raise Undefined('zoo in comparison')
        return _real(v)

    def member(self, v, s):
        name = s[0]
        if name in ('Interval', 'interval'):
            if name == 'Interval':
                lo, hi = self._rv(s[3]), self._rv(s[4])
                lopen, ropen = s[1] == 'lopen', s[2] == 'ropen'
            else:
                lo, hi = self._rv(s[1]), self._rv(s[2])
                lopen, ropen = bool(s[3]), bool(s[4])
            if isinstance(v, mpc) and v.imag != 0:
                return False
            x = _real(v)
            if x < lo or x > hi:
                return False
            if x == lo and lopen:
                return False
            if x == hi and ropen:
                return False
            return True
        if name in ('FiniteSet', 'finiteset'):
            return any(self.ev(a) == v for a in s[1:])
        if name == 'EmptySet':
            return False
        if name in ('UniversalSet', 'Complexes'):
            return True
        if name == 'Reals':
            return not (isinstance(v, mpc) and v.imag != 0)
        if name == 'Union':
            return any(self.member(v, a) for a in s[1:])
        if name == 'Complement':
            return self.member(v, s[1]) and not self.member(v, s[2])
        raise Unsupported('set ' + name)


def evaluate(t, env=None, dps=50, funcs=None):
    with mp.workdps(dps):
        v = Evaluator(env, funcs).ev(t)
        if isinstance(v, (mpf, mpc)):
            return +v
        return v


def truth(t, env=None, dps=50):
    with mp.workdps(dps):
        return Evaluator(env).truth(t)


def rel_diff(a, b):
    d = abs(a - b)
    s = max(abs(a), abs(b))
    if s == 0:
        return mpf(0)
    return d / max(s, mpf(10) ** -30)


def rand_point(rng, kind='complex'):
    def u():
        return rng.uniform(0.2, 3.0) * rng.choice((-1, 1))
    if kind == 'complex':
        return mpc(u(), u())
    if kind == 'real':
        return mpf(u())
    if kind == 'pos':
        return mpf(rng.uniform(0.2, 3.0))
    if kind == 'poswide':       # positive, log-uniform over six decades: |log x| large enough to cross branch cuts of x**(I*k)
        return mpf(10) ** rng.uniform(-3, 3)
    if kind == 'unit':
        return mpf(rng.uniform(0.05, 0.95))
    if kind == 'neg':
        return -mpf(rng.uniform(0.2, 3.0))
    if kind == 'nonneg':
        return mpf(0) if rng.random() < 0.2 else mpf(rng.uniform(0.2, 3.0))
    if kind == 'nonpos':
        return mpf(0) if rng.random() < 0.2 else -mpf(rng.uniform(0.2, 3.0))
    if kind == 'int':
        return mpf(rng.randint(-6, 6))
    if kind == 'posint':
        return mpf(rng.randint(1, 7))
    if kind == 'negint':
        return mpf(-rng.randint(1, 7))
    if kind == 'nonnegint':
        return mpf(rng.randint(0, 6))
    if kind == 'rational':
        return mpf(rng.randint(-12, 12)) / rng.choice((1, 2, 3, 4, 8))
    if kind == 'posrational':
        return mpf(rng.randint(1, 12)) / rng.choice((1, 2, 3, 4, 8))
    if kind == 'nonzero':
        return mpc(u(), u())
    if kind == 'zero':
        return mpf(0)
    raise ValueError(kind)


def symbols_of(t, acc=None):
    """Names of Symbol leaves in a dump or recipe."""
    if acc is None:
        acc = set()
    if isinstance(t, (list, tuple)) and t:
        if t[0] in ('Symbol', 'sym', 'Dummy') and len(t) >= 2 and isinstance(t[1], str):
            acc.add(t[1])
        else:
            for a in t[1:]:
                if isinstance(a, (list, tuple)):
                    symbols_of(a, acc)
    return acc


class Judge:
    """Implements the comparison rule of DESIGN.md section 2.5 for 'result value == spec value'."""

    def __init__(self, rng, kind='complex', tol=mpf(10) ** -25, npoints=3, funcs=None):
        self.rng = rng
        self.kind = kind
        self.tol = tol
        self.npoints = npoints
        self.funcs = funcs

    def _eval_pair(self, spec, res, env, dps):
        try:
            a = evaluate(spec, env, dps, self.funcs)
            b = evaluate(res, env, dps, self.funcs)
        except Undefined:
            return None
        except (ZeroDivisionError, OverflowError, ValueError):
            return None
        except mpmath.libmp.NoConvergence:
            return None
        return a, b

    def compare(self, spec, res, names=None, kinds=None):
        """Returns ('ok'|'diff'|'inconclusive'|'unsupported', detail)"""
        if names is None:
            names = sorted(symbols_of(spec) | symbols_of(res))
        kinds = kinds or {}
        bad = []
        good = 0
        tries = 0
        try:
            while good + len(bad) < self.npoints and tries < self.npoints * 4:
                tries += 1
                env = {n: rand_point(self.rng, kinds.get(n, self.kind)) for n in names}
                pr = self._eval_pair(spec, res, env, 50)
                if pr is None:
                    continue
                a, b = pr
                if isinstance(a, bool) or isinstance(b, bool):
                    if bool(a) == bool(b):
                        good += 1
                    else:
                        bad.append((env, a, b))
                    continue
                ka, kb = kind_of(a), kind_of(b)
                if ka != 'finite' or kb != 'finite':
                    continue  # unusable point
                if rel_diff(a, b) <= self.tol:
                    good += 1
                else:
                    bad.append((env, a, b))
                if not names:
                    break
        except Unsupported as ex:
            return 'unsupported', str(ex)
        if not bad:
            if good == 0:
                return 'inconclusive', 'no usable point'
            return 'ok', good
        # confirm: precision 100, stability of spec, two further points
        try:
            env, a, b = bad[0]
            pr = self._eval_pair(spec, res, env, 110)
            if pr is None:
                return 'inconclusive', 'unstable at dps 110'
            a2, b2 = pr
            if isinstance(a2, bool) or isinstance(b2, bool):
                if bool(a2) == bool(b2):
                    return 'inconclusive', 'boolean flipped with precision'
            else:
                if kind_of(a2) != 'finite' or kind_of(b2) != 'finite':
                    return 'inconclusive', 'non-finite at dps 110'
                if rel_diff(a2, mpmath.mpmathify(a)) > mpf(10) ** -40 or rel_diff(b2, mpmath.mpmathify(b)) > mpf(10) ** -40:
                    return 'inconclusive', 'ill-conditioned'
                if rel_diff(a2, b2) <= self.tol:
                    return 'inconclusive', 'vanished at dps 110'
            if names:
                more = 0
                tries = 0
                while more < 2 and tries < 12:
                    tries += 1
                    env2 = {n: rand_point(self.rng, kinds.get(n, self.kind)) for n in names}
                    pr = self._eval_pair(spec, res, env2, 60)
                    if pr is None:
                        continue
                    x, y = pr
                    if isinstance(x, bool) or isinstance(y, bool):
                        if bool(x) != bool(y):
                            more += 1
                        continue
                    if kind_of(x) != 'finite' or kind_of(y) != 'finite':
                        continue
                    if rel_diff(x, y) > self.tol:
                        more += 1
                    else:
                        # differs only on part of the domain: count as not confirmed on an open set unless majority
                        pass
                if more < 2:
                    return 'inconclusive', 'not reproduced at fresh points'
        except Unsupported as ex:
            return 'unsupported', str(ex)
        env, a, b = bad[0]
        return 'diff', dict(env={k: str(v) for k, v in env.items()}, spec=str(a), result=str(b))
