"""Shared generators: hostile leaf pools and random recipe grammars."""
from fractions import Fraction
import math

# ------------------------------------------------------------------ leaves (recipes)
def I(n):
    return ('int', str(int(n)))


def R(n, d):
    return ('rat', str(int(n)), str(int(d)))


def FR(fr):
    fr = Fraction(fr)
    if fr.denominator == 1:
        return I(fr.numerator)
    return R(fr.numerator, fr.denominator)


def CX(re, im):
    return ('cpx', FR(re), FR(im))


def F(x):
    return ('real', float(x))


def S(name):
    return ('sym', name)


def K(name):
    return ('const', name)


X, Y, Z = S('x'), S('y'), S('z')
PI, E_, IU = K('pi'), K('E'), K('I')

SMALL_INTS = [0, 1, -1, 2, -2, 3, -3, 4, 5, 7, 8, 9, 10, 12, 16, 27, -8, -27, 64, 100]
BIG_INTS = [2 ** 64 + 1, 2 ** 64 - 1, -(2 ** 63), 10 ** 30 + 7, math.factorial(25), -(2 ** 127) + 1, 2 ** 200]
SMALL_RATS = [Fraction(1, 2), Fraction(-1, 2), Fraction(1, 3), Fraction(2, 3), Fraction(-3, 2), Fraction(3, 4), Fraction(8, 27),
              Fraction(1, 4), Fraction(9, 4), Fraction(-5, 7), Fraction(1, 8), Fraction(27, 8), Fraction(-1, 3), Fraction(5, 2)]
GAUSS = [(0, 1), (0, -1), (1, 1), (1, -2), (Fraction(1, 2), Fraction(1, 3)), (0, 2), (-1, Fraction(1, 2)), (3, 4), (0, Fraction(1, 2))]
FLOATS = [0.0, -0.0, 1.0, -1.0, 0.5, 2.5, -2.5, 1e-300, 1e300, 5e-324, 3.0, 0.1, -0.75, 123456789.125]
NONFINITE_FLOATS = [float('inf'), float('-inf'), float('nan')]


def exact_pool():
    return [I(n) for n in SMALL_INTS] + [FR(q) for q in SMALL_RATS] + [CX(a, b) for a, b in GAUSS]


def rand_int(rng, big=False):
    if big and rng.random() < 0.5:
        bits = rng.choice((64, 65, 96, 128, 200, 400))
        v = rng.getrandbits(bits) | (1 << (bits - 1))
        return v * rng.choice((-1, 1))
    return rng.choice(SMALL_INTS)


def rand_rat(rng, big=False):
    if big and rng.random() < 0.5:
        n = rand_int(rng, True)
        d = abs(rand_int(rng, True)) or 1
        g = rng.choice((1, 1, 6, 2 ** 20, 3 ** 5))  # common factor before normalisation
        return Fraction(n * g, d * g)
    return rng.choice(SMALL_RATS)


def rand_exact_value(rng, big=False, allow_complex=True):
    """Returns ('q', Fraction) or ('c', Fraction, Fraction)."""
    r = rng.random()
    if r < 0.4:
        return ('q', Fraction(rand_int(rng, big)))
    if r < 0.75 or not allow_complex:
        return ('q', rand_rat(rng, big))
    if big and rng.random() < 0.5:
        return ('c', rand_rat(rng, True), rand_rat(rng, True) or Fraction(1))
    a, b = rng.choice(GAUSS)
    return ('c', Fraction(a), Fraction(b))


def value_recipe(v):
    if v[0] == 'q':
        return FR(v[1])
    return CX(v[1], v[2])


# ------------------------------------------------------------------ parse number leaves of tree dumps
def parse_q(s):
    a, b = s.split('/') if '/' in s else (s, '1')
    return int(a), int(b)


def tree_number(t):
    """Exact description of a number node of a dump:
    ('int', n) ('rat', n, d) ('cpx', (rn,rd), (in,id)) ('real', bits) ('cdbl', rebits, imbits) ('zoo',) ('oo', sign) ('nan',) or None"""
    n = t[0]
    if n == 'Integer':
        return ('int', int(t[1]))
    if n == 'Rational':
        return ('rat', int(t[1]), int(t[2]))
    if n == 'Complex':
        return ('cpx', parse_q(t[1]), parse_q(t[2]))
    if n == 'RealDouble':
        return ('real', t[1])
    if n == 'ComplexDouble':
        return ('cdbl', t[1], t[2])
    if n == 'NaN':
        return ('nan',)
    if n == 'Infty':
        d = t[1]
        if d[0] == 'Integer':
            v = int(d[1])
            return ('zoo',) if v == 0 else ('oo', v)
        return ('oo', None)
    if n == 'RealMPFR':
        return ('mpfr', t[1], t[2], t[3])
    if n == 'ComplexMPC':
        return ('mpc', t[1], t[2], t[3])
    return None


def normalised_problems(t):
    """Independent check of the documented normal form of an exact number node.  Returns list of problems."""
    n = tree_number(t)
    out = []
    if n is None:
        return out
    if n[0] == 'rat':
        num, den = n[1], n[2]
        if den <= 0:
            out.append('rational with non-positive denominator')
        elif den == 1:
            out.append('rational with denominator 1')
        if math.gcd(num, den) != 1:
            out.append('rational not in lowest terms')
        if num == 0:
            out.append('rational zero')
    if n[0] == 'cpx':
        (rn, rd), (in_, id_) = n[1], n[2]
        if in_ == 0:
            out.append('complex with zero imaginary part')
        for (a, b) in ((rn, rd), (in_, id_)):
            if b <= 0 or math.gcd(a, b) != 1:
                out.append('complex part not normalised')
    return out


def exact_value(t):
    """('q', Fraction) / ('c', Fraction, Fraction) for exact number nodes, else None"""
    n = tree_number(t)
    if n is None:
        return None
    if n[0] == 'int':
        return ('q', Fraction(n[1]))
    if n[0] == 'rat':
        return ('q', Fraction(n[1], n[2])) if n[2] != 0 else None
    if n[0] == 'cpx':
        if n[1][1] == 0 or n[2][1] == 0:
            return None
        return ('c', Fraction(*n[1]), Fraction(*n[2]))
    return None


# exact Gaussian-rational arithmetic on ('q',a) / ('c',a,b)
def g_parts(v):
    return (v[1], Fraction(0)) if v[0] == 'q' else (v[1], v[2])


def g_make(re, im):
    return ('q', re) if im == 0 else ('c', re, im)


def g_add(a, b):
    (ar, ai), (br, bi) = g_parts(a), g_parts(b)
    return g_make(ar + br, ai + bi)


def g_sub(a, b):
    (ar, ai), (br, bi) = g_parts(a), g_parts(b)
    return g_make(ar - br, ai - bi)


def g_mul(a, b):
    (ar, ai), (br, bi) = g_parts(a), g_parts(b)
    return g_make(ar * br - ai * bi, ar * bi + ai * br)


def g_iszero(a):
    ar, ai = g_parts(a)
    return ar == 0 and ai == 0


def g_div(a, b):
    """None if b == 0"""
    (ar, ai), (br, bi) = g_parts(a), g_parts(b)
    d = br * br + bi * bi
    if d == 0:
        return None
    return g_make((ar * br + ai * bi) / d, (ai * br - ar * bi) / d)


def g_pow(a, n):
    """integer power; returns value, or 'zoo' for 0**negative"""
    if n == 0:
        return ('q', Fraction(1))
    if n < 0:
        if g_iszero(a):
            return 'zoo'
        a = g_div(('q', Fraction(1)), a)
        n = -n
    r = ('q', Fraction(1))
    base = a
    while n:
        if n & 1:
            r = g_mul(r, base)
        base = g_mul(base, base)
        n >>= 1
    return r


# ------------------------------------------------------------------ random expression recipes
UNARY_ELEM = ['sin', 'cos', 'tan', 'exp', 'log', 'sinh', 'cosh', 'tanh', 'atan', 'asinh', 'sqrt']
UNARY_ALL = ['sin', 'cos', 'tan', 'cot', 'sec', 'csc', 'asin', 'acos', 'atan', 'acot', 'asec', 'acsc',
             'sinh', 'cosh', 'tanh', 'coth', 'sech', 'csch', 'asinh', 'acosh', 'atanh', 'acoth', 'asech', 'acsch',
             'exp', 'log', 'sqrt', 'cbrt']


def rand_leaf(rng, syms=('x', 'y', 'z'), numbers=True, floats=False, consts=True, complex_=True):
    r = rng.random()
    if r < 0.45 or not numbers:
        return S(rng.choice(syms))
    if r < 0.65:
        return I(rng.choice(SMALL_INTS))
    if r < 0.8:
        return FR(rng.choice(SMALL_RATS))
    if r < 0.86 and consts:
        return rng.choice((PI, E_))
    if r < 0.92 and complex_:
        a, b = rng.choice(GAUSS)
        return CX(a, b)
    if floats:
        return F(rng.choice(FLOATS))
    return I(rng.choice(SMALL_INTS))


def rand_arith(rng, depth, syms=('x', 'y', 'z'), unary=(), p_unary=0.2, floats=False, int_pow_only=False, complex_=True, consts=True):
    """Random recipe over add/sub/mul/div/neg/pow (+ optional unary functions)."""
    if depth <= 0 or rng.random() < 0.15:
        return rand_leaf(rng, syms, floats=floats, complex_=complex_, consts=consts)
    r = rng.random()
    sub = lambda: rand_arith(rng, depth - 1, syms, unary, p_unary, floats, int_pow_only, complex_, consts)
    if unary and r < p_unary:
        return (rng.choice(unary), sub())
    r = rng.random()
    if r < 0.28:
        n = rng.choice((2, 2, 3))
        return ('add',) + tuple(sub() for _ in range(n))
    if r < 0.38:
        return ('sub', sub(), sub())
    if r < 0.62:
        n = rng.choice((2, 2, 3))
        return ('mul',) + tuple(sub() for _ in range(n))
    if r < 0.72:
        return ('div', sub(), sub())
    if r < 0.78:
        return ('neg', sub())
    # pow
    base = sub()
    if int_pow_only or rng.random() < 0.5:
        ex = I(rng.choice((2, 3, -1, -2, 4, 0, 1, 5)))
    elif rng.random() < 0.7:
        ex = FR(rng.choice((Fraction(1, 2), Fraction(-1, 2), Fraction(1, 3), Fraction(2, 3), Fraction(3, 2), Fraction(-3, 2), Fraction(1, 4), Fraction(5, 2))))
    else:
        ex = rand_arith(rng, max(0, depth - 2), syms, (), 0, floats, int_pow_only, complex_, consts)
    return ('pow', base, ex)


def recipe_size(r):
    if isinstance(r, tuple):
        return 1 + sum(recipe_size(a) for a in r[1:] if isinstance(a, tuple))
    return 0


def recipe_str(r):
    from .core import render
    return render(r)
