"""Greedy delta-debugging over recipe trees."""

EXPR_HEADS_SKIP = {'int', 'rat', 'cpx', 'real', 'cdbl', 'sym', 'const', 'dummy'}


def _subtrees(r, path=()):
    """yield (path, subtree) for expression-valued sub-recipes"""
    if isinstance(r, tuple) and r and isinstance(r[0], str):
        yield path, r
        if r[0] in EXPR_HEADS_SKIP:
            return
        for i, a in enumerate(r[1:], 1):
            if isinstance(a, tuple) and a and isinstance(a[0], str):
                yield from _subtrees(a, path + (i,))


def _replace(r, path, new):
    if not path:
        return new
    lst = list(r)
    lst[path[0]] = _replace(r[path[0]], path[1:], new)
    return tuple(lst)


def size(r):
    return sum(1 for _ in _subtrees(r))


def shrink(recipe, fails, budget=80, leaves=None):
    """fails(recipe) -> bool (True if the violation is still observed).  Returns a smaller failing recipe."""
    leaves = leaves or [('int', '1'), ('int', '2'), ('sym', 'x'), ('int', '-1'), ('rat', '1', '2')]
    cur = recipe
    used = 0
    progress = True
    while progress and used < budget:
        progress = False
        # 1. replace the whole thing by a proper subtree
        subs = sorted((s for p, s in _subtrees(cur) if p), key=size)
        for s in subs:
            if size(s) >= size(cur):
                continue
            used += 1
            if used > budget:
                break
            if fails(s):
                cur = s
                progress = True
                break
        if progress:
            continue
        # 2. replace an inner subtree by one of its children or by a leaf
        for p, s in sorted(_subtrees(cur), key=lambda ps: -size(ps[1])):
            if not p or s[0] in EXPR_HEADS_SKIP:
                continue
            cands = [a for a in s[1:] if isinstance(a, tuple) and a and isinstance(a[0], str)] + leaves
            for cnd in cands:
                if size(cnd) >= size(s):
                    continue
                new = _replace(cur, p, cnd)
                used += 1
                if used > budget:
                    break
                if fails(new):
                    cur = new
                    progress = True
                    break
            if progress or used > budget:
                break
    return cur
