"""Core of the monitoring framework: S-expression rendering, building, running the executor,
crash attribution, evidence writing, known-findings matching and the check driver."""
import hashlib
import json
import os
import random
import shutil
import subprocess
import sys
import time
from concurrent.futures import ThreadPoolExecutor

sys.set_int_max_str_digits(0)
VERIF = os.path.dirname(os.path.dirname(os.path.abspath(__file__)))
BUILD = os.path.join(VERIF, '.build')
WORK = os.path.join(VERIF, '.work')
NCPU = int(os.environ.get('VERIF_JOBS', '16'))


# ----------------------------------------------------------------------------- S-expressions
class Q(str):
    """A string that must be rendered quoted."""


class Reg(str):
    """Reference to a register."""


_SAFE = set('abcdefghijklmnopqrstuvwxyzABCDEFGHIJKLMNOPQRSTUVWXYZ0123456789_-+.:/*<>=!')


def _q(s):
    out = ['"']
    for ch in s.encode('latin-1', 'replace') if isinstance(s, str) else s:
        if ch == 0x22:
            out.append('\\"')
        elif ch == 0x5c:
            out.append('\\\\')
        elif ch == 0x0a:
            out.append('\\n')
        elif ch < 0x20 or ch >= 0x7f:
            out.append('\\x%02x' % ch)
        else:
            out.append(chr(ch))
    out.append('"')
    return ''.join(out)


def render(x):
    if isinstance(x, Reg):
        return '$' + x
    if isinstance(x, bool):
        return 'true' if x else 'false'
    if isinstance(x, int):
        return str(x)
    if isinstance(x, float):
        return '"h:%016x"' % _dbits(x)
    if isinstance(x, bytes):
        return _q(x)
    if isinstance(x, Q):
        return _q(x)
    if isinstance(x, str):
        if x and x[0] == '$' and len(x) > 1 and all(c in _SAFE for c in x[1:]):
            return x  # register reference
        if x and all(c in _SAFE for c in x):
            return x
        return _q(x)
    if isinstance(x, (tuple, list)):
        return '(' + ' '.join(render(y) for y in x) + ')'
    if x is None:
        return '()'
    raise TypeError('cannot render %r' % (x,))


def _dbits(f):
    import struct
    return struct.unpack('<Q', struct.pack('<d', f))[0]


def bits_to_float(h):
    import struct
    return struct.unpack('<d', struct.pack('<Q', int(h, 16)))[0]


def case_text(cid, stmts):
    return '(case %s\n %s)\n' % (render(Q(str(cid))), '\n '.join(render(s) for s in stmts))


# ----------------------------------------------------------------------------- builds
_built = set()


def build(*configs):
    """(Re)build library + executor for the configs from the current working tree of /repo."""
    todo = [c for c in configs if c not in _built]
    if not todo:
        return
    t0 = time.time()
    procs = [(c, subprocess.Popen([os.path.join(VERIF, 'tools', 'build.sh'), c], stdout=subprocess.PIPE,
                                  stderr=subprocess.STDOUT, text=True)) for c in todo]
    for c, p in procs:
        out, _ = p.communicate()
        if p.returncode != 0:
            sys.stdout.write(out)
            print('HARNESS-FAILURE: build of configuration %s failed' % c)
            sys.exit(2)
        _built.add(c)
    dt = time.time() - t0
    if dt > 5:
        print('[build] %s in %.0fs' % (','.join(todo), dt))


def sxec_path(config):
    return os.path.join(BUILD, config, 'sxec')


# ----------------------------------------------------------------------------- running
class Stmt:
    __slots__ = ('st', 'v', 'ty', 'lib', 'msg', 'asserts')

    def __init__(self, d):
        self.st = d.get('st')
        self.v = d.get('v')
        self.ty = d.get('ty')
        self.lib = d.get('lib')
        self.msg = d.get('msg')
        self.asserts = d.get('asserts') or []

    @property
    def ok(self):
        return self.st == 'ok'

    def __repr__(self):
        return 'Stmt(%s %s %s)' % (self.st, self.ty or '', json.dumps(self.v)[:200] if self.v is not None else '')


class CaseResult:
    def __init__(self, cid):
        self.cid = cid
        self.stmts = {}
        self.status = 'incomplete'  # ok | crashed | timeout | incomplete
        self.crash = None  # dict(signal, kind, report)
        self.live = None

    def s(self, i):
        return self.stmts.get(i)

    @property
    def asserts(self):
        out = []
        for i in sorted(self.stmts):
            out.extend(self.stmts[i].asserts)
        return out


def san_env(config, extra=None):
    env = dict(os.environ)
    env['ASAN_OPTIONS'] = 'abort_on_error=0:exitcode=88:detect_leaks=%d:detect_stack_use_after_return=1:allocator_may_return_null=1:malloc_context_size=8' % (
        1 if config in ('asan', 'relasan', 'mp') else 0)
    env['UBSAN_OPTIONS'] = 'print_stacktrace=1:halt_on_error=1:exitcode=89'
    env['LSAN_OPTIONS'] = 'exitcode=87'
    env['TSAN_OPTIONS'] = 'halt_on_error=0:exitcode=86:second_deadlock_stack=1'
    if extra:
        env.update(extra)
    return env


def classify_report(stderr):
    """Return (kind, summary lines) for a sanitizer report in stderr, or (None, None)."""
    kind = None
    lines = stderr.splitlines()
    frames = []
    for i, ln in enumerate(lines):
        if 'ERROR: AddressSanitizer' in ln:
            kind = 'asan:' + ln.split('AddressSanitizer:')[1].split()[0]
            break
        if 'runtime error:' in ln:
            kind = 'ubsan:' + ln.split('runtime error:')[1].strip()
            # normalise numbers / addresses
            import re
            kind = re.sub(r'0x[0-9a-f]+', 'ADDR', kind)
            kind = re.sub(r'-?\d+', 'N', kind)
            break
        if 'ERROR: LeakSanitizer' in ln:
            kind = 'lsan:leak'
            break
        if 'WARNING: ThreadSanitizer' in ln:
            kind = 'tsan:' + ln.split('ThreadSanitizer:')[1].split('(')[0].strip()
            break
        if 'SYMENGINE_ASSERT failed' in ln:
            kind = 'assert-abort'
            break
        if 'terminate called' in ln:
            kind = 'terminate:' + ln.strip()
            break
    if kind is None:
        return None, None
    import re
    for ln in lines:
        m = re.match(r'\s*#\d+ 0x[0-9a-f]+ in (.+?) (/\S+?)(:\d+)?(:\d+)?$', ln.strip())
        if m:
            fn = m.group(1)
            path = m.group(2)
            if '/symengine/' in path and '/harness/' not in path:
                fn = re.sub(r'\(.*', '', fn)
                frames.append(fn)
        if len(frames) >= 3:
            break
    return kind, frames


def _run_shard(config, path, timeout, env, from_ord=0, wall=None):
    """Run one shard file until done, restarting after crashes.  Returns (results dict, process_reports list)."""
    results = {}
    order = []
    reports = []
    start = from_ord
    exe = sxec_path(config)
    while True:
        cmd = [exe, '--timeout', str(timeout), '--from', str(start), path]
        try:
            p = subprocess.run(cmd, stdout=subprocess.PIPE, stderr=subprocess.PIPE, env=env, timeout=wall)
            out, err, rc = p.stdout, p.stderr, p.returncode
        except subprocess.TimeoutExpired as ex:
            out, err, rc = ex.stdout or b'', ex.stderr or b'', -999
        cur = None
        done = False
        last_ord = start - 1
        for ln in out.decode('utf-8', 'replace').splitlines():
            if not ln.startswith('{'):
                continue
            try:
                d = json.loads(ln)
            except ValueError:
                continue
            if 'done' in d:
                done = True
                continue
            cid = d.get('c')
            if 'begin' in d:
                cur = CaseResult(cid)
                results[cid] = cur
                order.append(cid)
                last_ord = d['begin']
                continue
            if 'end' in d:
                if cur is not None and cur.cid == cid:
                    cur.status = 'ok'
                    cur.live = d.get('live')
                cur = None
                continue
            if d.get('st') == 'timeout':
                if cur is not None:
                    cur.status = 'timeout'
                continue
            if cur is not None and 'i' in d:
                cur.stmts[d['i']] = Stmt(d)
        errs = err.decode('utf-8', 'replace')
        if done:
            if rc != 0 or 'Sanitizer' in errs or 'runtime error' in errs:
                kind, frames = classify_report(errs)
                if kind:
                    reports.append(dict(kind=kind, frames=frames, report=errs[-6000:], rc=rc, cases=list(order)))
            break
        # died inside a case (or before any case)
        if cur is None and last_ord < start:
            # nothing ran: harness failure
            reports.append(dict(kind='harness:no-progress', frames=[], report=errs[-4000:], rc=rc, cases=[]))
            break
        if cur is not None:
            if cur.status != 'timeout':
                if rc == -999:
                    cur.status = 'timeout'
                else:
                    cur.status = 'crashed'
                    kind, frames = classify_report(errs)
                    cur.crash = dict(rc=rc, kind=kind or ('signal:%d' % (-rc) if rc < 0 else 'exit:%d' % rc), frames=frames or [],
                                     report=errs[-6000:])
        start = last_ord + 1
    return results, reports


def run_cases(config, cases, jobs=None, timeout=20, env_extra=None, tag='run', keep=False):
    """cases: list of (cid, [stmts]).  Returns (dict cid -> CaseResult, process-level reports)."""
    if not cases:
        return {}, []
    jobs = jobs or NCPU
    jobs = max(1, min(jobs, len(cases)))
    wd = os.path.join(WORK, '%s-%d-%d' % (tag, os.getpid(), random.getrandbits(32)))
    os.makedirs(wd, exist_ok=True)
    env = san_env(config, env_extra)
    shards = [[] for _ in range(jobs)]
    for i, cs in enumerate(cases):      # round-robin: neighbouring (similar-cost) cases go to different workers
        shards[i % jobs].append(cs)
    paths = []
    for k, sh in enumerate(shards):
        if not sh:
            continue
        pth = os.path.join(wd, 'shard%d.sx' % k)
        with open(pth, 'w', encoding='latin-1') as f:
            for cid, stmts in sh:
                f.write(case_text(cid, stmts))
        paths.append(pth)
    results = {}
    reports = []
    with ThreadPoolExecutor(max_workers=len(paths)) as ex:
        for r, rep in ex.map(lambda pth: _run_shard(config, pth, timeout, env), paths):
            results.update(r)
            reports.extend(rep)
    if not keep:
        shutil.rmtree(wd, ignore_errors=True)
    return results, reports


def run_one(config, cid, stmts, timeout=20, env_extra=None):
    res, reps = run_cases(config, [(cid, stmts)], jobs=1, timeout=timeout, env_extra=env_extra, tag='one')
    return res.get(str(cid)), reps


# ----------------------------------------------------------------------------- known findings
def load_findings():
    p = os.path.join(VERIF, 'known_findings.json')
    if not os.path.exists(p):
        return []
    with open(p) as f:
        return json.load(f)['findings']


def finding_matches(entry, prop, key):
    """key: dict describing a minimal violation; entry['match'] is a dict of required equalities
    (values may be lists = any-of)."""
    if entry.get('property') != prop:
        return False
    m = entry.get('match') or {}
    if not m:
        return False
    for k, want in m.items():
        have = key.get(k)
        if isinstance(want, list):
            if have not in want:
                return False
        elif have != want:
            return False
    return True


# ----------------------------------------------------------------------------- check driver
class Check:
    """Base class: a property monitor.  Subclasses implement run(self) and call
    self.violation(key, witness) / self.note_* and set coverage counters."""
    prop = 'C00'
    level = 'exploration'
    configs = ('asan',)

    def __init__(self, tier, seed):
        self.tier = tier
        self.seed = seed
        self.rng = random.Random((seed * 1000003) ^ int(hashlib.sha1(self.prop.encode()).hexdigest()[:8], 16))
        self.t0 = time.time()
        self.evaluations = 0
        self.nontrivial = set()
        self.samples = []
        self.cov = {}
        self.violations = []      # (key, witness)
        self.inconclusive = 0
        self.assert_events = []
        self.san_reports = []
        self.rule = ''
        self.assumptions = []
        self.exhaustive = None
        self.min_evals = 1
        self.findings = load_findings()
        self.known_hits = {}
        self.notes = []

    # -- helpers
    def q(self, quick, thorough):
        """case count for the tier.  The thorough tier explores VERIF_THOROUGH_FACTOR (default 4) times as many cases as the quick tier with a
        different random stream, capped by the monitor's own upper bound; raise the factor for a deeper soak."""
        if self.tier == 'quick':
            return quick
        if not isinstance(quick, int) or not isinstance(thorough, int) or thorough <= quick:
            return thorough
        f = float(os.environ.get('VERIF_THOROUGH_FACTOR', '4'))
        return int(min(thorough, max(quick, quick * f)))

    def count(self, name, n=1):
        self.cov[name] = self.cov.get(name, 0) + n

    def nontriv(self, obj):
        self.nontrivial.add(hashlib.md5(json.dumps(obj, sort_keys=True, default=str).encode()).hexdigest())

    def sample(self, obj, limit=6):
        if len(self.samples) < limit:
            self.samples.append(obj)

    def violation(self, key, witness):
        """key: dict (must include 'clause'); witness: JSON-able description incl. program."""
        self.violations.append((key, witness))

    def note_asserts(self, res):
        """Collect H1 events from a CaseResult (reported under C03)."""
        for a in res.asserts:
            self.assert_events.append(a)

    # -- main entry
    def execute(self):
        build(*self.configs)
        rc = 0
        try:
            self.run()
        except HarnessFailure as hf:
            print('HARNESS-FAILURE: %s' % hf)
            self.write_evidence(2)
            return 2
        unlisted = []
        seen_keys = set()
        for key, wit in self.violations:
            ks = json.dumps(key, sort_keys=True)
            hit = None
            for ent in self.findings:
                if ent.get('status') == 'known' and finding_matches(ent, self.prop, key):
                    hit = ent
                    break
            if hit is not None:
                self.known_hits.setdefault(hit['id'], (hit, 0))
                self.known_hits[hit['id']] = (hit, self.known_hits[hit['id']][1] + 1)
                continue
            if ks in seen_keys:
                continue
            seen_keys.add(ks)
            unlisted.append((key, wit))
        for fid, (ent, n) in sorted(self.known_hits.items()):
            print('KNOWN-FINDING: property=%s %s [%s, %d observation(s) this run]' % (self.prop, ent['what'], fid, n))
        os.makedirs(os.path.join(VERIF, 'replays'), exist_ok=True)
        for key, wit in unlisted[:20]:
            h = hashlib.sha1(json.dumps([key, wit], sort_keys=True, default=str).encode()).hexdigest()[:12]
            path = os.path.join(VERIF, 'replays', '%s-%s.json' % (self.prop, h))
            with open(path, 'w') as f:
                json.dump(dict(property=self.prop, key=key, witness=wit, seed=self.seed, tier=self.tier), f, indent=1, default=str)
            print('VIOLATION property=%s replay=%s' % (self.prop, path))
            print('  key=%s' % json.dumps(key, sort_keys=True, default=str)[:600])
            rc = 1
        if len(unlisted) > 20:
            print('  (+%d further unlisted violations not written)' % (len(unlisted) - 20))
        if rc == 0 and (self.evaluations < self.min_evals or len(self.nontrivial) < 2):
            print('INCONCLUSIVE: property=%s observed too little (evaluations=%d, nontrivial=%d, floor=%d)' % (
                self.prop, self.evaluations, len(self.nontrivial), self.min_evals))
            rc = 2
        self.n_unlisted = len(unlisted)
        self.write_evidence(rc)
        print('%s %s tier=%s seed=%d evaluations=%d nontrivial=%d inconclusive=%d known=%d violations=%d wall=%.1fs' % (
            self.prop, 'HELD' if rc == 0 else ('VIOLATED' if rc == 1 else 'INCONCLUSIVE'), self.tier, self.seed, self.evaluations,
            len(self.nontrivial), self.inconclusive, len(self.known_hits), len(unlisted), time.time() - self.t0))
        return rc

    def write_evidence(self, rc):
        cov = dict(evaluations=int(self.evaluations), distinct_nontrivial=len(self.nontrivial), rule=self.rule,
                   samples=self.samples[:8], counters=self.cov, inconclusive=self.inconclusive,
                   known_finding_hits={k: v[1] for k, v in self.known_hits.items()},
                   assertion_hook_events=len(self.assert_events), sanitizer_reports=len(self.san_reports),
                   configs=list(self.configs), notes=self.notes)
        if self.exhaustive is not None:
            cov['exhaustive'] = bool(self.exhaustive)
        ev = dict(property_id=self.prop, tier=self.tier, seed=int(self.seed), level=self.level, coverage=cov,
                  assumptions=self.assumptions, wall_s=round(time.time() - self.t0, 2),
                  violations=int(getattr(self, 'n_unlisted', len(self.violations))), exit_code=rc)
        os.makedirs(os.path.join(VERIF, 'evidence'), exist_ok=True)
        with open(os.path.join(VERIF, 'evidence', self.prop + '.json'), 'w') as f:
            json.dump(ev, f, indent=1, default=str)


class HarnessFailure(Exception):
    pass


def check_process_reports(chk, reports, allow_kinds=()):
    """Route process-level sanitizer reports (e.g. LeakSanitizer at exit) into the check."""
    for r in reports:
        if r['kind'].startswith('harness:'):
            raise HarnessFailure('executor made no progress: %s' % r['report'][-500:])
        chk.san_reports.append(r)
        if r['kind'] in allow_kinds:
            continue
        chk.violation(dict(clause='sanitizer', kind=r['kind'], frames=r['frames'][:3]), dict(report=r['report'][-3000:]))


def resource_crash(res):
    """True when the process was killed by a resource limit of the arithmetic layer (GMP refusing an astronomically large integer,
    the allocator refusing the request, or recursion once per unit of a huge order): the monitors of value properties count these
    ("resource-limit") instead of judging them - the inputs are outside what the property quantifies over (DESIGN.md 8.0)."""
    c = res.crash if isinstance(res.crash, dict) else {}
    rep = str(c.get('report', ''))
    if 'gmp: overflow in mpz type' in rep or 'GNU MP: Cannot allocate memory' in rep or 'failed to allocate' in rep:
        return True
    return False


def crash_key(res):
    return dict(clause='crash', kind=res.crash['kind'], frames=res.crash['frames'][:3])
