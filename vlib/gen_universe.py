"""Universes of expressions of every kind, with planted equal-by-construction buckets (C01, C02, C16a)."""
from fractions import Fraction
from . import gen
from .gen import I, R, FR, CX, F, S, K, X, Y, Z


def numbers(rng):
    out = [I(0), I(1), I(-1), I(2), FR(Fraction(1, 2)), FR(Fraction(-3, 2)), CX(0, 1), CX(1, -2), CX(Fraction(1, 2), Fraction(1, 3)),
           F(0.0), F(-0.0), F(1.0), F(-1.0), F(0.5), F(2.5), ('real', 'inf'), ('real', '-inf'), ('real', 'nan'), ('real', 'nan'),
           ('cdbl', 1.0, 0.0), ('cdbl', 1.0, -0.0), ('cdbl', 0.0, 1.0), ('cdbl', 'nan', 0.0), ('cdbl', 0.0, 'nan'),
           K('oo'), K('-oo'), K('zoo'), K('nan'), I(2 ** 64 + 1), I(10 ** 30 + 7), FR(Fraction(2 ** 70 + 1, 3))]
    # numbers reached by different arithmetic
    out += [('add', FR(Fraction(1, 2)), FR(Fraction(1, 2))), ('mul', F(0.0), I(-1)), ('mul', F(-0.0), I(-1)), ('sub', F(1.0), F(1.0)),
            ('mul', CX(0, 1), CX(0, 1)), ('div', I(4), I(8)), ('pow', I(2), I(-1)), ('add', F(0.25), F(0.25)),
            ('mul', ('cdbl', 0.0, 1.0), ('cdbl', 0.0, 1.0)), ('neg', F(0.0))]
    rng.shuffle(out)
    return out


def atoms(rng):
    return [X, Y, Z, S('x'), S('_a1'), S('x1'), ('dummy',), ('dummy', 'x'), ('dummy', 'x'), K('pi'), K('E'), K('I'), K('EulerGamma'),
            K('true'), K('false')]


def exprs(rng, n):
    out = []
    for _ in range(n):
        depth = rng.choice((1, 2, 2, 3))
        out.append(gen.rand_arith(rng, depth, unary=gen.UNARY_ELEM, p_unary=0.25, floats=rng.random() < 0.2))
    # planted equal pairs: same operands, different order / bracketing
    for _ in range(max(2, n // 3)):
        ops = [gen.rand_arith(rng, 1, unary=('sin', 'exp'), p_unary=0.3) for _ in range(rng.choice((2, 3, 4)))]
        op = rng.choice(('add', 'mul'))
        a = (op,) + tuple(ops)
        p = ops[:]
        rng.shuffle(p)
        b = p[0]
        for q in p[1:]:
            b = (op, b, q) if rng.random() < 0.5 else (op, q, b)
        out += [a, b]
    return out


def functions(rng):
    fx = ('func', 'f', X)
    return [('sin', X), ('sin', ('neg', X)), ('cos', ('neg', X)), ('cos', X), fx, ('func', 'f', X, Y), ('func', 'f', Y, X), ('func', 'g', X),
            ('func', 'f', X), ('abs', X), ('abs', ('neg', X)), ('max', X, Y), ('max', Y, X), ('min', X, Y, I(1)), ('max', X, Y, Y),
            ('derivative', fx, X), ('derivative', ('func', 'f', X, Y), X, Y), ('derivative', ('func', 'f', X, Y), Y, X),
            ('subs_node', ('derivative', ('func', 'f', X), X), (X, I(1))), ('atan2', X, Y), ('atan2', Y, X), ('zeta', X), ('zeta', X, I(1)),
            ('polygamma', I(1), X), ('beta', X, Y), ('beta', Y, X), ('kronecker_delta', X, Y), ('kronecker_delta', Y, X),
            ('lowergamma', X, Y), ('uppergamma', X, Y), ('log', X), ('gamma', X), ('erf', X), ('floor', X), ('ceiling', X), ('sign', X),
            ('conjugate', X), ('levi_civita', X, Y, Z), ('unevaluated_expr', X), ('tuple', X, Y), ('tuple', Y, X), ('tuple',)]


def sets(rng):
    out = []
    for lo in (False, True):
        for ro in (False, True):
            out.append(('interval', I(0), I(1), lo, ro))
    out += [('interval', I(0), I(2)), ('interval', K('-oo'), I(0), True, False), ('interval', K('-oo'), K('oo'), True, True),
            ('finiteset', I(1), I(2), I(3)), ('finiteset', I(3), I(1), I(2)), ('finiteset', X, Y), ('finiteset', Y, X), ('finiteset', I(1)),
            ('finiteset', F(0.0), F(-0.0)), ('finiteset', F(1.0), I(1)),
            ('setconst', 'emptyset'), ('setconst', 'universalset'), ('setconst', 'reals'), ('setconst', 'rationals'), ('setconst', 'integers'),
            ('setconst', 'naturals'), ('setconst', 'naturals0'), ('setconst', 'complexes'),
            ('set_union', ('interval', I(0), I(1)), ('interval', I(2), I(3))), ('set_union', ('interval', I(2), I(3)), ('interval', I(0), I(1))),
            ('set_union', ('interval', I(0), I(1)), ('interval', I(1), I(2))),
            ('set_union', ('interval', I(0), I(1)), ('finiteset', I(5))), ('set_complement', ('setconst', 'reals'), ('finiteset', I(0))),
            ('set_complement', ('setconst', 'reals'), ('interval', I(0), I(1))),
            ('imageset', X, ('mul', I(2), X), ('setconst', 'integers')), ('conditionset', X, ('Lt', X, I(1))),
            ('set_intersection', ('setconst', 'integers'), ('interval', I(0), I(5)))]
    return out


def booleans(rng):
    a, b, c = ('Lt', X, I(1)), ('Le', Y, X), ('Eq', X, Y)
    return [a, b, c, ('Eq', Y, X), ('Ne', X, Y), ('Ne', Y, X), ('Gt', I(1), X), ('Ge', X, Y), ('logical_and', a, b), ('logical_and', b, a),
            ('logical_or', a, b), ('logical_or', b, a, a), ('logical_not', a), ('logical_xor', a, b), ('logical_xor', b, a),
            ('logical_not', ('logical_and', a, b)), ('contains', X, ('interval', I(0), I(1))), ('contains', X, ('finiteset', I(1), I(2))),
            ('piecewise', (X, a), (Y, K('true'))), ('piecewise', (X, a), (Y, b), (I(0), K('true'))), ('piecewise', (Y, a), (X, K('true')))]


def polys(rng):
    return [('uintpoly', X, (0, 1), (2, 3)), ('uintpoly', X, (2, 3), (0, 1)), ('uintpoly', Y, (0, 1), (2, 3)), ('uintpoly', X, (0, 1)),
            ('uintpoly', X), ('uintpoly', Y), ('uintpoly', X, (0, 0)), ('uintpoly', X, (1, 0), (0, 1)),
            ('uratpoly', X, (0, I(1)), (2, I(3))), ('uratpoly', X, (0, FR(Fraction(1, 2)))), ('uratpoly', X),
            ('uexprpoly', X, (0, I(1)), (2, I(3))), ('uexprpoly', X, (0, Y)), ('uexprpoly', X),
            ('mintpoly', (X,), ((0,), 1)), ('mintpoly', (X, Y), ((0, 0), 1)), ('mintpoly', (), ((), 1)), ('mintpoly', (X, Y), ((1, 2), 3), ((0, 0), 1)),
            ('mintpoly', (Y, X), ((2, 1), 3), ((0, 0), 1)), ('mintpoly', (X, Y)), ('mintpoly', (X,)), ('mintpoly', ()),
            ('mintpoly', (X, Y), ((1, 0), 1)), ('mintpoly', (X,), ((1,), 1)), ('mintpoly', (X, Z), ((1, 0), 1)),
            ('mexprpoly', (X, Y), ((1, 2), I(3))), ('mexprpoly', (X,), ((0,), I(1))), ('mexprpoly', (X, Y), ((0, 0), I(1))), ('mexprpoly', ()),
            ('uint_from_basic', ('add', ('mul', I(3), ('pow', X, I(2))), I(1)), X)]


def matrices(rng):
    return [('identity_matrix', I(2)), ('identity_matrix', I(3)), ('identity_matrix', X), ('zero_matrix', I(2), I(2)), ('zero_matrix', I(2), I(3)),
            ('matrix_symbol', 'A'), ('matrix_symbol', 'B'), ('diagonal_matrix', I(1), I(2)), ('diagonal_matrix', I(2), I(1)),
            ('immutable_dense_matrix', 2, 2, I(1), I(2), I(3), I(4)), ('immutable_dense_matrix', 1, 4, I(1), I(2), I(3), I(4)),
            ('immutable_dense_matrix', 2, 2, I(1), I(0), I(0), I(2)),
            ('matrix_add', ('matrix_symbol', 'A'), ('matrix_symbol', 'B')), ('matrix_add', ('matrix_symbol', 'B'), ('matrix_symbol', 'A')),
            ('matrix_mul', ('matrix_symbol', 'A'), ('matrix_symbol', 'B')), ('matrix_mul', ('matrix_symbol', 'B'), ('matrix_symbol', 'A')),
            ('hadamard_product', ('matrix_symbol', 'A'), ('matrix_symbol', 'B')), ('hadamard_product', ('matrix_symbol', 'B'), ('matrix_symbol', 'A')),
            ('mx_transpose', ('matrix_symbol', 'A')), ('mx_conjugate', ('matrix_symbol', 'A')), ('mx_trace', ('matrix_symbol', 'A'))]


def universe(rng, size=45, mix=None):
    """A list of recipes.  mix: which families to draw from."""
    fam = dict(numbers=numbers, atoms=atoms, functions=functions, sets=sets, booleans=booleans, polys=polys, matrices=matrices)
    mix = mix or rng.choice((('numbers',), ('numbers', 'atoms'), ('atoms', 'functions'), ('sets',), ('booleans', 'sets'), ('polys',),
                             ('matrices',), ('numbers', 'functions', 'sets', 'booleans', 'polys', 'matrices', 'atoms'), ('exprs',),
                             ('exprs', 'numbers', 'atoms'), ('exprs', 'functions')))
    pool = []
    for m in mix:
        if m == 'exprs':
            pool += exprs(rng, size // 2)
        else:
            pool += fam[m](rng)
    rng.shuffle(pool)
    u = pool[:size]
    # roundtrip / reparse variants of a few members (different construction path, should be eq)
    extra = []
    for r in u[:4]:
        extra.append(('roundtrip', r))
    return u + extra
