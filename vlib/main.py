"""Entry point: python -m vlib.main Cxx --tier quick|thorough   |   replay <path>"""
import importlib
import json
import os
import sys


def main(argv):
    if not argv:
        print('usage: vcheck Cxx [--tier quick|thorough] | vcheck replay <path>')
        return 2
    tier = os.environ.get('VERIF_TIER', 'quick')
    seed = int(os.environ.get('VERIF_SEED', '0') or 0)
    args = list(argv)
    if args[0] == 'replay':
        with open(args[1]) as f:
            rp = json.load(f)
        mod = importlib.import_module('props.' + rp['property'].lower())
        chk = mod.C(rp.get('tier', 'quick'), int(rp.get('seed', 0)))
        if not hasattr(chk, 'replay'):
            print('replay not supported for %s; witness follows' % rp['property'])
            print(json.dumps(rp['witness'], indent=1)[:4000])
            return 2
        return chk.do_replay(rp)
    prop = args[0].upper()
    i = 1
    while i < len(args):
        if args[i] == '--tier':
            tier = args[i + 1]
            i += 2
        elif args[i] == '--seed':
            seed = int(args[i + 1])
            i += 2
        else:
            print('unknown argument', args[i])
            return 2
    if tier not in ('quick', 'thorough'):
        print('bad tier', tier)
        return 2
    try:
        mod = importlib.import_module('props.' + prop.lower())
    except ModuleNotFoundError as ex:
        print('HARNESS-FAILURE: no monitor for %s (%s)' % (prop, ex))
        return 2
    chk = mod.C(tier, seed)
    try:
        return chk.execute()
    except Exception:           # a failure of the monitor itself is never a verdict on the library
        import traceback
        traceback.print_exc()
        print('HARNESS-FAILURE: %s monitor raised an exception (inconclusive)' % prop)
        return 2


if __name__ == '__main__':
    sys.path.insert(0, os.path.dirname(os.path.dirname(os.path.abspath(__file__))))
    sys.exit(main(sys.argv[1:]))
