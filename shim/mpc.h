/* Minimal hand-written declarations for GNU MPC 1.3.x (ABI of libmpc.so.3).
   Only what SymEngine uses.  Not the upstream header. */
#ifndef VERIF_MPC_SHIM_H
#define VERIF_MPC_SHIM_H
#include <gmp.h>
#include <mpfr.h>
#define MPC_VERSION_MAJOR 1
#define MPC_VERSION_MINOR 3
#define MPC_VERSION_PATCHLEVEL 1
#define MPC_VERSION_STRING "1.3.1"
#define MPC_VERSION_NUM(a,b,c) (((a) << 16L) | ((b) << 8) | (c))
#define MPC_VERSION MPC_VERSION_NUM(MPC_VERSION_MAJOR,MPC_VERSION_MINOR,MPC_VERSION_PATCHLEVEL)
typedef int mpc_rnd_t;
#define MPC_RND(r1,r2) (((int)(r1)) + ((int)(r2) << 4))
#define MPC_RND_RE(x) ((mpfr_rnd_t)((x) & 0x0F))
#define MPC_RND_IM(x) ((mpfr_rnd_t)((x) >> 4))
#define MPC_RNDNN MPC_RND(MPFR_RNDN,MPFR_RNDN)
#define MPC_RNDNZ MPC_RND(MPFR_RNDN,MPFR_RNDZ)
#define MPC_RNDZZ MPC_RND(MPFR_RNDZ,MPFR_RNDZ)
#define MPC_RNDZN MPC_RND(MPFR_RNDZ,MPFR_RNDN)
#define MPC_RNDUU MPC_RND(MPFR_RNDU,MPFR_RNDU)
#define MPC_RNDDD MPC_RND(MPFR_RNDD,MPFR_RNDD)
typedef struct { mpfr_t re; mpfr_t im; } __mpc_struct;
typedef __mpc_struct mpc_t[1];
typedef __mpc_struct *mpc_ptr;
typedef const __mpc_struct *mpc_srcptr;
#define mpc_realref(x) ((x)->re)
#define mpc_imagref(x) ((x)->im)
#define mpc_real(x,y,r) mpfr_set(x, mpc_realref(y), r)
#define mpc_imag(x,y,r) mpfr_set(x, mpc_imagref(y), r)
#define MPC_INEX_POS(inex) (((inex) < 0) ? 2 : ((inex) == 0) ? 0 : 1)
#define MPC_INEX_NEG(inex) (((inex) == 2) ? -1 : ((inex) == 0) ? 0 : 1)
#define MPC_INEX(inex_re, inex_im) (MPC_INEX_POS(inex_re) | (MPC_INEX_POS(inex_im) << 2))
#define MPC_INEX_RE(inex) MPC_INEX_NEG((inex) & 3)
#define MPC_INEX_IM(inex) MPC_INEX_NEG((inex) >> 2)
#define mpc_cmp_si(a, b) mpc_cmp_si_si(a, b, 0l)
#ifdef __cplusplus
extern "C" {
#endif
void mpc_init2(mpc_ptr, mpfr_prec_t);
void mpc_init3(mpc_ptr, mpfr_prec_t, mpfr_prec_t);
void mpc_clear(mpc_ptr);
void mpc_set_prec(mpc_ptr, mpfr_prec_t);
mpfr_prec_t mpc_get_prec(mpc_srcptr);
void mpc_swap(mpc_ptr, mpc_ptr);
int mpc_set(mpc_ptr, mpc_srcptr, mpc_rnd_t);
int mpc_set_ui(mpc_ptr, unsigned long, mpc_rnd_t);
int mpc_set_si(mpc_ptr, long, mpc_rnd_t);
int mpc_set_d(mpc_ptr, double, mpc_rnd_t);
int mpc_set_si_si(mpc_ptr, long, long, mpc_rnd_t);
int mpc_set_ui_ui(mpc_ptr, unsigned long, unsigned long, mpc_rnd_t);
int mpc_set_d_d(mpc_ptr, double, double, mpc_rnd_t);
int mpc_set_z(mpc_ptr, mpz_srcptr, mpc_rnd_t);
int mpc_set_q(mpc_ptr, mpq_srcptr, mpc_rnd_t);
int mpc_set_q_q(mpc_ptr, mpq_srcptr, mpq_srcptr, mpc_rnd_t);
int mpc_set_fr(mpc_ptr, mpfr_srcptr, mpc_rnd_t);
int mpc_set_fr_fr(mpc_ptr, mpfr_srcptr, mpfr_srcptr, mpc_rnd_t);
int mpc_set_str(mpc_ptr, const char *, int, mpc_rnd_t);
char *mpc_get_str(int, size_t, mpc_srcptr, mpc_rnd_t);
void mpc_free_str(char *);
int mpc_cmp(mpc_srcptr, mpc_srcptr);
int mpc_cmp_si_si(mpc_srcptr, long, long);
int mpc_add(mpc_ptr, mpc_srcptr, mpc_srcptr, mpc_rnd_t);
int mpc_add_fr(mpc_ptr, mpc_srcptr, mpfr_srcptr, mpc_rnd_t);
int mpc_sub(mpc_ptr, mpc_srcptr, mpc_srcptr, mpc_rnd_t);
int mpc_sub_fr(mpc_ptr, mpc_srcptr, mpfr_srcptr, mpc_rnd_t);
int mpc_fr_sub(mpc_ptr, mpfr_srcptr, mpc_srcptr, mpc_rnd_t);
int mpc_mul(mpc_ptr, mpc_srcptr, mpc_srcptr, mpc_rnd_t);
int mpc_mul_fr(mpc_ptr, mpc_srcptr, mpfr_srcptr, mpc_rnd_t);
int mpc_div(mpc_ptr, mpc_srcptr, mpc_srcptr, mpc_rnd_t);
int mpc_div_fr(mpc_ptr, mpc_srcptr, mpfr_srcptr, mpc_rnd_t);
int mpc_fr_div(mpc_ptr, mpfr_srcptr, mpc_srcptr, mpc_rnd_t);
int mpc_ui_div(mpc_ptr, unsigned long, mpc_srcptr, mpc_rnd_t);
int mpc_neg(mpc_ptr, mpc_srcptr, mpc_rnd_t);
int mpc_conj(mpc_ptr, mpc_srcptr, mpc_rnd_t);
int mpc_abs(mpfr_ptr, mpc_srcptr, mpfr_rnd_t);
int mpc_norm(mpfr_ptr, mpc_srcptr, mpfr_rnd_t);
int mpc_arg(mpfr_ptr, mpc_srcptr, mpfr_rnd_t);
int mpc_sqrt(mpc_ptr, mpc_srcptr, mpc_rnd_t);
int mpc_pow(mpc_ptr, mpc_srcptr, mpc_srcptr, mpc_rnd_t);
int mpc_pow_fr(mpc_ptr, mpc_srcptr, mpfr_srcptr, mpc_rnd_t);
int mpc_pow_d(mpc_ptr, mpc_srcptr, double, mpc_rnd_t);
int mpc_pow_si(mpc_ptr, mpc_srcptr, long, mpc_rnd_t);
int mpc_pow_ui(mpc_ptr, mpc_srcptr, unsigned long, mpc_rnd_t);
int mpc_pow_z(mpc_ptr, mpc_srcptr, mpz_srcptr, mpc_rnd_t);
int mpc_exp(mpc_ptr, mpc_srcptr, mpc_rnd_t);
int mpc_log(mpc_ptr, mpc_srcptr, mpc_rnd_t);
int mpc_sin(mpc_ptr, mpc_srcptr, mpc_rnd_t);
int mpc_cos(mpc_ptr, mpc_srcptr, mpc_rnd_t);
int mpc_tan(mpc_ptr, mpc_srcptr, mpc_rnd_t);
int mpc_sinh(mpc_ptr, mpc_srcptr, mpc_rnd_t);
int mpc_cosh(mpc_ptr, mpc_srcptr, mpc_rnd_t);
int mpc_tanh(mpc_ptr, mpc_srcptr, mpc_rnd_t);
int mpc_asin(mpc_ptr, mpc_srcptr, mpc_rnd_t);
int mpc_acos(mpc_ptr, mpc_srcptr, mpc_rnd_t);
int mpc_atan(mpc_ptr, mpc_srcptr, mpc_rnd_t);
int mpc_asinh(mpc_ptr, mpc_srcptr, mpc_rnd_t);
int mpc_acosh(mpc_ptr, mpc_srcptr, mpc_rnd_t);
int mpc_atanh(mpc_ptr, mpc_srcptr, mpc_rnd_t);
#ifdef __cplusplus
}
#endif
#endif
