import sys, json, collections
c=collections.Counter(); ex={}
for l in sys.stdin:
    if ' | ' not in l or '"clause"' not in l: continue
    k,w=l.split(' | ',1)
    try: k=json.loads(k.strip())
    except Exception: continue
    kk=(k.get('clause'),tuple(k.get('kinds',[])) if isinstance(k.get('kinds'),list) else k.get('kinds'), k.get('op'), k.get('family'))
    c[kk]+=1; ex.setdefault(kk, w[:int(sys.argv[1]) if len(sys.argv)>1 else 300])
for k,v in c.most_common(): print(v,k,ex[k])
