import sys, os, json, collections
sys.path.insert(0, '/verif')
import importlib
prop = sys.argv[1]
tier = sys.argv[2] if len(sys.argv) > 2 else 'quick'
seed = int(sys.argv[3]) if len(sys.argv) > 3 else 0
mod = importlib.import_module('props.' + prop.lower())
from vlib import core
chk = mod.C(tier, seed)
core.build(*chk.configs)
chk.run()
groups = collections.defaultdict(list)
for key, wit in chk.violations:
    k = (key.get('clause'), key.get('op') or key.get('route') or key.get('kind'))
    groups[k].append((key, wit))
for k, items in sorted(groups.items(), key=lambda kv: str(kv[0])):
    print('==', k, len(items))
    for key, wit in items[:int(os.environ.get('N', '12'))]:
        w = {kk: vv for kk, vv in wit.items() if kk not in ('program', 'tree', 'config', 'crash', 'report')}
        print('   ', json.dumps(key, default=str)[:300], '|', json.dumps(w, default=str)[:400])
print('evaluations', chk.evaluations, 'inconclusive', chk.inconclusive, 'cov', chk.cov)
