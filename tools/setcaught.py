#!/usr/bin/env python3
"""setcaught.py <seeded name> <json list of {check,tier,result}> [needs text] : record which checks caught a seeded change."""
import json, sys
p = '/verif/seeded/%s/meta.json' % sys.argv[1]
m = json.load(open(p))
m['caught_by'] = json.loads(sys.argv[2])
if len(sys.argv) > 3:
    m['needs_to_manifest'] = sys.argv[3]
json.dump(m, open(p, 'w'), indent=1)
