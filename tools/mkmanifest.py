#!/usr/bin/env python3
"""Generates /verif/MANIFEST.json from the table below (kept in one place so the manifest is always valid)."""
import json, os, sys
VERIF = os.path.dirname(os.path.dirname(os.path.abspath(__file__)))
sys.path.insert(0, VERIF)

# property id -> (configs, technique, level text, level note, design ref)
CHECKS = {
 'C05': (['asan'], 'event-log monitor vs exact rational/Gaussian reference (exhaustive small table + random multi-limb) under ASan/UBSan + assertion hook',
         'Every result tree of add/sub/mul/div/pow on exact numbers is compared with Python Fractions and checked for the documented normal form; the small-value table is enumerated completely, multi-limb operands are sampled.',
         'Trusts Python int/Fraction arithmetic and the executor tree dump (public accessors only).', 'DESIGN.md 3/C05'),
 'C06': (['asan'], 'exhaustive ordered-pair table, commutativity law + kind/sign reference of the extended-number rules',
         'All ordered pairs of 35 representatives of every number kind x 5 operations x 2 call routes are executed and judged; the table is finite and fully enumerated.',
         'Representatives stand for their kind/sign class; rules judged are exactly those the property states.', 'DESIGN.md 3/C06'),
 'C29': (['asan'], 'exhaustive ordered-pair table vs exact extended-real comparison + consistency laws + substitution into symbolic relationals',
         'All ordered pairs of 46 real representatives x 6 relations (direct and via subs) are judged against exact Fraction comparison.',
         'Doubles are converted exactly to Fractions; float-infinity vs symbolic-infinity ties are judged by the laws only.', 'DESIGN.md 3/C29'),
 'C01': (['asan'], 'in-executor all-pairs monitor: eq both ways vs hash, plus hash-keyed container probes (finiteset, set_basic, unordered set) over universes of objects built along different construction paths',
         'Every unordered pair inside generated universes (numbers of all kinds incl. signed zeros and NaN, polynomials over permuted variable sets, sums/products built in different orders, parse/serialize round trips) is checked for eq => equal hash and for container sizes matching the number of eq-classes.',
         'Only pairs the generators bring together; hash collisions of unequal objects are counted, not judged.', 'DESIGN.md 3/C01'),
 'C02': (['asan'], 'exhaustive order-axiom check on the full __cmp__/eq/RCPBasicKeyLess matrices of generated universes (antisymmetry, cmp==0 iff eq, transitivity over all triples)',
         'For every universe the n x n matrices of __cmp__, eq and the container comparator are computed by the real library and all pairs and triples are checked against the strict-total-order axioms.',
         'Universes are sampled; within a universe the check is complete.', 'DESIGN.md 3/C02'),
 'C04': (['asan'], 'algebraic-law monitor: same operand multiset built under all permutations/bracketings/n-ary vs pairwise routes must give eq results and equal strings; mpmath evaluation separates value errors',
         'Each operand multiset is combined along many construction routes through the real add/mul/max/min/and/or; all results are compared with the first.',
         'Value-different results are routed to C07; only structural divergence of equal values is judged here.', 'DESIGN.md 3/C04'),
 'C07': (['asan'], 'event-log monitor: result tree evaluated by an independent mpmath evaluator at generic complex points vs the recipe evaluated operation by operation (principal branch); fresh-process confirmation and shrinking',
         'Random and template recipes aimed at the automatic rewrite rules are built through the real API; each result is judged by value at 3 points with confirmation at higher precision.',
         'mpmath principal-branch conventions; points are generic complex so defects confined to branch cuts are out of scope, as in the property.', 'DESIGN.md 3/C07'),
 'C08': (['asan'], 'event-log monitor vs mpmath reference: exhaustive numeric grid of constructor special cases + symbolic arguments judged at random points',
         'Every function constructor is called on the special-value grid (table angles, inverse-table values, gamma-family arguments, floats) and on symbolic shifts/negations; the returned tree must have the value of the function at the argument.',
         'mpmath conventions for special functions; points at genuine singularities / conventions (documented in the monitor) are not judged.', 'DESIGN.md 3/C08'),
 'C33': (['asan'], 'history monitor: sieve call histories replayed against an Eratosthenes model, ASan/UBSan on the segment buffer; exhaustive short histories + random long ones around segment boundaries',
         'Each case is a history of generate_primes / iterator / clear / set_sieve_size / set_clear calls from a forced known state; every output is compared with the reference prime list.',
         'set_sieve_size(0) excluded; limits up to ~1.1e6.', 'DESIGN.md 3/C33'),
 'C23': (['asan'], 'event-log monitor vs coefficient-list arithmetic mod p; factorisations judged by defining relations (monic, brute-force irreducible, multiply back), sampled repeatedly because the factoriser is randomised',
         'Triples of GF(p) polynomials (enumerated for tiny p/degree, random beyond, unreduced constructor inputs, zero operands) run a battery of ~35 operations; every result is compared with reference arithmetic.',
         'Irreducibility brute force is bounded (larger factors only checked for monic + multiply back).', 'DESIGN.md 3/C23'),
 'C32': (['asan'], 'event-log monitor vs brute-force definitions in pure Python ints on bounded ranges + identity checks on random 64-256-bit arguments',
         'Every listed number-theoretic function is called on bounded argument ranges (complete in the thorough tier) and judged against its definition computed by exhaustive search; large arguments are judged by checkable identities.',
         'Probabilistic factor methods (Pollard) may legitimately report failure; they are judged only for never returning a wrong factor.', 'DESIGN.md 3/C32'),
 'C38': (['asan'], 'event-log monitor: exactness of the returned weights on the whole monomial basis over Fractions (symbolic grids via mpmath at random points)',
         'Grids of distinct rationals (exhaustive over {-2..2} up to size 4, random up to size 9, clustered, unsorted) and symbolic grids; for every order k and monomial x^j the weighted sum must equal the exact derivative.',
         'Exactness on the monomial basis is equivalent to exactness on all polynomials of degree < grid size.', 'DESIGN.md 3/C38'),
 'C46': (['asan'], 'event-log monitor vs brute-force Hilbert basis (enumeration inside the Pottier bound) + structural checks (solution, minimal, no duplicates)',
         'All small integer matrices in the stated shapes/ranges (complete in thorough) and random larger ones; the returned set must equal the brute-force set of minimal non-negative solutions.',
         'Cases whose Pottier box exceeds the enumeration cap get the structural checks only (counted in evidence).', 'DESIGN.md 3/C46'),
 'C09': (['asan'], 'event-log monitor: value by mpmath at generic points + independent structural walk (no product/positive power of a sum) + idempotence via eq + exact monomial dictionaries over Gaussian rationals (schoolbook) incl. identity decision on planted equal/unequal pairs',
         'Random nested sums/products/integer powers with opaque atoms are expanded by the real library; four independent clauses are judged per case.',
         'Polynomial clause limited to inputs that are polynomials with exact coefficients; value clause at generic complex points.', 'DESIGN.md 3/C09'),
 'C10': (['asan'], 'event-log monitor: diff result evaluated by mpmath vs 60-digit numerical derivative of the library input tree (two step sizes, conditioning and noise guards), exact-zero clause, cache on/off eq, mixed partials by value; function symbols interpreted by fixed analytic functions',
         'Random compositions over every function with a differentiation rule, undefined functions and Derivative nodes; each derivative is checked numerically at random complex (or real, for non-analytic functions) points.',
         'Numerical differentiation is trusted only when self-consistent at two step sizes and two precisions; otherwise the case is inconclusive.', 'DESIGN.md 3/C10'),
 'C11': (['asan'], 'event-log monitor: result of subs/xreplace/msubs/ssubs evaluated by mpmath vs the library input tree with keys replaced by the monitor; no-op and identity maps must be eq; cache on/off must be eq',
         'Random expressions x maps (numbers, swaps, chains, expressions, sub-expression keys with the sound fresh-symbol clause) through all four substitution entry points with both cache settings.',
         'Sub-expression keys are judged by the sound clause only (whether an occurrence is replaced is the library choice).', 'DESIGN.md 3/C11'),
 'C36': (['asan'], 'event-log monitor: each transformation result evaluated by mpmath vs the library input tree (n/d, re + I*im and realness of re/im via conjugate, rewrites, conjugate vs mpmath conj) in the domain the property names + structural negative-exponent check',
         'Random expressions over trig/hyperbolic functions and inverses, nested fractions and numeric complex expressions are transformed by the real library; every output is judged by value.',
         'as_numer_denom inputs are positive on the positive reals (the stated domain); symbol-free inputs of rewrites/conjugate are not judged (constants on branch cuts).', 'DESIGN.md 3/C36'),
 'C35': (['asan'], 'event-log monitor: refine/simplify results evaluated by mpmath vs the library input tree at assignments drawn inside the assumption set (negative, zero, integer, rational, complex points as allowed)',
         'Expressions aimed at each refine/simplify rule under 13 assumption sets per symbol; each result is judged by value at points satisfying the assumptions.',
         'Points are sampled inside each assumption set; a rule that is wrong only on a measure-zero subset not hit by the samplers is out of reach.', 'DESIGN.md 3/C35'),
 'C12': (['asan'], 'event-log monitor: outputs of eval_double (3 variants), eval_complex_double and evalf(53) vs 50-digit mpmath evaluation of the same tree, tolerance from a measured 53-bit model error; branch-cut arguments and complex intermediates (for the real evaluators) detected by the monitor and excluded',
         'Numeric trees over every node type the evaluators implement, exact leaves; each evaluator output is compared with the reference and the three real evaluators with each other.',
         'Well-conditioned trees only (model error < 1e-10); values exactly on a branch cut are not judged.', 'DESIGN.md 3/C12'),
 'C16': (['asan'], 'event-log monitor: parse(str(e)) vs e by the library eq, failures classified by value with mpmath (value change = printer/parser disagreement); equal expressions built in different operand orders must print identically',
         'Random expressions of the parseable fragment incl. 22 printing-sensitive templates, floats and booleans are printed and parsed back by the real library.',
         'Doubles are compared up to the 15 significant digits the printer emits; zero/non-finite doubles are not judged; same-value structure changes are one recorded family.', 'DESIGN.md 3/C16'),
 'C17': (['asan'], 'event-log monitor: strings rendered from generator-owned syntax trees (conventional precedence/associativity, whitespace, redundant parentheses, literals, implicit multiplication, aliases) parsed by the real parser and compared by value (mpmath) with the tree built directly through the API; parse errors on grammar strings are violations',
         'The expected reading of every string is computed by the generator, never by a second call into the parser.',
         'Exponent operands and huge literals are kept small/in additive position (resource limits are not syntax); bare 2x**2 is not generated.', 'DESIGN.md 3/C17'),
 'C37': (['asan'], 'event-log monitor: cse output substituted back by the monitor on tree dumps (last to first) and compared by value (mpmath) with every input; freshness/uniqueness/ordering of replacement symbols and output count checked structurally',
         'Lists of expressions with planted sharing (sub-trees, sub-sums, sub-products, negated commons, pre-existing x0/x1 names) are factored by the real cse.',
         'Value comparison at generic complex points; structural eq after substitution is not required (canonical form may differ).', 'DESIGN.md 3/C37'),
 'C39': (['asan'], 'event-log monitor: free_symbols / has_symbol / function_symbols / atoms compared with an independent walk of the tree dump using the binding rule of Subs; coeff judged by reconstruction (sum coeff*x**n eq p) through the library eq',
         'Expressions with function symbols, Derivative and Subs nodes (directly built and library-produced), relationals and Piecewise; polynomials and Laurent polynomials with symbolic coefficients.',
         'Set-builder dummies (ImageSet/ConditionSet) are not generated; atoms clauses are judged on binder-free expressions only.', 'DESIGN.md 3/C39'),
 'C34': (['asan'], 'event-log monitor: every definite answer of 17 property queries is tested against assignments drawn from the assumption set; properties of the value decided exactly over Gaussian rationals, or by mpmath with a 1e-10 margin; is_polynomial against the structural definition',
         'Random expressions under 13 consistent assumption sets per symbol; a definite answer is refuted only by a decidable witness (sound, intentionally incomplete).',
         'Irrationality/algebraicity claims are refuted only through the exact path; is_rational/is_irrational (no assumption argument) judged on symbol-free inputs.', 'DESIGN.md 3/C34'),
 'C21': (['asan'], 'event-log monitor vs schoolbook coefficient dictionaries over Python ints / Fractions; divides judged by the boolean and quotient*divisor == dividend; UExprPoly through expand + eq',
         'Pairs of UIntPoly/URatPoly with coefficients sized around powers of two (Kronecker substitution stress), zero and constant operands, sparse and dense; ~14 operations per pair.',
         'Coefficients up to 300 bits, degree up to 30; UExprPoly compared through the symbolic layer.', 'DESIGN.md 3/C21'),
 'C22': (['asan'], 'event-log monitor vs schoolbook monomial dictionaries over the sorted union of the variables (Python ints); MExprPoly through expand + eq',
         'Pairs of MIntPoly over variable sets in every relation (equal, overlapping, disjoint, empty, subset) incl. zero and constant polynomials; result variables and dictionaries are compared.',
         'Up to 4 symbols, 8 terms, exponents <= 5; MExprPoly compared through the symbolic layer.', 'DESIGN.md 3/C22'),
 'C24': (['asan'], 'event-log monitor vs exact Gaussian-rational linear algebra in the monitor: determinants, inverses, RREF, char_poly and structural operations compared exactly; factorisations judged by defining relations; solvers by A*x == b; run with assertions recording but not throwing (release semantics) under ASan',
         'Matrices up to 6x6 / 5x7 in families aimed at pivoting, singularity, symmetry and positive definiteness; ~25 operations per square matrix, ~20 per rectangular one.',
         'Non-pivoting algorithms may decline visibly (exception or nan/zoo entries); QR and Cholesky judged numerically at 50 digits.', 'DESIGN.md 3/C24'),
 'C25': (['asan'], 'history monitor: CSR matrices built from COO triples and updated by set()/operations, with a dense model kept in lock-step; after every step the raw (p, j, x) arrays pass an independent canonical-format check, is_canonical() agrees, and the whole grid equals the model; ASan on the index arithmetic',
         'Histories of construction (duplicates summed), 0-25 set() updates and binary/unary operations (canonical binop add/sub/mul, elementwise product, transpose, conjugate, row/column scaling, diagonal, jacobian).',
         'CSR member functions that are unimplemented stubs (add_matrix, mul_matrix, scalar ops, submatrix) are recorded as declined.', 'DESIGN.md 3/C25'),
 'C27': (['asan'], 'event-log monitor vs exact pointwise reference: every set expression is probed by contains() at all critical values, the midpoints between them, points beyond the extremes, two irrationals and a non-real point, each compared with the boolean combination of operand memberships; sup/inf/boundary/interior/closure compared with their definitions on the exact region description of the set the library built; violating expressions are confirmed in a fresh process and shrunk; ASan stack-overflow / hang detection on the mutual recursion of the set algebra',
         'Expressions of depth <= 3 over intervals (all open/closed/infinite combinations on a rational grid), finite sets, the six number sets, EmptySet and UniversalSet under n-ary and member union/intersection and complement; membership is piecewise constant between critical values so each case is decided exactly.',
         'An unevaluated Contains is no answer and not judged; set functions are judged only when the library result is a real set the reference models.', 'DESIGN.md 3/C27'),
 'C28': (['asan'], 'event-log monitor vs exact truth-table reference: the tree returned by logical_and/or/not/xor/nand/nor/xnor and piecewise() is evaluated by the monitor (own exact rational evaluator of relationals, Contains and connectives) under every assignment of the symbols from the exact probe set and compared with the formula asked for; violating formulas confirmed in a fresh process and shrunk',
         'Formulas of depth <= 3 over pools of relational atoms (linear in x, y), membership atoms (intervals, finite sets, number sets, unions), their differently-written negations and constants; 100-900 assignments per formula cover every threshold, midpoint and outside point, so each formula is decided exactly on its atoms\' sign patterns.',
         'Atoms are linear with rational constants; a returned tree with a node the monitor does not model is counted, not judged.', 'DESIGN.md 3/C28'),
 'C30': (['asan'], 'event-log monitor vs independently known solution sets: polynomials are built from a chosen factorisation (or judged against mpmath.polyroots), the members of the returned set are evaluated by the monitor at 60 digits and compared both ways (soundness, completeness); rational equations against zeros of the numerator minus poles decided exactly on the expression the library was given; trigonometric image sets enumerated for n=-8..8 against closed-form solutions; linsolve by exact A*x == b',
         'Degree 0-4 polynomials (repeated, zero, complex and irrational roots, zero leading coefficients, zero polynomial) in expanded and factored form through solve / solve_poly / solve_poly_heuristics over the complex numbers and the reals; quotients with common factors; a*f(b*x+c)=d for sin, cos, tan incl. right-hand sides without real solutions; 1-4 dimensional linear systems.',
         'Returned sets of a shape the monitor does not model (ConditionSet, Complement) are counted, not judged; n ranges over the integers (the library prints the base set as (-oo, oo)).', 'DESIGN.md 3/C30'),
 'C31': (['asan'], 'event-log monitor vs exact truncated power-series arithmetic in the monitor (functions applied by composition of closed-form Maclaurin coefficients over Fractions - independent of the library recurrences); expansions around a non-zero inner constant vs mpmath.taylor at 60 digits; get_coeff / as_dict consistency',
         'Compositions of depth <= 3 of the 13 supported functions, rational powers, quotients, products and sums with rational coefficients, expanded to 1-14 terms; every coefficient compared exactly.',
         'Inner series must have zero constant term for the exact reference (otherwise the numeric reference is used, to 1e-12).', 'DESIGN.md 3/C31'),
 'C26': (['asan'], 'event-log monitor vs dense Gaussian-rational arithmetic: the tree returned by matrix_add / matrix_mul / hadamard_product / transpose / conjugate_matrix / trace is evaluated by an independent tree evaluator and compared entry by entry with the dense evaluation of the recipe; size and every definite predicate answer compared with the concrete matrix (for expressions with a MatrixSymbol: with three instances of the symbol); run with assertions recording but not throwing (release semantics) under ASan',
         'Expression trees of depth <= 3 over dense (random / symmetric / triangular / Toeplitz / diagonal-shaped), diagonal, identity and zero leaves of size 1-3 x 1-3 with rational and Gaussian-rational entries; chains of 2-3 factors with all compatible inner sizes.',
         'diagonal / lower / upper of non-square matrices are a convention and not judged; indeterminate is never a violation.', 'DESIGN.md 3/C26'),
 'C19': (['asan', 'rel'], 'event-log monitor: loads(dumps(e)) executed by the real library; complete tree dump (doubles as bit patterns, sums/products order-normalised), hash, string, eq in both directions and the object-sharing census compared before/after',
         'Expressions of depth <= 4 over every serialisable node class (all number kinds incl. signed zeros, subnormals, inf, nan; awkward symbol names; 53 function classes; Derivative, Subs, Piecewise, relationals, logic, Contains, all set classes; Dummy; deliberately shared sub-objects).',
         'Types that decline serialisation (exception) are counted.', 'DESIGN.md 3/C19'),
 'C20': (['asan'], 'sanitizer monitor (ASan+UBSan, assertions recording but not throwing) over mutated dumps: every mutant is loaded and the returned object printed, hashed, compared, evaluated, expanded and re-serialised; oracle = sanitizer report / signal / abort / confirmed hang',
         'Corpus of real dumps from the C19 generator; 4000 (quick) to 400000 (thorough) mutants: bit flips, boundary bytes, truncation, splices, duplicated and deleted ranges, 8-byte length / id fields overwritten with boundary values, random bytes.',
         'Allocation requests above 512 MB refused by the allocator are counted as the exception a normal build would throw; a time-out is re-run alone (120 s) before it counts as a hang.', 'DESIGN.md 3/C20'),
 'C13': (['asan'], 'event-log monitor vs mpmath: one evaluator object per history (init / call / re-init) driven in the executor; outputs compared with the monitor\'s 50-digit evaluation of the library\'s own output trees at the exact input doubles (tolerance from measured conditioning, real mode only where every intermediate is real, complex mode off branch cuts), CSE on vs off, re-initialised vs fresh bit for bit; ASan on the callback tables',
         'Evaluators with 1-3 inputs and 1-4 outputs over arithmetic, powers, 33 elementary functions, atan2, Piecewise with relational / Contains / logical conditions, max/min, sign/floor/ceiling/truncate, relational and logical outputs; 3 input vectors each; histories A, B, A, A+cse on one object.',
         'Points at discontinuities or poles (detected by two-sided perturbation and a 16-digit re-evaluation) are not judged.', 'DESIGN.md 3/C13'),
 'C44': (['asan'], 'event-log monitor: every generated expression printed by latex / mathml / unicode / julia_str / sbml under ASan; MathML fed to an XML parser (expat), LaTeX brace and \\left/\\right balance counted, parse_sbml(sbml(e)) compared with e by eq and, when not eq, by value with the mpmath evaluator',
         'Expressions of depth <= 4 over every node class incl. symbol names with spaces, quotes, non-ASCII and XML markup characters; a separate generator for the SBML fragment (arithmetic, powers, 30 functions, log with base, max/min, piecewise, relationals, logic, pi, E).',
         'A printer may decline a type with NotImplementedError / "not supported"; doubles are compared to the 15 significant digits the printers write.', 'DESIGN.md 3/C44'),
 'C03': (['asan'], 'assertion-hook monitor (H1 in recording mode, release semantics) + independent structural rules on every emitted tree, over mixed API workloads and the focused generators of the other monitors; every distinct assertion site or broken rule is a violation',
         'Programs of 5-9 calls mixing construction, arithmetic, functions, expand, diff, subs (incl. oo / zoo / nan), simplify, rewrites, series, solve, sets, logic, polynomials, parse(str(e)), loads(dumps(e)), matrix expressions.',
         'Memory-safety outcomes of the same programs are judged by C40.', 'DESIGN.md 3/C03'),
 'C40': (['asan'], 'sanitizer monitor (ASan+UBSan+LSan) + conservation monitor on hook H2 (live Basic objects: constructed minus destroyed must return to zero after the second pass of each program in the same process); hangs re-run alone before they count',
         'The mixed API workloads of C03 (every node class, sets, logic, matrix expressions, series, solve, polynomials, printers, parser, serialisation, lambda evaluators), each executed twice per process.',
         'Astronomically large literals under size-sensitive functions (gamma, primorial, ...) are replaced by small ones: their cost is a resource question, not memory safety.', 'DESIGN.md 3/C40'),
 'C18': (['asan'], 'sanitizer monitor (ASan+UBSan, signals, confirmed hangs) over grammar-seeded and mutated parser inputs + differential monitor: one reused Parser / SbmlParser object vs a fresh parser on every input of a sequence',
         'Corpus = str() / sbml() of random expressions over every node class + 27 hand-written seeds; 1-6 mutations (token insert / delete / replace / duplicate / swap, 500-deep nests, 400-digit numbers, huge exponents) and raw bytes; sequences of 6 inputs with valid and invalid interleaved; parse (convert_xor on/off) and parse_sbml.',
         'Mutation-based, not coverage-guided (the libFuzzer configuration was not built); parse_old is not part of the property.', 'DESIGN.md 3/C18'),
 'C15': (['asan'], 'event-log monitor: the printed C text of every expression is compiled by gcc (C89 / C99) and executed; results compared with the monitor\'s mpmath evaluation of the printed expression\'s tree (conditioning-aware tolerance); text that gcc rejects is a violation',
         'Expressions over arithmetic, integer / rational / float powers, 33 elementary functions, atan2, constants, big literals, Piecewise with relational conditions, max/min through ccode, c89code, c99code at double and float precision; 3 input vectors.',
         'Contains conditions and complex values are outside the property\'s node list and not generated / not judged.', 'DESIGN.md 3/C15'),
 'C43': (['gmp', 'gmpxx', 'boostmp'], 'differential monitor across three builds that differ only in INTEGER_CLASS: the same exact programs are executed in each and every statement outcome (status, exception type, tree, string) compared',
         'Programs of 6-10 exact computations on 31-400 bit operands around limb boundaries: gcd family, six division flavours, modular inverse / power, integer roots, perfect powers, primality, combinatorial functions, jacobi / kronecker, rational chains with powers, expand, UIntPoly arithmetic, integer to rational powers, printing.',
         'FLINT is not installed, so that backend is not covered; absolute correctness of the gmp build is judged by C05 / C09 / C21 / C32.', 'DESIGN.md 3/C43'),
 'C42': (['asan'], 'differential monitor inside one process: every C function of cwrapper.h is called on handles holding the same objects as the C++ call next to it (result tree or error code vs exception), wrapped in a try/catch that reports exceptions crossing the C boundary; container scripts vs Python list / set / dict models; Expression operators vs core functions; ASan+UBSan with assertions not throwing (a C caller links a release build)',
         '52 function wrappers, in-place use, subs2, set wrappers, parse / str / number setters, eq / neq / hash, free_symbols, get_args on operands incl. 0, oo, zoo, nan, floats; scripts of 6-14 container operations incl. out-of-range indices; 13 Expression operators.',
         'dense / sparse matrix, ntheory and lambda / LLVM visitor parts of the C API are not driven.', 'DESIGN.md 3/C42'),
 'C41': (['tsan'], 'race detector + sequential-equivalence monitor: gcc ThreadSanitizer build with WITH_SYMENGINE_THREAD_SAFE; 2-8 threads work on the same freshly built expression objects with schedule perturbation at the library\'s hook-H3 sites; every concurrent result is compared with the same operation sequence run sequentially on a second copy',
         'Cases of 3-8 shared expressions x 2-8 threads x 30-200 operations (hash, str, eq, compare, diff, subs, expand, add, mul, pow, free_symbols, get_args on random pairs); the objects are fresh in the concurrent phase so lazily cached state is initialised under contention.',
         'Explores the interleavings the scheduler and the perturbation hook produce, not all of them; evidence reports threads and concurrent operations actually run.', 'DESIGN.md 3/C41'),
}

def main():
    if '--configs' in sys.argv:
        cfgs = []
        for c in CHECKS.values():
            for x in c[0]:
                if x not in cfgs:
                    cfgs.append(x)
        print(' '.join(cfgs))
        return
    props = [json.loads(l) for l in open(os.path.join(VERIF, 'properties.jsonl'))]
    checks = []
    na = []
    na_reasons = json.load(open(os.path.join(VERIF, 'tools', 'not_applicable.json'))) if os.path.exists(os.path.join(VERIF, 'tools', 'not_applicable.json')) else {}
    for p in props:
        pid = p['id']
        if pid in CHECKS:
            cfgs, tech, text, note, ref = CHECKS[pid]
            checks.append(dict(property_id=pid, quick_cmd='./vcheck %s --tier quick' % pid, thorough_cmd='./vcheck %s --tier thorough' % pid,
                               evidence_file='evidence/%s.json' % pid, replay_cmd_template='./vcheck replay {path}', engine='sxec+vlib',
                               level_claimed=dict(category='exploration', text=text, design_ref=ref), level_note=note, technique=tech))
        else:
            na.append(dict(property_id=pid, reason=na_reasons.get(pid, 'no monitor registered yet for this property (runtime monitoring applies; see DESIGN.md section 3)')))
    hooks = dict(guard='SYMENGINE_VERIF',
                 enable='-DSYMENGINE_VERIF in CMAKE_CXX_FLAGS_RELEASE of every /verif/.build/<config> (tools/build.sh)',
                 baseline_off_cmd='cmake --build /repo/_build && ctest --test-dir /repo/_build -j8 --timeout 900',
                 source_commits=json.load(open(os.path.join(VERIF, 'tools', 'hook_commits.json'))), add_only=True)
    man = dict(version=1, setup_cmd='./setup.sh', hooks=hooks,
               engines=[dict(name='sxec+vlib', path='harness/ vlib/ props/', serves_properties=sorted(CHECKS),
                             kind_free_text='C++ executor over the real API emitting JSONL event logs; Python monitors (mpmath / exact / brute-force reference models); sanitizer builds')],
               checks=checks, not_applicable=na,
               notes='Runtime monitoring and sanitizers only. Fix commits and known findings are listed in known_findings.json; see DESIGN.md.')
    with open(os.path.join(VERIF, 'MANIFEST.json'), 'w') as f:
        json.dump(man, f, indent=1)
    print('MANIFEST.json: %d checks, %d not_applicable' % (len(checks), len(na)))

if __name__ == '__main__':
    main()
