#!/bin/bash
# mkwt.sh <Cxx> [suffix]: scratch worktree of /repo HEAD under /tmp/mut/<Cxx><suffix> with the property text (developer tool for seeded-change testing)
id="$1"; sfx="${2:-}"
d=/tmp/mut/$id$sfx
mkdir -p /tmp/mut
git -C /repo worktree add --detach "$d" HEAD >/dev/null 2>&1 || { echo "worktree add failed"; exit 1; }
/opt/veriftools/pyvenv/bin/python3 - "$id" "$d" <<'P'
import json,sys
pid,d=sys.argv[1:3]
for l in open('/verif/properties.jsonl'):
    p=json.loads(l)
    if p['id']==pid:
        open(d+'/PROPERTY.txt','w').write("%s: %s\n\nStatement: %s\n\nQuantified over: %s\n\nAnchor files: %s\nMechanisms: %s\n" % (
            p['id'],p['title'],p['statement'],p['quantifier']['text'],', '.join(p['anchors']['files']),'; '.join(m['name']+' ('+m.get('where','')+')' for m in p['anchors']['mechanism'])))
P
mkdir -p $d/_out
echo $d
