#!/usr/bin/env python3
"""addfinding.py <json-object>  : append an entry to known_findings.json (developer tool; never used at run time)."""
import json, sys, os
p = os.path.join(os.path.dirname(os.path.dirname(os.path.abspath(__file__))), 'known_findings.json')
d = json.load(open(p))
e = json.loads(sys.argv[1])
assert e['id'] not in [f['id'] for f in d['findings']], 'duplicate id'
if e['status'] == 'fixed':
    e.setdefault('line', 'fixed: property=%s %s %s' % (e['property'], e['commit'], e['what']))
d['findings'].append(e)
json.dump(d, open(p, 'w'), indent=1)
print('added', e['id'])
