#!/bin/bash
# build.sh <config>... : (re)build libsymengine.a for the given monitoring configurations from the
# current working tree of $VERIF_REPO (default /repo) into /verif/.build/<config>/lib, then (re)build the
# executor for that configuration.  Incremental (cmake + ninja); serialised per configuration by flock.
set -u
VERIF="$(cd "$(dirname "$0")/.." && pwd)"
REPO="${VERIF_REPO:-/repo}"
ROOT="$VERIF/.build"
mkdir -p "$ROOT"
SAN_COMMON="-O1 -g -fno-omit-frame-pointer -DSYMENGINE_VERIF"
rc=0
for cfg in "$@"; do
  B="$ROOT/$cfg"
  mkdir -p "$B"
  exec 9>"$B/.lock"
  flock 9
  CC=gcc; CXX=g++
  EXTRA=()
  case "$cfg" in
    asan)    FLAGS="$SAN_COMMON -fsanitize=address,undefined -fno-sanitize-recover=all"; EXTRA+=(-DWITH_SYMENGINE_ASSERT=yes) ;;
    rel)     FLAGS="-O1 -g -fno-omit-frame-pointer -DSYMENGINE_VERIF" ;;
    relasan) FLAGS="$SAN_COMMON -fsanitize=address,undefined -fno-sanitize-recover=all" ;;
    tsan)    FLAGS="$SAN_COMMON -fsanitize=thread"; EXTRA+=(-DWITH_SYMENGINE_THREAD_SAFE=yes) ;;
    fuzz)    CC=clang-14; CXX=clang++-14
             FLAGS="$SAN_COMMON -fsanitize=fuzzer-no-link,address,undefined -fno-sanitize=object-size -fno-sanitize-recover=all" ;;
    llvm)    FLAGS="$SAN_COMMON -fsanitize=address,undefined -fno-sanitize-recover=all"
             EXTRA+=(-DWITH_SYMENGINE_ASSERT=yes -DWITH_LLVM=yes -DLLVM_DIR=/usr/lib/llvm-14/lib/cmake/llvm -DWITH_MPFR=yes) ;;
    mp)      FLAGS="$SAN_COMMON -fsanitize=address,undefined -fno-sanitize-recover=all"
             mkdir -p "$B/mpcshim"
             ln -sf /usr/lib/x86_64-linux-gnu/libmpc.so.3 "$B/mpcshim/libmpc.so"
             cp -f "$VERIF/shim/mpc.h" "$B/mpcshim/mpc.h"
             EXTRA+=(-DWITH_SYMENGINE_ASSERT=yes -DWITH_MPFR=yes -DWITH_MPC=yes -DMPC_INCLUDE_DIR="$B/mpcshim" -DMPC_LIBRARY="$B/mpcshim/libmpc.so") ;;
    gmpxx)   FLAGS="-O1 -g -fno-omit-frame-pointer -DSYMENGINE_VERIF"; EXTRA+=(-DWITH_SYMENGINE_ASSERT=yes -DINTEGER_CLASS=gmpxx) ;;
    boostmp) FLAGS="-O1 -g -fno-omit-frame-pointer -DSYMENGINE_VERIF"; EXTRA+=(-DWITH_SYMENGINE_ASSERT=yes -DINTEGER_CLASS=boostmp) ;;
    gmp)     FLAGS="-O1 -g -fno-omit-frame-pointer -DSYMENGINE_VERIF"; EXTRA+=(-DWITH_SYMENGINE_ASSERT=yes) ;;
    *) echo "build.sh: unknown config $cfg" >&2; exit 2 ;;
  esac
  # reconfigure if the source dir changed or never configured
  if [ ! -f "$B/lib/build.ninja" ] || ! grep -q "CMAKE_HOME_DIRECTORY:INTERNAL=$REPO\$" "$B/lib/CMakeCache.txt" 2>/dev/null; then
    rm -rf "$B/lib"
    mkdir -p "$B/lib"
    ( cd "$B/lib" && CC=$CC CXX=$CXX cmake -G Ninja "$REPO" -DCMAKE_BUILD_TYPE=Release \
        -DCMAKE_CXX_FLAGS_RELEASE="$FLAGS" -DCMAKE_C_FLAGS_RELEASE="$FLAGS" \
        -DBUILD_TESTS=no -DBUILD_BENCHMARKS=no -DBUILD_SHARED_LIBS=no "${EXTRA[@]}" ) >"$B/cmake.log" 2>&1 \
      || { echo "build.sh: cmake failed for $cfg (see $B/cmake.log)" >&2; rc=2; flock -u 9; continue; }
  fi
  ( cd "$B/lib" && ninja symengine ) >"$B/ninja.log" 2>&1 \
      || { echo "build.sh: ninja failed for $cfg (see $B/ninja.log)" >&2; tail -30 "$B/ninja.log" >&2; rc=2; flock -u 9; continue; }
  # executor(s)
  echo "$FLAGS" > "$B/flags.txt"
  if ! make -s -j16 -C "$VERIF/harness" CFG="$cfg" CXX="$CXX" REPO="$REPO" B="$B" >"$B/harness.log" 2>&1; then
    echo "build.sh: harness build failed for $cfg (see $B/harness.log)" >&2; tail -30 "$B/harness.log" >&2; rc=2
  fi
  flock -u 9
done
exit $rc
