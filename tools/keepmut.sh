#!/bin/bash
# keepmut.sh <worktree dir> <seeded name> <property> : re-verify an agent's seeded change (tests pass with it; demo fails with it,
# passes without) and store it under /verif/seeded/<name>/.  Developer tool.
wt="$1"; name="$2"; prop="$3"
out=/verif/seeded/$name
[ -f "$wt/_out/patch.diff" ] || { echo "no patch"; exit 2; }
cd "$wt" || exit 2
nice ninja -C _build >/dev/null 2>&1 || { echo "build failed"; exit 1; }
t=$(ctest --test-dir _build -j8 2>&1 | grep "tests passed")
echo "tests with change: $t"
demo=$(ls _out/demo.cpp 2>/dev/null)
g++ -std=gnu++17 -O1 -I"$wt" -I"$wt/_build" "$demo" "$wt/_build/symengine/libsymengine.a" -lgmp -o /tmp/mut/demo_with 2>/tmp/mut/cc1.log || { echo "demo compile (with) failed"; tail -5 /tmp/mut/cc1.log; }
timeout 120 /tmp/mut/demo_with >/tmp/mut/with.log 2>&1; rw=$?
g++ -std=gnu++17 -O1 -I/repo -I/repo/_build "$demo" /repo/_build/symengine/libsymengine.a -lgmp -o /tmp/mut/demo_without 2>/tmp/mut/cc2.log || { echo "demo compile (without) failed"; tail -5 /tmp/mut/cc2.log; }
timeout 120 /tmp/mut/demo_without >/tmp/mut/without.log 2>&1; ro=$?
echo "demo with change: exit $rw ; without: exit $ro"
case "$t" in 100%*) ;; *) echo "REJECT: tests do not all pass"; exit 1;; esac
[ $rw -ne 0 ] && [ $ro -eq 0 ] || { echo "REJECT: demo does not discriminate"; exit 1; }
mkdir -p "$out"
cp _out/patch.diff "$out/patch.diff"; cp "$demo" "$out/demo.cpp"; cp _out/notes.md "$out/notes.md" 2>/dev/null
tail -5 /tmp/mut/with.log > "$out/demo_with_change.txt"
/opt/veriftools/pyvenv/bin/python3 - "$out" "$prop" "$t" "$rw" "$ro" <<'P'
import json,sys
out,prop,t,rw,ro=sys.argv[1:]
json.dump(dict(property=prop, source='independent sub-agent given only the property text and a scratch worktree',
  needs_to_manifest='see notes.md', verified=dict(existing_tests_with_change=t.strip(), demo_exit_with_change=int(rw), demo_exit_without_change=int(ro)),
  ran=['ninja + ctest in the scratch worktree with the change applied', 'demo.cpp linked against the changed library and against /repo/_build (unchanged)'],
  caught_by=None), open(out+'/meta.json','w'), indent=1)
P
echo "kept $out"
