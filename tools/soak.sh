#!/bin/bash
# soak.sh "<props>" "<seeds>" [tier] : run checks across seeds, print one line per run (developer tool)
cd "$(dirname "$0")/.."
tier="${3:-quick}"
for p in $1; do for s in $2; do
  out=$(VERIF_SEED=$s ./vcheck $p --tier $tier 2>&1); rc=$?
  echo "$p seed=$s rc=$rc :: $(echo "$out" | grep -c '^VIOLATION') viol :: $(echo "$out" | tail -1)"
  if [ $rc -ne 0 ]; then echo "$out" | grep -A1 '^VIOLATION\|HARNESS\|INCONCL' | head -20; fi
done; done
