#!/usr/bin/env python3
"""Regenerates the generated tables of DESIGN.md section 8 (between the AS-BUILT markers) from MANIFEST.json, seeded/*/meta.json and known_findings.json."""
import json, os, glob, re
V = os.path.dirname(os.path.dirname(os.path.abspath(__file__)))
man = json.load(open(os.path.join(V, 'MANIFEST.json')))
kf = json.load(open(os.path.join(V, 'known_findings.json')))['findings']
out = []
out.append('### 8.1 Checks registered\n')
out.append('| property | build(s) | deciding method |\n|---|---|---|')
src = open(os.path.join(V, 'tools', 'mkmanifest.py')).read()
for c in man['checks']:
    pid = c['property_id']
    m = re.search(r"'%s': \(\[([^\]]*)\]" % pid, src)
    cfgs = m.group(1).replace("'", '') if m else 'asan'
    out.append('| %s | %s | %s |' % (pid, cfgs, c['technique'].replace('|', '/')))
out.append('\nNot applicable (see MANIFEST.json `not_applicable` for the reasons): ' + ', '.join(n['property_id'] for n in man['not_applicable']) + '\n')
out.append('### 8.2 Seeded changes and the checks that catch them\n')
out.append('Each change was produced by a sub-agent that saw only the property text and a scratch worktree; it compiles, passes the 59 ctest targets, and its demonstration fails with it and passes without it (re-verified here). `seeded/<id>/` holds patch.diff, demo.cpp, notes.md, meta.json.\n')
out.append('| seeded change | needs, in order to manifest | result |\n|---|---|---|')
for d in sorted(glob.glob(os.path.join(V, 'seeded', '*'))):
    mp = os.path.join(d, 'meta.json')
    if not os.path.exists(mp):
        continue
    m = json.load(open(mp))
    cb = m.get('caught_by') or []
    res = '; '.join('%s (%s): %s' % (x.get('check'), x.get('tier'), x.get('result')) for x in cb) or 'not yet run'
    out.append('| %s | %s | %s |' % (os.path.basename(d), str(m.get('needs_to_manifest', '')).replace('|', '/'), res.replace('|', '/')))
out.append('\n### 8.3 Defects of the library repaired (`fix:` commits in /repo)\n')
out.append('| id | commit | what failed |\n|---|---|---|')
for f in kf:
    if f['status'] == 'fixed':
        out.append('| %s | %s | %s |' % (f['id'], f.get('commit', ''), f['what'].replace('|', '/')))
out.append('\n### 8.4 Defects recorded as known findings (printed as KNOWN-FINDING, exit 0)\n')
out.append('| id | what fails | why it was not repaired |\n|---|---|---|')
for f in kf:
    if f['status'] == 'known':
        out.append('| %s | %s | %s |' % (f['id'], f['what'].replace('|', '/'), str(f.get('why_not_fixed', '')).replace('|', '/')))
text = '\n'.join(out) + '\n'
p = os.path.join(V, 'DESIGN.md')
s = open(p).read()
a, b = '<!-- AS-BUILT:BEGIN -->', '<!-- AS-BUILT:END -->'
if a in s:
    s = s[:s.index(a) + len(a)] + '\n' + text + s[s.index(b):]
else:
    s += '\n' + a + '\n' + text + b + '\n'
open(p, 'w').write(s)
print('DESIGN.md tables regenerated: %d checks, %d seeded, %d fixed, %d known' % (len(man['checks']), len(glob.glob(os.path.join(V, 'seeded', '*'))), sum(f['status'] == 'fixed' for f in kf), sum(f['status'] == 'known' for f in kf)))
