#!/usr/bin/env python3
"""run a raw S-expression program (one statement per line) through the executor and print the emitted lines
usage: tools/sx.py prog.sx [config]"""
import sys, json, re
sys.path.insert(0, '/verif')
from vlib import core
def parse(txt):
    toks = re.findall(r'"(?:[^"\\]|\\.)*"|[()]|[^\s()]+', txt)
    pos = [0]
    def rd():
        t = toks[pos[0]]; pos[0] += 1
        if t == '(':
            out = []
            while toks[pos[0]] != ')':
                out.append(rd())
            pos[0] += 1
            return tuple(out)
        if t.startswith('"'):
            return core.Q(json.loads(t))
        return t
    out = []
    while pos[0] < len(toks):
        out.append(rd())
    return out
stmts = parse(open(sys.argv[1]).read())
cfg = sys.argv[2] if len(sys.argv) > 2 else 'asan'
core.build(cfg)
r, reps = core.run_one(cfg, 'dbg', stmts)
print('status', r.status if r else None)
if r:
    for i in range(len(stmts)):
        s = r.s(i)
        if s is None:
            continue
        v = s.v
        if isinstance(v, dict) and 's' in v:
            v = v['s']
        print(i, s.st, json.dumps(v, default=str)[:300] if s.st == 'ok' else getattr(s, 'exc', v))
    if r.crash:
        print('crash', str(r.crash)[:1500])
for rp in reps:
    print('report', str(rp)[:500])
