#!/bin/bash
# trymut.sh <patch.diff> <Cxx> [Cyy...] : apply a seeded change to /repo, run the quick checks, always undo (developer tool)
patch="$1"; shift
cd /verif
git -C /repo diff --quiet || { echo "repo has uncommitted changes; abort"; exit 2; }
git -C /repo apply "$patch" || { echo "patch does not apply"; exit 2; }
trap 'git -C /repo checkout -- . ; echo "[trymut] repo restored"' EXIT
for p in "$@"; do
  out=$(VERIF_SEED=${VERIF_SEED:-0} ./vcheck $p --tier ${TIER:-quick} 2>&1); rc=$?
  echo "== $p rc=$rc"; echo "$out" | grep -E "^VIOLATION|^  key=|^KNOWN|HELD|VIOLATED|INCONCLUSIVE|HARNESS" | cut -c1-400 | head -12
done
