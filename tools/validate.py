#!/opt/veriftools/pyvenv/bin/python3
"""Validate MANIFEST.json and every evidence file against the schemas (developer tool)."""
import json, jsonschema, glob, sys
ok = True
jsonschema.validate(json.load(open('/verif/MANIFEST.json')), json.load(open('/root/.vp/MANIFEST.schema.json')))
print('manifest valid')
es = json.load(open('/root/.vp/EVIDENCE.schema.json'))
for f in sorted(glob.glob('/verif/evidence/*.json')):
    try:
        jsonschema.validate(json.load(open(f)), es)
    except Exception as ex:
        ok = False
        print('INVALID', f, str(ex)[:300])
print('evidence ok' if ok else 'evidence problems')
sys.exit(0 if ok else 1)
